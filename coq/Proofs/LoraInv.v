(* Proofs/LoraInv.v -- C14, clauses 2-4: the agreement invariant between the driver object's fields and the chip-side monitor is kept
   by every LoRa-layer operation of Model/LoraDrv.v, for every radio kind satisfying KindSpec.kind_ok, with every outcome:
   success, a fault at any SPI / BUSY / IRQ position, a wait that never completes, any data returned by the chip. *)
From Coq Require Import ZArith NArith List Bool Lia Arith.
From LoraV Require Import Base.Bytes Model.PhyCore Model.Sx126x Model.LoraDrv Spec.ChipMon Proofs.PhyHoare Proofs.PlainProgs Proofs.KindSpec.
Import ListNotations.
Local Open Scope nat_scope.

(* ---- the driver object's fields *)
Definition dmode (d : drv) : rmode := dec_mode (nth 0 d []).
Definition dflag (d : drv) (t : nat) : bool := negb (nthN (nth t d []) 0 =? 0)%N.
Definition cold (d : drv) : bool := dflag d COLD.

Lemma nth_set_nth_list : forall (d : drv) i j v, nth i (set_nth_list d j v) [] = if Nat.eqb i j then v else nth i d [].
Proof.
  induction d as [|a d IH]; intros i j v.
  - revert i. induction j as [|j IHj]; intros i; cbn [set_nth_list].
    + destruct i as [|i]; [reflexivity|]. cbn. destruct i; reflexivity.
    + destruct i as [|i]; [reflexivity|]. cbn [nth Nat.eqb]. rewrite IHj. destruct (Nat.eqb i j); [reflexivity|]. destruct i; reflexivity.
  - destruct j as [|j]; cbn [set_nth_list]; destruct i as [|i]; cbn [nth Nat.eqb]; try reflexivity. apply IH.
Qed.
Lemma dec_enc m : dec_mode (enc_mode m) = m.
Proof. destruct m as [| | |[n| |a b]| |]; reflexivity. Qed.
Lemma dmode_set_mode d v : dmode (set_nth_list d 0 (enc_mode v)) = v.
Proof. unfold dmode. rewrite nth_set_nth_list. cbn. apply dec_enc. Qed.
Lemma dmode_set_other d t v : t <> 0 -> dmode (set_nth_list d t v) = dmode d.
Proof. intros H. unfold dmode. rewrite nth_set_nth_list. destruct t; [contradiction|reflexivity]. Qed.
Lemma dflag_set_same (d : drv) t (b : bool) : dflag (set_nth_list d t [if b then 1%N else 0%N]) t = b.
Proof. unfold dflag. rewrite nth_set_nth_list, Nat.eqb_refl. destruct b; reflexivity. Qed.
Lemma dflag_set_other (d : drv) t u v : t <> u -> dflag (set_nth_list d u v) t = dflag d t.
Proof. intros H. unfold dflag. rewrite nth_set_nth_list. destruct (Nat.eqb_spec t u); [contradiction|reflexivity]. Qed.

Definition agree (dm : rmode) (c : cmode) : Prop :=
  match c with
  | CSleep => dm = MSleep
  | CStby => True
  | CFs => False
  | CTx => dm = MTx
  | CRx1 => exists n, dm = MRx (RxSingle n)
  | CRxc => dm = MRx RxContinuous \/ dm = MListen
  | CDuty => exists a b, dm = MRx (RxDuty a b)
  | CCad => dm = MCad
  end.

Lemma forallb_le (v v' : item -> bool) l : (forall i, v i = true -> v' i = true) -> forallb v l = true -> forallb v' l = true.
Proof. intros H. rewrite !forallb_forall. intros F i Hi. apply H, F, Hi. Qed.
Lemma valid_all_app m a b : valid_all m (a ++ b) <-> valid_all m a /\ valid_all m b.
Proof.
  unfold valid_all. split.
  - intros H. split; intros i Hi; apply H, in_or_app; [left|right]; exact Hi.
  - intros [Ha Hb] i Hi. apply in_app_or in Hi. destruct Hi; [apply Ha|apply Hb]; assumption.
Qed.
Lemma valid_all_le m m' l : le_valid m m' -> valid_all m l -> valid_all m' l.
Proof. intros L H i Hi. apply L, H, Hi. Qed.

Section Inv.
  Variable x : mctx.
  Variable K : kind.
  Variable KO : kind_ok x K.

  (* what the cold start programs *)
  Definition it_base : list item := it_init x K KO ++ it_power x K KO ++ it_irq x K KO.
  Definition prepared (dm : rmode) (m : mon) : Prop :=
    match dm with
    | MTx => forallb (valid m) (need (no_listen x) StTx) = true
    | MRx _ => forallb (valid m) (need (no_listen x) StRx) = true
    | MCad => valid_all m (it_cad x K KO)
    | MSleep => True
    | _ => lora_sel x m        (* awake as far as the driver knows: the LoRa modem has been selected *)
    end.
  Definition Inv (d : drv) (m : mon) : Prop :=
    okm m /\ agree (dmode d) (cm m) /\ (cold d = false -> valid_all m it_base) /\ prepared (dmode d) m /\
    (x_fam x = K127 -> cm m <> CDuty).

  Lemma lora_sel_le m m' : le_valid m m' -> lora_sel x m -> lora_sel x m'.
  Proof. intros L H F E. apply L, H; assumption. Qed.
  Lemma prepared_le dm m m' : le_valid m m' -> prepared dm m -> prepared dm m'.
  Proof.
    intros L. destruct dm; cbn [prepared]; try (intros; exact I); try (apply forallb_le; exact L); try (apply lora_sel_le; exact L). apply valid_all_le; exact L.
  Qed.
  Lemma need_lora k m : forallb (valid m) (need (no_listen x) k) = true -> lora_sel x m.
  Proof.
    intros V F E. rewrite forallb_forall in V. apply V. unfold need, no_listen. cbn [x_fam x_lora x_tcxo x_listen x_dcdc]. rewrite F, E.
    apply in_or_app. left. apply in_or_app. right. left. reflexivity.
  Qed.
  (* whenever the driver does not believe the chip asleep, the LoRa modem is selected *)
  Lemma prepared_lora dm m : dm <> MSleep -> prepared dm m -> lora_sel x m.
  Proof.
    intros D P. destruct dm; cbn [prepared] in P; try exact P; try contradiction.
    - exact (need_lora _ _ P).
    - exact (need_lora _ _ P).
    - exact (cad_lora x K KO m P).
  Qed.
  Lemma time_passes_same m : cm (time_passes m) = cm m /\ valid (time_passes m) = valid m /\
                              bad_asleep (time_passes m) = bad_asleep m /\ bad_start (time_passes m) = bad_start m.
  Proof. unfold time_passes. destruct (cm m) eqn:E; cbn; rewrite ?E; repeat split; reflexivity. Qed.
  Lemma Inv_time d m : Inv d m -> Inv d (time_passes m).
  Proof.
    destruct (time_passes_same m) as [E1 [E2 [E3 E4]]]. intros [[O1 O2] [A [C [P N]]]].
    assert (L : le_valid m (time_passes m)) by (intros i Hi; rewrite E2; exact Hi).
    split; [split; congruence|]. split; [rewrite E1; exact A|]. split; [intros Hc; eapply valid_all_le; [exact L|apply C, Hc]|].
    split; [eapply prepared_le; [exact L|exact P]|rewrite E1; exact N].
  Qed.

  (* ---- field accesses *)
  Lemma wp_get_mode A (f : rmode -> prog A) (Q : A + rerr -> drv -> mon -> Prop) d m : wp x (f (dmode d)) Q d m -> wp x (m0 <- get_mode ;; f m0) Q d m.
  Proof. intros H. cbn [bind get_mode act1 wp]. exact H. Qed.
  Lemma wp_set_mode A v (f : prog A) (Q : A + rerr -> drv -> mon -> Prop) d m : wp x f Q (set_nth_list d 0 (enc_mode v)) m -> wp x (set_mode v ;;; f) Q d m.
  Proof. intros H. cbn [bind set_mode act1 wp]. exact H. Qed.
  Lemma wp_get_flag A t (f : bool -> prog A) (Q : A + rerr -> drv -> mon -> Prop) d m : wp x (f (dflag d t)) Q d m -> wp x (b <- get_flag t ;; f b) Q d m.
  Proof. intros H. cbn [bind get_flag act1 wp]. exact H. Qed.
  Lemma wp_set_flag A t (b : bool) (f : prog A) (Q : A + rerr -> drv -> mon -> Prop) d m : wp x f Q (set_nth_list d t [if b then 1%N else 0%N]) m -> wp x (set_flag t b ;;; f) Q d m.
  Proof. intros H. cbn [bind set_flag act1 wp]. exact H. Qed.

  (* ---- sequencing through a plain primitive *)
  Lemma seq_plain A B E want (p : prog A) (f : A -> prog B) (Q : B + rerr -> drv -> mon -> Prop) d m : plain_spec x E want p -> okm m -> ready m ->
    (forall a m', prog_le m m' -> valid_all m' want -> wp x (f a) Q d m') ->
    (forall e m', prog_le m m' -> E e -> Q (inr e) d m') ->
    wp x (bind p f) Q d m.
  Proof.
    intros HP Ho Hr Hk He. apply wp_bind. apply HP; [exact Ho|exact Hr|]. intros r m' L V Er. destruct r as [a|e].
    - apply Hk; [exact L|]. intros i Hi. apply V; [exact I|exact Hi].
    - apply He; [exact L|]. apply Er. reflexivity.
  Qed.
  Lemma ready_stby m : cm m = CStby -> ready m.
  Proof. intros H. split; rewrite H; discriminate. Qed.

  (* ---- what every operation establishes *)
  Definition op_err (e : rerr) : Prop := e <> ESpi /\ e <> EBusy /\ e <> ECancelled /\ e <> EPanic /\ e <> EInvalidRadioMode.
  Definition timeout (e : rerr) : Prop := e = ETransmitTimeout \/ e = EReceiveTimeout.
  (* clause 4: after an operation that failed for a reason other than the pins, the chip is in standby and the driver is in standby
     too or (an error found before the radio was started / after the reception had ended) still in the prepared state it was in;
     after a timeout: standby on both sides; a continuous reception goes on *)
  Definition clauseD {A} (d0 : drv) (r : A + rerr) (d' : drv) (m' : mon) : Prop :=
    forall e, r = inr e -> op_err e ->
      (dmode d0 = MRx RxContinuous /\ dmode d' = dmode d0) \/
      (cm m' = CStby /\ (dmode d' = MStandby \/ (dmode d' = dmode d0 /\ ~ timeout e))).
  Definition post {A} (d0 : drv) : A + rerr -> drv -> mon -> Prop := fun r d' m' => Inv d' m' /\ clauseD d0 r d' m'.

  Lemma pin_not_op e : e = ESpi \/ e = EBusy -> ~ op_err e.
  Proof. intros [->| ->] [H1 [H2 _]]; [apply H1|apply H2]; reflexivity. Qed.
  Lemma agree_stby dm : agree dm CStby.
  Proof. exact I. Qed.
  Lemma agree_standby_is c : agree MStandby c -> c = CStby.
  Proof.
    destruct c; cbn; intros H; try reflexivity; try discriminate H; try contradiction.
    - destruct H as [n H]; discriminate H.
    - destruct H as [H|H]; discriminate H.
    - destruct H as [a [b H]]; discriminate H.
  Qed.
  Lemma rmode_eqb_standby m : rmode_eqb m MStandby = true <-> m = MStandby.
  Proof. destruct m as [| | |[n| |a b]| |]; cbn; split; intros H; try discriminate H; reflexivity. Qed.
  Lemma rmode_eqb_sleep m : rmode_eqb m MSleep = true <-> m = MSleep.
  Proof. destruct m as [| | |[n| |a b]| |]; cbn; split; intros H; try discriminate H; reflexivity. Qed.
  Lemma rmode_eqb_cont m : rmode_eqb m (MRx RxContinuous) = true <-> m = MRx RxContinuous.
  Proof. destruct m as [| | |[n| |a b]| |]; cbn; split; intros H; try discriminate H; reflexivity. Qed.

  (* moving the chip within {same mode, standby} with configuration progress keeps the invariant for unchanged driver fields *)
  Lemma Inv_move d m m' : Inv d m -> okm m' -> le_valid m m' -> (cm m' = cm m \/ cm m' = CStby \/ (cm m = CSleep /\ cm m' = CStby)) -> Inv d m'.
  Proof.
    intros [O [A [C [P N]]]] O' L M. split; [exact O'|]. split.
    - destruct M as [->|[->|[_ ->]]]; [exact A|exact I|exact I].
    - split; [intros Hc; eapply valid_all_le; [exact L|apply C, Hc]|]. split; [eapply prepared_le; [exact L|exact P]|].
      intros F. destruct M as [->|[->|[_ ->]]]; [apply N, F|discriminate|discriminate].
  Qed.
  Lemma Inv_standby d m : okm m -> cm m = CStby -> (cold d = false -> valid_all m it_base) -> dmode d = MStandby -> lora_sel x m -> Inv d m.
  Proof.
    intros O E C D LS. split; [exact O|]. split; [rewrite E; exact I|]. split; [exact C|]. split; [rewrite D; exact LS|]. intros _. rewrite E. discriminate.
  Qed.
  Lemma Inv_lora d m : Inv d m -> dmode d <> MSleep -> lora_sel x m.
  Proof. intros [_ [_ [_ [P _]]]] D. exact (prepared_lora _ _ D P). Qed.
  (* the chip sent (back) to sleep while the driver believes it asleep *)
  Lemma Inv_to_sleep d m m' : Inv d m -> okm m' -> le_valid m m' -> dmode d = MSleep -> cm m' = CSleep -> Inv d m'.
  Proof.
    intros [O [A [C [P N]]]] O' L D E. split; [exact O'|]. split; [rewrite E; exact D|].
    split; [intros Hc; eapply valid_all_le; [exact L|apply C, Hc]|]. split; [rewrite D; exact I|]. intros _. rewrite E. discriminate.
  Qed.

  Lemma wp_get_sync A (f : N -> prog A) (Q : A + rerr -> drv -> mon -> Prop) d m :
    wp x (f (nthN (nth 3 d []) 0)) Q d m -> wp x (s <- get_sync ;; f s) Q d m.
  Proof. intros H. cbn [bind get_sync act1 wp]. exact H. Qed.

  (* ---- do_cold_start: from standby; the cold_start flag is cleared only when everything went through *)
  Lemma cold_start_wp (Q : unit + rerr -> drv -> mon -> Prop) d m : okm m -> cm m = CStby -> dmode d = MStandby -> lora_sel x m ->
    (forall d' m', okm m' -> cm m' = CStby -> valid_all m' it_base -> dmode d' = MStandby -> cold d' = false -> lora_sel x m' -> Q (inl tt) d' m') ->
    (forall e m', okm m' -> cm m' = CStby -> plain_err e -> lora_sel x m' -> Q (inr e) d m') ->
    wp x (do_cold_start K) Q d m.
  Proof.
    intros O E D LS Hs Hf. unfold do_cold_start. apply wp_get_sync. apply wp_bind.
    apply (ok_init x K KO); [exact O|apply ready_stby, E|]. intros r m1 E1 _ O1 V1 X1 LS1. specialize (LS1 LS).
    destruct r as [[]|e]; [|apply Hf; [exact O1|congruence|apply X1; reflexivity|exact LS1]].
    specialize (V1 I). assert (C1 : cm m1 = CStby) by congruence.
    apply seq_plain with (want := it_power x K KO) (E := plain_err); [apply (ok_power x K KO)|exact O1|apply ready_stby, C1| |].
    2:{ intros e m2 [L1 [L2 [L3 L4]]] X. apply Hf; [exact L4|congruence|exact X|exact (lora_sel_le _ _ L3 LS1)]. }
    intros [] m2 [L1 [L2 [L3 L4]]] V2. apply wp_get_mode.
    apply seq_plain with (want := it_irq x K KO) (E := pin_only); [apply (ok_irq x K KO)|exact L4|apply ready_stby; congruence| |].
    2:{ intros e m3 [M1 [M2 [M3 M4]]] X. apply Hf; [exact M4|congruence| |exact (lora_sel_le _ _ M3 (lora_sel_le _ _ L3 LS1))]. destruct X as [-> | ->]; repeat split; discriminate. }
    intros [] m3 [M1 [M2 [M3 M4]]] V3. apply wp_set_flag. cbn [set_flag act1 wp].
    apply Hs; [exact M4|congruence| | | |exact (lora_sel_le _ _ M3 (lora_sel_le _ _ L3 LS1))].
    - unfold it_base. apply valid_all_app. split; [intros i Hi; apply M3, L3, V1, Hi|]. apply valid_all_app. split; [intros i Hi; apply M3, V2, Hi|exact V3].
    - rewrite !dmode_set_other by (unfold COLD, CAL; discriminate). exact D.
    - unfold cold. rewrite dflag_set_other by (unfold COLD, CAL; discriminate). exact (dflag_set_same d COLD false).
  Qed.

  (* ---- ensure_ready with the driver's own mode *)
  Lemma agree_sleep_pre d m : Inv d m -> cm m = CSleep -> dmode d = MSleep \/ x_fam x = K127.
  Proof. intros [_ [A _]] E. rewrite E in A. left. exact A. Qed.
  Lemma agree_duty_pre d m : Inv d m -> cm m = CDuty -> awake m = false -> is_duty (dmode d) = true.
  Proof. intros [_ [A _]] E _. rewrite E in A. destruct A as [a [b ->]]. reflexivity. Qed.
  (* on the SX127x the chip is never in a duty-cycled reception, and it sleeps only when the driver says so *)
  Lemma ready_127 d m : Inv d m -> x_fam x = K127 -> dmode d <> MSleep -> ready m.
  Proof.
    intros [_ [A [_ [_ N]]]] F D. split.
    - intros E. rewrite E in A. apply D, A.
    - intros E. exfalso. apply (N F E).
  Qed.

  Lemma ensure_wp (Q : unit + rerr -> drv -> mon -> Prop) d m : Inv d m ->
    (forall m', Inv d m' -> le_valid m m' -> (x_fam x = K126 \/ (ready m /\ dmode d <> MSleep) -> ready m') -> lora_sel x m' -> Q (inl tt) d m') ->
    (forall e m', Inv d m' -> e = ESpi \/ e = EBusy -> Q (inr e) d m') ->
    wp x (k_ensure_ready K (dmode d)) Q d m.
  Proof.
    intros HI Hs Hf. apply (ok_ensure x K KO); [apply HI|apply agree_sleep_pre, HI|apply agree_duty_pre, HI|].
    intros r m' O L M R LR P. assert (HI' : Inv d m').
    { destruct M as [M|[M|[D M]]]; [eapply Inv_move; [exact HI|exact O|exact L|left; exact M]|eapply Inv_move; [exact HI|exact O|exact L|right; right; exact M]|].
      eapply Inv_to_sleep; [exact HI|exact O|exact L|exact D|exact M]. }
    destruct r as [[]|e]; [|apply Hf; [exact HI'|apply P; reflexivity]].
    apply Hs; [exact HI'|exact L|apply R; exact I|].
    intros F E. destruct (rmode_eqb (dmode d) MSleep) eqn:ES.
    - apply rmode_eqb_sleep in ES. apply LR; [exact I|exact F|exact ES].
    - assert (D : dmode d <> MSleep) by (intros X; apply rmode_eqb_sleep in X; congruence). exact (Inv_lora d m' HI' D F E).
  Qed.

  (* ---- to_standby *)
  Lemma to_standby_wp (Q : unit + rerr -> drv -> mon -> Prop) d m : Inv d m -> (x_fam x = K126 -> ready m) -> lora_sel x m ->
    (forall d' m', Inv d' m' -> dmode d' = MStandby -> cm m' = CStby -> le_valid m m' -> (forall t, t <> 0 -> nth t d' [] = nth t d []) -> Q (inl tt) d' m') ->
    (forall e m', Inv d m' -> e = ESpi \/ e = EBusy -> Q (inr e) d m') ->
    wp x (to_standby K) Q d m.
  Proof.
    intros HI HR LS Hs Hf. unfold to_standby. apply wp_get_mode. destruct (rmode_eqb (dmode d) MStandby) eqn:EM.
    - apply rmode_eqb_standby in EM. cbn [wp]. apply Hs; [exact HI|exact EM| |intros i Hi; exact Hi|intros; reflexivity].
      destruct HI as [_ [A _]]. rewrite EM in A. apply agree_standby_is, A.
    - apply wp_bind. apply (ok_standby x K KO); [apply HI|exact HR|]. intros r m' O L S M P.
      destruct r as [[]|e].
      + cbn [set_mode act1 wp]. specialize (S I). apply Hs; [|apply dmode_set_mode|exact S|exact L|].
        * apply Inv_standby; [exact O|exact S| |apply dmode_set_mode|exact (lora_sel_le _ _ L LS)].
          unfold cold. rewrite dflag_set_other by (unfold COLD; discriminate). intros Hc. eapply valid_all_le; [exact L|]. apply HI. exact Hc.
        * intros t Ht. rewrite nth_set_nth_list. destruct (Nat.eqb_spec t 0); [contradiction|reflexivity].
      + apply Hf; [|apply P; reflexivity]. eapply Inv_move; [exact HI|exact O|exact L|]. destruct M as [M|M]; [left; exact M|right; left; exact M].
  Qed.

  (* ---- prepare_modem: wake-up, standby, cold start if the configuration was lost, image calibration *)
  Lemma prepare_modem_wp (Q : unit + rerr -> drv -> mon -> Prop) d m freq : Inv d m ->
    (forall d' m', Inv d' m' -> dmode d' = MStandby -> cm m' = CStby -> cold d' = false -> Q (inl tt) d' m') ->
    (forall e d' m', Inv d' m' -> (e = ESpi \/ e = EBusy) \/ (dmode d' = MStandby /\ cm m' = CStby /\ plain_err e) ->
                     dmode d' = dmode d \/ dmode d' = MStandby -> Q (inr e) d' m') ->
    wp x (prepare_modem K freq) Q d m.
  Proof.
    intros HI Hs Hf. unfold prepare_modem. apply wp_get_mode. apply wp_bind. apply ensure_wp; [exact HI| |].
    2:{ intros e m1 HI1 P. apply Hf; [exact HI1|left; exact P|left; reflexivity]. }
    intros m1 HI1 L1 R1 LS1. apply wp_bind. apply to_standby_wp; [exact HI1| |exact LS1| |].
    { intros F. apply R1. left. exact F. }
    2:{ intros e m2 HI2 P. apply Hf; [exact HI2|left; exact P|left; reflexivity]. }
    intros d2 m2 HI2 D2 C2 L2 _. apply wp_get_flag. fold (cold d2).
    assert (TAIL : forall d3 m3, Inv d3 m3 -> dmode d3 = MStandby -> cm m3 = CStby -> cold d3 = false ->
              wp x (cal <- get_flag CAL ;; (if cal then k_calimg K freq ;;; set_flag CAL false else Ret tt)) Q d3 m3).
    { intros d3 m3 HI3 D3 C3 K3. apply wp_get_flag. destruct (dflag d3 CAL).
      - apply seq_plain with (want := []) (E := plain_err); [apply (ok_calimg x K KO)|apply HI3|apply ready_stby, C3| |].
        + intros [] m4 L4 _. cbn [set_flag act1 wp].
          assert (HI4 : Inv d3 m4). { eapply Inv_move; [exact HI3|apply L4|apply L4|left; apply L4]. }
          apply Hs.
          * destruct HI4 as [O4 [A4 [C4 [P4 N4]]]]. split; [exact O4|]. rewrite (dmode_set_other d3 CAL) by (unfold CAL; discriminate).
            split; [exact A4|]. split; [|split; [exact P4|exact N4]].
            unfold cold. rewrite dflag_set_other by (unfold COLD, CAL; discriminate). exact C4.
          * rewrite dmode_set_other by (unfold CAL; discriminate). exact D3.
          * destruct L4 as [L4 _]. congruence.
          * unfold cold. rewrite dflag_set_other by (unfold COLD, CAL; discriminate). exact K3.
        + intros e m4 L4 X. assert (HI4 : Inv d3 m4). { eapply Inv_move; [exact HI3|apply L4|apply L4|left; apply L4]. }
          apply Hf; [exact HI4| |right; exact D3]. right. split; [exact D3|]. split; [destruct L4 as [L4 _]; congruence|exact X].
      - cbn [wp]. apply Hs; assumption. }
    destruct (cold d2) eqn:EC.
    - apply wp_bind. apply cold_start_wp; [apply HI2|exact C2|exact D2|apply (Inv_lora d2 m2 HI2); rewrite D2; discriminate| |].
      + intros d3 m3 O3 C3 V3 D3 K3 LS3. apply TAIL; [|exact D3|exact C3|exact K3]. apply Inv_standby; [exact O3|exact C3|intros _; exact V3|exact D3|exact LS3].
      + intros e m3 O3 C3 X LS3. apply Hf; [|right; split; [exact D2|split; [exact C3|exact X]]|right; exact D2].
        apply Inv_standby; [exact O3|exact C3| |exact D2|exact LS3]. intros Hc. rewrite EC in Hc. discriminate Hc.
    - cbn [bind]. apply TAIL; assumption.
  Qed.

  (* ---- outcomes *)
  Lemma post_ok A d0 (a : A) d' m' : Inv d' m' -> post d0 (inl a) d' m'.
  Proof. intros H. split; [exact H|]. intros e Eq. discriminate Eq. Qed.
  Lemma post_notop A d0 e d' m' : Inv d' m' -> ~ op_err e -> post (A := A) d0 (inr e) d' m'.
  Proof. intros H N. split; [exact H|]. intros e0 Eq O. injection Eq as <-. contradiction. Qed.
  Lemma post_pin A d0 e d' m' : Inv d' m' -> e = ESpi \/ e = EBusy -> post (A := A) d0 (inr e) d' m'.
  Proof. intros H P. apply post_notop; [exact H|apply pin_not_op, P]. Qed.
  Lemma post_stby A d0 e d' m' : Inv d' m' -> cm m' = CStby -> dmode d' = MStandby -> post (A := A) d0 (inr e) d' m'.
  Proof. intros H C D. split; [exact H|]. intros e0 _ _. right. split; [exact C|left; exact D]. Qed.
  Lemma post_same A d0 e d' m' : Inv d' m' -> cm m' = CStby -> dmode d' = dmode d0 -> ~ timeout e -> post (A := A) d0 (inr e) d' m'.
  Proof. intros H C D T. split; [exact H|]. intros e0 Eq _. injection Eq as <-. right. split; [exact C|right; split; assumption]. Qed.
  Lemma plain_not_timeout e : plain_err e -> ~ timeout e.
  Proof. intros [H1 [H2 _]] [T|T]; [apply H1, T|apply H2, T]. Qed.
  Lemma Inv_stby_cm d m : Inv d m -> dmode d = MStandby -> cm m = CStby.
  Proof. intros [_ [A _]] D. rewrite D in A. apply agree_standby_is, A. Qed.
  Lemma not_op_panic : ~ op_err EPanic.
  Proof. intros [_ [_ [_ [H _]]]]. apply H. reflexivity. Qed.
  Lemma not_op_cancel : ~ op_err ECancelled.
  Proof. intros [_ [_ [H _]]]. apply H. reflexivity. Qed.
  Lemma not_op_mode : ~ op_err EInvalidRadioMode.
  Proof. intros [_ [_ [_ [_ H]]]]. apply H. reflexivity. Qed.

  (* a plain primitive run from standby with the driver in standby: a failure is a clean failure *)
  Lemma seq_stby A B E want (p : prog A) (f : A -> prog B) d0 d m : plain_spec x E want p -> Inv d m -> dmode d = MStandby -> cm m = CStby ->
    (forall a m', Inv d m' -> cm m' = CStby -> le_valid m m' -> valid_all m' want -> wp x (f a) (post d0) d m') ->
    wp x (bind p f) (post d0) d m.
  Proof.
    intros HP HI D C Hk. apply seq_plain with (E := E) (want := want); [exact HP|apply HI|apply ready_stby, C| |].
    - intros a m' L V. assert (C' : cm m' = CStby) by (destruct L as [L _]; congruence).
      apply Hk; [eapply Inv_move; [exact HI|apply L|apply L|left; apply L]|exact C'|apply L|exact V].
    - intros e m' L _. assert (C' : cm m' = CStby) by (destruct L as [L _]; congruence).
      apply post_stby; [eapply Inv_move; [exact HI|apply L|apply L|left; apply L]|exact C'|exact D].
  Qed.
  (* the same with the driver in a prepared state: the chip stays in standby, the driver's fields stay *)
  Lemma seq_prepared A B E want (p : prog A) (f : A -> prog B) d0 d m : plain_spec x E want p -> Inv d m -> cm m = CStby ->
    (forall e, E e -> ~ op_err e \/ (dmode d = dmode d0 /\ ~ timeout e)) ->
    (forall a m', Inv d m' -> cm m' = CStby -> le_valid m m' -> valid_all m' want -> wp x (f a) (post d0) d m') ->
    wp x (bind p f) (post d0) d m.
  Proof.
    intros HP HI C HE Hk. apply seq_plain with (E := E) (want := want); [exact HP|apply HI|apply ready_stby, C| |].
    - intros a m' L V. assert (C' : cm m' = CStby) by (destruct L as [L _]; congruence).
      apply Hk; [eapply Inv_move; [exact HI|apply L|apply L|left; apply L]|exact C'|apply L|exact V].
    - intros e m' L Ee. assert (C' : cm m' = CStby) by (destruct L as [L _]; congruence).
      assert (HI' : Inv d m') by (eapply Inv_move; [exact HI|apply L|apply L|left; apply L]).
      destruct (HE e Ee) as [N|[D T]]; [apply post_notop; assumption|apply post_same; assumption].
  Qed.
  Lemma pin_only_not_op e : pin_only e -> ~ op_err e.
  Proof. apply pin_not_op. Qed.

  Lemma cold_other d t v : t <> COLD -> cold (set_nth_list d t v) = cold d.
  Proof. intros H. unfold cold. apply dflag_set_other. intros E. apply H. symmetry. exact E. Qed.
  Lemma cold_same_fields d d' : (forall t, t <> 0 -> nth t d' [] = nth t d []) -> cold d' = cold d.
  Proof. intros H. unfold cold, dflag. rewrite H by (unfold COLD; discriminate). reflexivity. Qed.

  (* ---- prepare_for_tx *)
  Theorem prepare_for_tx_keeps md pk power buffer d m : Inv d m -> wp x (prepare_for_tx K md pk power buffer) (post d) d m.
  Proof.
    intros HI. unfold prepare_for_tx. apply wp_bind. apply prepare_modem_wp; [exact HI| |].
    2:{ intros e d1 m1 HI1 [P|[D1 [C1 _]]] _; [apply post_pin; assumption|apply post_stby; assumption]. }
    intros d1 m1 HI1 D1 C1 K1.
    apply seq_stby with (E := plain_err) (want := it_mod x K KO); [apply (ok_mod x K KO)|exact HI1|exact D1|exact C1|]. intros [] m2 HI2 C2 L2 V2.
    apply seq_stby with (E := plain_err) (want := it_power x K KO); [apply (ok_power x K KO)|exact HI2|exact D1|exact C2|]. intros [] m3 HI3 C3 L3 V3.
    apply wp_get_mode. apply wp_bind. apply ensure_wp; [exact HI3| |intros e m4 HI4 P; apply post_pin; assumption].
    intros m4 HI4 L4 _ LS4. pose proof (Inv_stby_cm _ _ HI4 D1) as C4.
    apply wp_bind. apply to_standby_wp; [exact HI4|intros _; apply ready_stby, C4|exact LS4| |intros e m5 HI5 P; apply post_pin; assumption].
    intros d5 m5 HI5 D5 C5 L5 F5.
    destruct (255 <? N.of_nat (length buffer))%N; cbn [bind]; [apply post_stby; assumption|].
    apply seq_stby with (E := plain_err) (want := it_pkt x K KO); [apply (ok_pkt x K KO)|exact HI5|exact D5|exact C5|]. intros [] m6 HI6 C6 L6 V6.
    apply seq_stby with (E := plain_err) (want := it_chan x K KO); [apply (ok_chan x K KO)|exact HI6|exact D5|exact C6|]. intros [] m7 HI7 C7 L7 V7.
    apply seq_stby with (E := plain_err) (want := it_payload x K KO); [apply (ok_payload x K KO)|exact HI7|exact D5|exact C7|]. intros [] m8 HI8 C8 L8 V8.
    apply wp_set_mode.
    assert (K5 : cold d5 = false) by (rewrite (cold_same_fields d1 d5 F5); exact K1).
    assert (HI9 : Inv (set_nth_list d5 0 (enc_mode MTx)) m8).
    { destruct HI8 as [O8 [A8 [B8 [P8 N8]]]]. split; [exact O8|]. rewrite dmode_set_mode. split; [rewrite C8; exact I|].
      rewrite cold_other by (unfold COLD; discriminate). split; [exact B8|]. split; [|exact N8].
      cbn [prepared]. apply (cover_tx x K KO); [|rewrite D5 in P8; exact P8]. specialize (B8 K5). unfold it_base in B8.
      apply valid_all_app in B8. destruct B8 as [Bi B8]. apply valid_all_app in B8. destruct B8 as [Bp Bq].
      repeat (apply valid_all_app; split); try assumption.
      - apply (valid_all_le m2); [|exact V2]. intros i Hi. apply L8, L7, L6, L5, L4, L3, Hi.
      - apply (valid_all_le m6); [|exact V6]. intros i Hi. apply L8, L7, Hi.
      - apply (valid_all_le m7); [|exact V7]. intros i Hi. apply L8, Hi. }
    apply (ok_irq x K KO); [apply HI9|apply ready_stby, C8|]. intros r m9 L9 _ E9.
    assert (HI10 : Inv (set_nth_list d5 0 (enc_mode MTx)) m9) by (eapply Inv_move; [exact HI9|apply L9|apply L9|left; apply L9]).
    destruct r as [[]|e]; [apply post_ok; exact HI10|apply post_pin; [exact HI10|apply E9; reflexivity]].
  Qed.

  (* ---- the recovery of the tx / complete_rx / cad error paths *)
  Lemma recover_wp A err d0 d m : Inv d m -> wp x (recover K (A := A) err) (post d0) d m.
  Proof.
    intros HI. unfold recover. apply wp_get_mode. apply wp_bind. apply ensure_wp; [exact HI| |intros e m1 HI1 P; apply post_pin; assumption].
    intros m1 HI1 L1 R1 LS1. apply wp_bind. apply (ok_standby x K KO); [apply HI1|intros F; apply R1; left; exact F|].
    intros r m2 O2 L2 S2 M2 P2. destruct r as [[]|e].
    - apply wp_set_mode. cbn [wp]. specialize (S2 I). apply post_stby; [|exact S2|apply dmode_set_mode].
      apply Inv_standby; [exact O2|exact S2| |apply dmode_set_mode|exact (lora_sel_le _ _ L2 LS1)]. rewrite cold_other by (unfold COLD; discriminate).
      intros Hc. eapply valid_all_le; [exact L2|]. apply HI1. exact Hc.
    - apply post_pin; [|apply P2; reflexivity]. eapply Inv_move; [exact HI1|exact O2|exact L2|]. destruct M2 as [M|M]; [left; exact M|right; left; exact M].
  Qed.

  Lemma Inv_awake d m b : Inv d m -> Inv d (with_awake m b).
  Proof. intros [O [A [C [P N]]]]. split; [exact O|]. split; [exact A|]. split; [exact C|]. split; [|exact N]. destruct (dmode d); exact P. Qed.

  Lemma agree_tx c : agree MTx c -> c = CStby \/ c = CTx.
  Proof.
    destruct c; cbn; intros H; try discriminate H; try contradiction; try (left; reflexivity); try (right; reflexivity).
    - destruct H as [n H]; discriminate H.
    - destruct H as [H|H]; discriminate H.
    - destruct H as [a [b H]]; discriminate H.
  Qed.

  Lemma tx_loop_wp d0 : forall fuel d m, Inv d m -> dmode d = MTx -> wp x (tx_loop K fuel) (post d0) d m.
  Proof.
    induction fuel as [|fuel IH]; intros d m HI D; cbn [tx_loop].
    - cbn [wp]. apply post_notop; [exact HI|apply not_op_panic].
    - cbn [bind iv act1 wp]. split; [|split].
      + apply post_notop; [apply Inv_time; exact HI|apply not_op_cancel].
      + apply post_pin; [exact HI|right; reflexivity].
      + apply wp_get_mode. rewrite D. apply wp_bind. apply wp_attempt.
        assert (HIa : Inv d (with_awake m true)) by (apply Inv_awake, HI).
        assert (AT : cm m = CStby \/ cm m = CTx) by (apply agree_tx; destruct HI as [_ [A _]]; rewrite D in A; exact A).
        apply (ok_procirq x K KO); [apply HIa| | |].
        { cbn. destruct AT as [-> | ->]; discriminate. }
        { intros _. reflexivity. }
        intros r m1 O1 L1 M1 Dn Pr NC. change (cm (mon_event x m (TIv IvIrq))) with (cm m) in *.
        assert (HI1 : Inv d m1). { eapply Inv_move; [exact HIa|exact O1|exact L1|]. destruct M1 as [M|M]; [left; exact M|right; left; exact M]. }
        unfold attempt_post. destruct r as [[| |c]|e].
        * apply IH; assumption.
        * destruct (Pr eq_refl) as [rm Hrm]. discriminate Hrm.
        * cbn [set_mode act1 wp]. assert (C1 : cm m1 = CStby).
          { destruct AT as [E|E]; [destruct M1 as [M|M]; [congruence|exact M]|]. apply (Dn c eq_refl eq_refl). rewrite E. reflexivity. }
          apply post_ok. apply Inv_standby; [exact O1|exact C1| |apply dmode_set_mode|apply (Inv_lora d m1 HI1); rewrite D; discriminate].
          rewrite cold_other by (unfold COLD; discriminate). apply HI1.
        * destruct e; try (apply recover_wp; exact HI1); try (apply post_notop; [exact HI1|]); [apply not_op_panic|apply not_op_cancel].
  Qed.

  Lemma need_nl k : x_listen x = false -> need x k = need (no_listen x) k.
  Proof. intros H. unfold need, no_listen. cbn. rewrite H. reflexivity. Qed.
  Lemma ready_of_agree d m : Inv d m -> (dmode d = MTx \/ dmode d = MCad \/ dmode d = MListen \/ exists rm, dmode d = MRx rm /\ is_duty (MRx rm) = false) -> ready m.
  Proof.
    intros [_ [A _]] D. split; intros E; rewrite E in A; cbn in A.
    - destruct D as [D|[D|[D|[rm [D _]]]]]; rewrite D in A; discriminate A.
    - exfalso. destruct A as [a [b A]]. destruct D as [D|[D|[D|[rm [D Du]]]]]; rewrite D in A; try discriminate A. injection A as ->. discriminate Du.
  Qed.

  (* ---- tx *)
  Theorem tx_keeps fuel d m : x_listen x = false -> Inv d m -> wp x (tx K fuel) (post d) d m.
  Proof.
    intros NL HI. unfold tx. apply wp_get_mode. destruct (dmode d) eqn:D; try (cbn [wp]; apply post_notop; [exact HI|apply not_op_mode]).
    apply wp_bind. apply (ok_tx x K KO); [apply HI|apply (ready_of_agree d); [exact HI|left; exact D]| |].
    { rewrite need_nl by exact NL. destruct HI as [_ [_ [_ [P _]]]]. rewrite D in P. exact P. }
    intros r m1 O1 L1 S1 M1 P1.
    assert (HI1 : Inv d m1).
    { destruct HI as [O [A [C [P N]]]]. split; [exact O1|]. split; [rewrite D; destruct M1 as [-> | ->]; [rewrite D in A; exact A|reflexivity]|].
      split; [intros Hc; eapply valid_all_le; [exact L1|apply C, Hc]|]. split; [eapply prepared_le; [exact L1|exact P]|].
      intros F. destruct M1 as [-> | ->]; [apply N, F|discriminate]. }
    destruct r as [[]|e]; [apply tx_loop_wp; assumption|apply post_pin; [exact HI1|apply P1; reflexivity]].
  Qed.

  (* ---- prepare_for_rx *)
  Theorem prepare_for_rx_keeps rm md pk d m : Inv d m -> wp x (prepare_for_rx K rm md pk) (post d) d m.
  Proof.
    intros HI. unfold prepare_for_rx. apply wp_bind. apply prepare_modem_wp; [exact HI| |].
    2:{ intros e d1 m1 HI1 [P|[D1 [C1 _]]] _; [apply post_pin; assumption|apply post_stby; assumption]. }
    intros d1 m1 HI1 D1 C1 K1.
    apply seq_stby with (E := plain_err) (want := it_mod x K KO); [apply (ok_mod x K KO)|exact HI1|exact D1|exact C1|]. intros [] m2 HI2 C2 L2 V2.
    apply seq_stby with (E := plain_err) (want := it_pkt x K KO); [apply (ok_pkt x K KO)|exact HI2|exact D1|exact C2|]. intros [] m3 HI3 C3 L3 V3.
    apply seq_stby with (E := plain_err) (want := it_chan x K KO); [apply (ok_chan x K KO)|exact HI3|exact D1|exact C3|]. intros [] m4 HI4 C4 L4 V4.
    apply wp_set_mode.
    assert (HI5 : Inv (set_nth_list d1 0 (enc_mode (MRx rm))) m4).
    { destruct HI4 as [O4 [A4 [B4 [P4 N4]]]]. split; [exact O4|]. rewrite dmode_set_mode. split; [rewrite C4; exact I|].
      rewrite cold_other by (unfold COLD; discriminate). split; [exact B4|]. split; [|exact N4].
      cbn [prepared]. apply (cover_rx x K KO); [|rewrite D1 in P4; exact P4]. specialize (B4 K1). unfold it_base in B4.
      apply valid_all_app in B4. destruct B4 as [Bi B4]. apply valid_all_app in B4. destruct B4 as [Bp Bq].
      repeat (apply valid_all_app; split); try assumption.
      - apply (valid_all_le m2); [|exact V2]. intros i Hi. apply L4, L3, Hi.
      - apply (valid_all_le m3); [|exact V3]. intros i Hi. apply L4, Hi. }
    apply (ok_irq x K KO); [apply HI5|apply ready_stby, C4|]. intros r m5 L5 _ E5.
    assert (HI6 : Inv (set_nth_list d1 0 (enc_mode (MRx rm))) m5) by (eapply Inv_move; [exact HI5|apply L5|apply L5|left; apply L5]).
    destruct r as [[]|e]; [apply post_ok; exact HI6|apply post_pin; [exact HI6|apply E5; reflexivity]].
  Qed.

  (* ---- start_rx / rx_switch_channel *)
  Lemma agree_rx_target rm : agree (MRx rm) (rx_target rm).
  Proof. destruct rm as [n| |a b]; cbn; [exists n; reflexivity|left; reflexivity|exists a, b; reflexivity]. Qed.
  Lemma agree_rx_cases rm c : agree (MRx rm) c -> c = CStby \/ c = rx_target rm.
  Proof.
    destruct c; cbn; intros H; try discriminate H; try contradiction; try (left; reflexivity).
    - destruct H as [n H]. injection H as ->. right; reflexivity.
    - destruct H as [H|H]; [injection H as ->; right; reflexivity|discriminate H].
    - destruct H as [a [b H]]. injection H as ->. right; reflexivity.
  Qed.

  (* the reception is (re)started from a state in which the chip accepts commands *)
  Lemma post_err_cast A B d0 e d' m' : post (A := A) d0 (inr e) d' m' -> post (A := B) d0 (inr e) d' m'.
  Proof. intros [H C]. split; [exact H|]. intros e0 Eq O. injection Eq as <-. apply (C e eq_refl O). Qed.

  Lemma do_rx_wp' rm d0 d m (Q : unit + rerr -> drv -> mon -> Prop) : x_listen x = false -> Inv d m -> dmode d = MRx rm -> ready m -> (dmode d0 = dmode d) ->
    (forall m', Inv d m' -> Q (inl tt) d m') -> (forall e m', post (A := unit) d0 (inr e) d m' -> Q (inr e) d m') ->
    wp x (k_rx K rm) Q d m.
  Proof.
    intros NL HI D R D0 Hs Hf. apply (ok_rx x K KO); [apply HI|exact R| |].
    { rewrite need_nl by exact NL. destruct HI as [_ [_ [_ [P _]]]]. rewrite D in P. exact P. }
    intros r m1 O1 L1 S1 M1 N1 P1.
    assert (HI1 : Inv d m1).
    { destruct HI as [O [A [C [P N]]]]. split; [exact O1|]. split; [rewrite D; destruct M1 as [-> | ->]; [rewrite D in A; exact A|apply agree_rx_target]|].
      split; [intros Hc; eapply valid_all_le; [exact L1|apply C, Hc]|]. split; [eapply prepared_le; [exact L1|exact P]|].
      intros F E. apply (N F). apply (N1 F E). }
    destruct r as [[]|e]; [apply Hs; exact HI1|]. apply Hf. destruct (P1 e eq_refl) as [P|[P|[-> [E1 [F Du]]]]]; try (apply post_pin; [exact HI1|tauto]).
    apply post_same; [exact HI1| |congruence|intros [T|T]; discriminate T].
    rewrite E1. destruct HI as [_ [A [_ [_ N]]]]. rewrite D in A. destruct (agree_rx_cases _ _ A) as [C|C]; [exact C|].
    exfalso. destruct rm; try discriminate Du. apply (N F). exact C.
  Qed.
  Lemma do_rx_wp rm d0 d m : x_listen x = false -> Inv d m -> dmode d = MRx rm -> ready m -> (dmode d0 = dmode d) ->
    wp x (k_rx K rm) (post d0) d m.
  Proof. intros NL HI D R D0. apply do_rx_wp' with (d0 := d0); try assumption; [intros m' H; apply post_ok, H|intros e m' H; exact H]. Qed.

  Theorem start_rx_keeps d m : x_listen x = false -> Inv d m -> wp x (start_rx K) (post d) d m.
  Proof.
    intros NL HI. unfold start_rx. apply wp_get_mode. destruct (dmode d) eqn:D; try (cbn [wp]; apply post_notop; [exact HI|apply not_op_mode]).
    apply wp_bind. rewrite <- D. apply ensure_wp; [exact HI| |intros e m1 HI1 P; apply post_pin; assumption].
    intros m1 HI1 L1 R1 LS1. apply do_rx_wp; [exact NL|exact HI1|exact D| |reflexivity].
    apply R1. destruct (x_fam x) eqn:F; [left; reflexivity|right]. split; [apply (ready_127 d); [exact HI|exact F|rewrite D; discriminate]|rewrite D; discriminate].
  Qed.

  Theorem rx_switch_channel_keeps f d m : x_listen x = false -> Inv d m -> wp x (rx_switch_channel K f) (post d) d m.
  Proof.
    intros NL HI. unfold rx_switch_channel. apply wp_get_mode. destruct (dmode d) eqn:D; try (cbn [wp]; apply post_notop; [exact HI|apply not_op_mode]).
    apply wp_bind. rewrite <- D. apply ensure_wp; [exact HI| |intros e m1 HI1 P; apply post_pin; assumption].
    intros m1 HI1 L1 R1 LS1. apply wp_bind. apply (ok_standby x K KO); [apply HI1|intros F; apply R1; left; exact F|].
    intros r m2 O2 L2 S2 M2 P2.
    assert (HI2 : Inv d m2). { eapply Inv_move; [exact HI1|exact O2|exact L2|]. destruct M2 as [M|M]; [left; exact M|right; left; exact M]. }
    destruct r as [[]|e]; [|apply post_pin; [exact HI2|apply P2; reflexivity]]. specialize (S2 I).
    apply seq_prepared with (E := plain_err) (want := it_chan x K KO); [apply (ok_chan x K KO)|exact HI2|exact S2| |].
    { intros e Ee. right. split; [reflexivity|apply plain_not_timeout, Ee]. }
    intros [] m3 HI3 C3 L3 _. apply do_rx_wp; [exact NL|exact HI3|exact D|apply ready_stby, C3|reflexivity].
  Qed.

  (* ---- complete_rx *)
  Lemma rx_not_sleep d m rm : Inv d m -> dmode d = MRx rm -> cm m <> CSleep.
  Proof. intros [_ [A _]] D E. rewrite E, D in A. discriminate A. Qed.

  Lemma complete_rx_loop_wp pk buflen d0 rm : forall fuel d m, Inv d m -> dmode d = MRx rm -> dmode d0 = MRx rm ->
    wp x (complete_rx_loop K fuel pk buflen) (post d0) d m.
  Proof.
    induction fuel as [|fuel IH]; intros d m HI D D0; cbn [complete_rx_loop].
    - cbn [wp]. apply post_notop; [exact HI|apply not_op_panic].
    - apply wp_get_mode. rewrite D. apply wp_bind. apply wp_attempt.
      assert (AT : cm m = CStby \/ cm m = rx_target rm) by (apply agree_rx_cases; destruct HI as [_ [A _]]; rewrite D in A; exact A).
      apply (ok_procirq x K KO); [apply HI|apply (rx_not_sleep d m rm); assumption| |].
      { intros E. destruct AT as [C|C]; [congruence|]. rewrite E in C. destruct rm; try discriminate C. reflexivity. }
      intros r m1 O1 L1 M1 Dn Pr NC.
      assert (HI1 : Inv d m1). { eapply Inv_move; [exact HI|exact O1|exact L1|]. destruct M1 as [M|M]; [left; exact M|right; left; exact M]. }
      assert (WAIT : wp x (iv IvIrq ;;; complete_rx_loop K fuel pk buflen) (post d0) d m1).
      { cbn [bind iv act1 wp]. split; [|split].
        - apply post_notop; [apply Inv_time; exact HI1|apply not_op_cancel].
        - apply post_pin; [exact HI1|right; reflexivity].
        - apply IH; [apply Inv_awake, HI1|exact D|exact D0]. }
      unfold attempt_post. destruct r as [[| |c]|e]; try exact WAIT.
      + (* a packet: read it out *)
        assert (R1 : ready m1 /\ (rm = RxContinuous \/ cm m1 = CStby)).
        { destruct rm as [n| |a b].
          - assert (C1 : cm m1 = CStby). { destruct AT as [E|E]; [destruct M1 as [M|M]; congruence|]. apply (Dn c eq_refl eq_refl). rewrite E. reflexivity. }
            split; [apply ready_stby, C1|right; exact C1].
          - split; [|left; reflexivity]. split; intros E; destruct AT as [C|C]; destruct M1 as [M|M]; cbn in C; congruence.
          - assert (C1 : cm m1 = CStby). { destruct AT as [E|E]; [destruct M1 as [M|M]; congruence|]. apply (Dn c eq_refl eq_refl). rewrite E. reflexivity. }
            split; [apply ready_stby, C1|right; exact C1]. }
        destruct R1 as [R1 W1].
        assert (FAIL : forall e m', prog_le m1 m' -> plain_err e -> post (A := N * list N * (Z * Z)) d0 (inr e) d m').
        { intros e m' L Ee. assert (HI' : Inv d m') by (eapply Inv_move; [exact HI1|apply L|apply L|left; apply L]).
          destruct W1 as [-> |C1].
          - split; [exact HI'|]. intros e0 _ _. left. split; [exact D0|congruence].
          - apply post_same; [exact HI'|destruct L as [L _]; congruence|congruence|apply plain_not_timeout, Ee]. }
        apply seq_plain with (E := plain_err) (want := []); [apply (ok_rxpayload x K KO)|exact O1|exact R1| |exact FAIL].
        intros dat m2 L2 _. apply seq_plain with (E := plain_err) (want := []); [apply (ok_status x K KO)|apply L2|eapply prog_le_ready; [exact L2|exact R1]| |].
        * intros st m3 L3 _. cbn [wp]. apply post_ok. pose proof (prog_le_trans _ _ _ L2 L3) as L. eapply Inv_move; [exact HI1|apply L|apply L|left; apply L].
        * intros e m3 L3 Ee. apply FAIL; [eapply prog_le_trans; eassumption|exact Ee].
      + (* an error from the interrupt status *)
        assert (ERR : forall e0, wp x (if rmode_eqb (MRx rm) (MRx RxContinuous) then Fail e0 else recover K e0) (post (A := N * list N * (Z * Z)) d0) d m1).
        { intros e0. destruct (rmode_eqb (MRx rm) (MRx RxContinuous)) eqn:EC.
          - apply rmode_eqb_cont in EC. cbn [wp]. split; [exact HI1|]. intros e1 _ _. left. split; [congruence|congruence].
          - apply recover_wp. exact HI1. }
        destruct e; try apply ERR; (apply post_notop; [exact HI1|]); [apply not_op_panic|apply not_op_cancel].
  Qed.

  Theorem complete_rx_keeps fuel pk buflen d m : Inv d m -> wp x (complete_rx K fuel pk buflen) (post d) d m.
  Proof.
    intros HI. unfold complete_rx. apply wp_get_mode. destruct (dmode d) eqn:D; try (cbn [wp]; apply post_notop; [exact HI|apply not_op_mode]).
    apply (complete_rx_loop_wp pk buflen d m0); assumption.
  Qed.

  Theorem rx_keeps fuel pk buflen d m : x_listen x = false -> Inv d m -> wp x (rx K fuel pk buflen) (post d) d m.
  Proof.
    intros NL HI. unfold rx, start_rx. cbn [bind get_mode act1 wp]. fold (dmode d).
    destruct (dmode d) eqn:D; try (cbn [bind wp]; apply post_notop; [exact HI|apply not_op_mode]).
    apply wp_bind. apply wp_bind. rewrite <- D. apply ensure_wp; [exact HI| |intros e m1 HI1 P; apply post_pin; assumption].
    intros m1 HI1 L1 R1 LS1. apply do_rx_wp' with (d0 := d); [exact NL|exact HI1|exact D| |reflexivity| |].
    - apply R1. destruct (x_fam x) eqn:F; [left; reflexivity|right]. split; [apply (ready_127 d); [exact HI|exact F|rewrite D; discriminate]|rewrite D; discriminate].
    - intros m2 HI2. apply complete_rx_keeps. exact HI2.
    - intros e m2 H. eapply post_err_cast. exact H.
  Qed.

  (* ---- sleep *)
  Theorem sleep_keeps warm d m : Inv d m -> wp x (sleep K warm) (post d) d m.
  Proof.
    intros HI. unfold sleep. apply wp_get_mode. destruct (rmode_eqb (dmode d) MSleep) eqn:ES; [cbn [wp]; apply post_ok, HI|].
    apply wp_bind. apply ensure_wp; [exact HI| |intros e m1 HI1 P; apply post_pin; assumption].
    intros m1 HI1 L1 R1 LS1. apply wp_bind. apply (ok_sleep x K KO); [apply HI1|intros F; apply R1; left; exact F|].
    intros r m2 S2 F2 P2. destruct r as [[]|e].
    - destruct (S2 I) as [O2 [C2 W2]]. destruct warm.
      + cbn [bind set_mode act1 wp]. apply post_ok. destruct HI1 as [O1 [A1 [B1 [P1 N1]]]]. split; [exact O2|]. rewrite dmode_set_mode.
        split; [rewrite C2; reflexivity|]. rewrite cold_other by (unfold COLD; discriminate).
        split; [intros Hc; eapply valid_all_le; [apply W2; reflexivity|apply B1, Hc]|]. split; [exact I|]. intros _. rewrite C2. discriminate.
      + apply wp_set_flag. cbn [set_mode act1 wp]. apply post_ok. split; [exact O2|]. rewrite dmode_set_mode. split; [rewrite C2; reflexivity|].
        rewrite cold_other by (unfold COLD; discriminate). unfold cold. rewrite (dflag_set_same d COLD true).
        split; [intros Hc; discriminate Hc|]. split; [exact I|]. intros _. rewrite C2. discriminate.
    - assert (E2 : m2 = m1) by (apply F2; intros H; exact H). subst m2. apply post_pin; [exact HI1|apply P2; reflexivity].
  Qed.

  (* ---- init *)
  Theorem init_keeps d m : Inv d m -> wp x (init K) (post d) d m.
  Proof.
    intros HI. unfold init. apply wp_set_flag. apply wp_get_mode. apply wp_set_mode.
    set (d1 := set_nth_list (set_nth_list d COLD [1%N]) 0 (enc_mode MSleep)).
    assert (D1 : dmode d1 = MSleep) by (unfold d1; apply dmode_set_mode).
    assert (K1 : cold d1 = true). { unfold d1. rewrite cold_other by (unfold COLD; discriminate). unfold cold. exact (dflag_set_same d COLD true). }
    assert (INV1 : forall m', okm m' -> (cm m' = CStby \/ cm m' = CSleep) -> Inv d1 m').
    { intros m' O' C'. split; [exact O'|]. rewrite D1. split; [destruct C' as [-> | ->]; reflexivity|]. split; [intros Hc; rewrite K1 in Hc; discriminate Hc|].
      split; [exact I|]. intros _. destruct C' as [-> | ->]; discriminate. }
    apply wp_bind. apply (ok_reset x K KO); [apply HI|]. intros r m1 O1 C1 LR1 P1.
    assert (HI1 : Inv d1 m1) by (apply INV1; [exact O1|destruct C1 as [C|[C _]]; [left|right]; exact C]).
    destruct r as [[]|e]; [|apply post_pin; [exact HI1|apply P1; reflexivity]].
    apply wp_bind. rewrite dmode_set_other by (unfold COLD; discriminate).
    apply (ok_ensure x K KO); [exact O1| | |].
    { intros E. destruct C1 as [C|[_ F]]; [congruence|right; exact F]. }
    { intros E. destruct C1 as [C|[C _]]; congruence. }
    specialize (LR1 I).
    intros r m2 O2 L2 M2 R2 _ P2.
    assert (C2 : cm m2 = CStby \/ cm m2 = CSleep). { destruct M2 as [M|[[_ M]|[_ M]]]; [|left; exact M|right; exact M]. destruct C1 as [C|[C _]]; [left|right]; congruence. }
    assert (HI2 : Inv d1 m2) by (apply INV1; assumption).
    destruct r as [[]|e]; [|apply post_pin; [exact HI2|apply P2; reflexivity]].
    apply wp_bind. apply (ok_standby x K KO); [exact O2|intros F; apply R2; [exact I|left; exact F]|].
    intros r m3 O3 L3 S3 M3 P3.
    assert (C3 : cm m3 = CStby \/ cm m3 = CSleep). { destruct M3 as [M|M]; [|left; exact M]. destruct C2 as [C|C]; [left|right]; congruence. }
    destruct r as [[]|e]; [|apply post_pin; [apply INV1; assumption|apply P3; reflexivity]]. specialize (S3 I).
    apply wp_set_mode. set (d3 := set_nth_list d1 0 (enc_mode MStandby)).
    assert (D3 : dmode d3 = MStandby) by (unfold d3; apply dmode_set_mode).
    assert (K3 : cold d3 = true) by (unfold d3; rewrite cold_other by (unfold COLD; discriminate); exact K1).
    apply cold_start_wp; [exact O3|exact S3|exact D3|exact (lora_sel_le _ _ L3 (lora_sel_le _ _ L2 LR1))| |].
    - intros d4 m4 O4 C4 V4 D4 K4 LS4. apply post_ok. apply Inv_standby; [exact O4|exact C4|intros _; exact V4|exact D4|exact LS4].
    - intros e m4 O4 C4 _ LS4. apply post_stby; [|exact C4|exact D3]. apply Inv_standby; [exact O4|exact C4| |exact D3|exact LS4]. intros Hc. rewrite K3 in Hc. discriminate Hc.
  Qed.

  (* ---- set_lora_sync_word *)
  Theorem sync_keeps sw d m : Inv d m -> wp x (set_lora_sync_word K sw) (post d) d m.
  Proof.
    intros HI. unfold set_lora_sync_word. apply wp_get_mode. apply wp_bind. apply ensure_wp; [exact HI| |intros e m1 HI1 P; apply post_pin; assumption].
    intros m1 HI1 L1 R1 LS1. apply wp_bind. apply to_standby_wp; [exact HI1|intros F; apply R1; left; exact F|exact LS1| |intros e m2 HI2 P; apply post_pin; assumption].
    intros d2 m2 HI2 D2 C2 L2 F2.
    apply seq_stby with (E := plain_err) (want := it_sync x K KO); [apply (ok_sync x K KO)|exact HI2|exact D2|exact C2|]. intros [] m3 HI3 C3 L3 V3.
    cbn [set_syncw act1 wp]. apply post_ok. destruct HI3 as [O3 [A3 [B3 [P3 N3]]]]. split; [exact O3|].
    rewrite dmode_set_other by discriminate. split; [exact A3|]. rewrite cold_other by (unfold COLD; discriminate). split; [exact B3|]. split; [exact P3|exact N3].
  Qed.

  (* ---- prepare_for_cad / cad *)
  Theorem prepare_for_cad_keeps md d m : Inv d m -> wp x (prepare_for_cad K md) (post d) d m.
  Proof.
    intros HI. unfold prepare_for_cad. apply wp_bind. apply prepare_modem_wp; [exact HI| |].
    2:{ intros e d1 m1 HI1 [P|[D1 [C1 _]]] _; [apply post_pin; assumption|apply post_stby; assumption]. }
    intros d1 m1 HI1 D1 C1 K1.
    apply seq_stby with (E := plain_err) (want := it_mod x K KO); [apply (ok_mod x K KO)|exact HI1|exact D1|exact C1|]. intros [] m2 HI2 C2 L2 V2.
    apply seq_stby with (E := plain_err) (want := it_chan x K KO); [apply (ok_chan x K KO)|exact HI2|exact D1|exact C2|]. intros [] m3 HI3 C3 L3 V3.
    apply wp_set_mode.
    assert (HI4 : Inv (set_nth_list d1 0 (enc_mode MCad)) m3).
    { destruct HI3 as [O3 [A3 [B3 [P3 N3]]]]. split; [exact O3|]. rewrite dmode_set_mode. split; [rewrite C3; exact I|].
      rewrite cold_other by (unfold COLD; discriminate). split; [exact B3|]. split; [|exact N3].
      cbn [prepared]. apply (cover_cad x K KO); [|rewrite D1 in P3; exact P3]. specialize (B3 K1). unfold it_base in B3.
      apply valid_all_app in B3. destruct B3 as [Bi B3]. apply valid_all_app in B3. destruct B3 as [Bp Bq].
      repeat (apply valid_all_app; split); try assumption.
      apply (valid_all_le m2); [|exact V2]. intros i Hi. apply L3, Hi. }
    apply (ok_irq x K KO); [apply HI4|apply ready_stby, C3|]. intros r m4 L4 _ E4.
    assert (HI5 : Inv (set_nth_list d1 0 (enc_mode MCad)) m4) by (eapply Inv_move; [exact HI4|apply L4|apply L4|left; apply L4]).
    destruct r as [[]|e]; [apply post_ok; exact HI5|apply post_pin; [exact HI5|apply E4; reflexivity]].
  Qed.

  Lemma agree_cad c : agree MCad c -> c = CStby \/ c = CCad.
  Proof.
    destruct c; cbn; intros H; try discriminate H; try contradiction; try (left; reflexivity); try (right; reflexivity).
    - destruct H as [n H]; discriminate H.
    - destruct H as [H|H]; discriminate H.
    - destruct H as [a [b H]]; discriminate H.
  Qed.

  Theorem cad_keeps md d m : (md_sf md < 8)%N -> Inv d m -> wp x (cad K md) (post d) d m.
  Proof.
    intros SF HI. unfold cad. apply wp_get_mode. destruct (dmode d) eqn:D; try (cbn [wp]; apply post_notop; [exact HI|apply not_op_mode]).
    apply wp_bind. apply (ok_cad x K KO); [exact SF|apply HI|apply (ready_of_agree d); [exact HI|right; left; exact D]| |].
    { destruct HI as [_ [_ [_ [P _]]]]. rewrite D in P. exact P. }
    intros r m1 O1 L1 S1 M1 E1.
    assert (HI1 : Inv d m1).
    { destruct HI as [O [A [C [P N]]]]. split; [exact O1|]. split; [rewrite D; destruct M1 as [-> | ->]; [rewrite D in A; exact A|reflexivity]|].
      split; [intros Hc; eapply valid_all_le; [exact L1|apply C, Hc]|]. split; [eapply prepared_le; [exact L1|exact P]|].
      intros F. destruct M1 as [-> | ->]; [apply N, F|discriminate]. }
    destruct r as [[]|e].
    2:{ apply post_pin; [exact HI1|apply E1; reflexivity]. }
    specialize (S1 I). cbn [bind iv act1 wp]. split; [|split].
    - apply post_notop; [apply Inv_time; exact HI1|apply not_op_cancel].
    - apply post_pin; [exact HI1|right; reflexivity].
    - apply wp_bind. apply wp_attempt.
      assert (HIa : Inv d (with_awake m1 true)) by (apply Inv_awake, HI1).
      apply (ok_procirq x K KO); [apply HIa| | |].
      { change (cm (mon_event x m1 (TIv IvIrq))) with (cm m1). rewrite S1. discriminate. }
      { intros _. reflexivity. }
      intros r m2 O2 L2 M2 Dn Pr NC. change (cm (mon_event x m1 (TIv IvIrq))) with (cm m1) in *.
      assert (HI2 : Inv d m2). { eapply Inv_move; [exact HIa|exact O2|exact L2|]. destruct M2 as [M|M]; [left; exact M|right; left; exact M]. }
      unfold attempt_post. destruct r as [[| |c]|e]; try (cbn [wp]; apply post_notop; [exact HI2|apply not_op_panic]).
      + assert (C2 : cm m2 = CStby). { apply (Dn c eq_refl eq_refl). rewrite S1. reflexivity. }
        apply wp_bind. apply (ok_standby x K KO); [exact O2|intros _; apply ready_stby, C2|]. intros r m3 O3 L3 S3 M3 P3.
        assert (HI3 : Inv d m3). { eapply Inv_move; [exact HI2|exact O3|exact L3|]. destruct M3 as [M|M]; [left; exact M|right; left; exact M]. }
        destruct r as [[]|e]; [|apply post_pin; [exact HI3|apply P3; reflexivity]]. specialize (S3 I).
        apply wp_set_mode. cbn [wp]. apply post_ok. apply Inv_standby; [exact O3|exact S3| |apply dmode_set_mode|apply (Inv_lora d m3 HI3); rewrite D; discriminate].
        rewrite cold_other by (unfold COLD; discriminate). apply HI3.
      + destruct e; try (apply recover_wp; exact HI2); (apply post_notop; [exact HI2|]); [apply not_op_panic|apply not_op_cancel].
  Qed.

  (* ---- listen (a carrier-sense reception: the monitor context of this operation has x_listen = true) *)
  Theorem listen_keeps f bw d m : x_listen x = true -> Inv d m -> wp x (listen K f bw) (post d) d m.
  Proof.
    intros LI HI. unfold listen. apply wp_bind. apply prepare_modem_wp; [exact HI| |].
    2:{ intros e d1 m1 HI1 [P|[D1 [C1 _]]] _; [apply post_pin; assumption|apply post_stby; assumption]. }
    intros d1 m1 HI1 D1 C1 K1.
    apply seq_stby with (E := plain_err) (want := it_chan x K KO); [apply (ok_chan x K KO)|exact HI1|exact D1|exact C1|]. intros [] m2 HI2 C2 L2 V2.
    destruct (k_create_mod K 2 bw 0 f) as [md|e]; cbn [of_res bind]; [|apply post_stby; assumption].
    apply seq_stby with (E := plain_err) (want := it_mod x K KO); [apply (ok_mod x K KO)|exact HI2|exact D1|exact C2|]. intros [] m3 HI3 C3 L3 V3.
    apply wp_set_mode.
    assert (HI4 : Inv (set_nth_list d1 0 (enc_mode MListen)) m3).
    { destruct HI3 as [O3 [A3 [B3 [P3 N3]]]]. split; [exact O3|]. rewrite dmode_set_mode. split; [rewrite C3; exact I|].
      rewrite cold_other by (unfold COLD; discriminate). split; [exact B3|]. split; [rewrite D1 in P3; exact P3|exact N3]. }
    apply (ok_rx x K KO); [apply HI4|apply ready_stby, C3| |].
    { apply (cover_listen x K KO); [exact LI| |apply (Inv_lora d1 m3 HI3); rewrite D1; discriminate]. destruct HI3 as [_ [_ [B3 _]]]. specialize (B3 K1). unfold it_base in B3.
      apply valid_all_app in B3. destruct B3 as [Bi _]. repeat (apply valid_all_app; split); try assumption.
      apply (valid_all_le m2); [|exact V2]. intros i Hi. apply L3, Hi. }
    intros r m4 O4 L4 S4 M4 N4 P4.
    assert (HI5 : Inv (set_nth_list d1 0 (enc_mode MListen)) m4).
    { destruct HI4 as [O [A [C [P N]]]]. split; [exact O4|]. rewrite dmode_set_mode in *. split; [destruct M4 as [-> | ->]; [exact A|right; reflexivity]|].
      split; [intros Hc; eapply valid_all_le; [exact L4|apply C, Hc]|]. split; [exact (lora_sel_le _ _ L4 P)|]. intros F E. apply (N F). apply (N4 F E). }
    destruct r as [[]|e]; [apply post_ok; exact HI5|]. destruct (P4 e eq_refl) as [P|[P|[_ [_ [_ Du]]]]]; try (apply post_pin; [exact HI5|tauto]). discriminate Du.
  Qed.

  (* ---- the LoRaWAN adapter (LorawanRadio): its operations are sequences of the above; the invariant is kept *)
  Definition keeps {A} : A + rerr -> drv -> mon -> Prop := fun _ d' m' => Inv d' m'.
  Theorem lw_tx_keeps fuel sf bw cr f pw buffer d m : x_listen x = false -> Inv d m -> wp x (lw_tx K fuel sf bw cr f pw buffer) keeps d m.
  Proof.
    intros NL HI. unfold lw_tx. destruct (k_create_mod K sf bw cr f) as [md|e]; cbn [of_res bind wp]; [|exact HI].
    destruct (k_create_pkt K 8 false 0 true false md) as [pk|e]; cbn [of_res bind wp]; [|exact HI].
    apply wp_bind. eapply wp_mono; [|apply prepare_for_tx_keeps; exact HI]. intros r d1 m1 [HI1 _]. destruct r as [[]|e]; [|exact HI1].
    eapply wp_mono; [|apply tx_keeps; [exact NL|exact HI1]]. intros r d2 m2 [HI2 _]. exact HI2.
  Qed.
  Theorem lw_setup_rx_keeps sf bw cr f ms d m : Inv d m -> wp x (lw_setup_rx K sf bw cr f ms) keeps d m.
  Proof.
    intros HI. unfold lw_setup_rx. destruct (k_create_mod K sf bw cr f) as [md|e]; cbn [of_res bind wp]; [|exact HI].
    destruct (k_create_pkt K 8 false 255 true true md) as [pk|e]; cbn [of_res bind wp]; [|exact HI].
    assert (G : forall rm, wp x (prepare_for_rx K rm md pk ;;; Ret pk) keeps d m).
    { intros rm. apply wp_bind. eapply wp_mono; [|apply prepare_for_rx_keeps; exact HI]. intros r d1 m1 [HI1 _]. destruct r as [[]|e]; exact HI1. }
    destruct ms as [v|]; cbn [bind]; [|apply G]. destruct (adapter_symbols sf bw v); cbn [bind wp]; [apply G|exact HI].
  Qed.
  Theorem lw_low_power_keeps d m : Inv d m -> wp x (lw_low_power K) keeps d m.
  Proof. intros HI. unfold lw_low_power. eapply wp_mono; [|apply sleep_keeps; exact HI]. intros r d1 m1 [HI1 _]. exact HI1. Qed.
End Inv.
