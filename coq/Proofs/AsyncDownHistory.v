(* Proofs/AsyncDownHistory.v -- C05 along whole async_device histories: within a session, over EVERY sequence of send / rxc_listen calls
   against any radio script (timeouts, errors, any received byte strings in RX1 / RX2 / Class C reception, pending receptions) with a fault at
   any radio call, the counters the API reports as DownlinkReceived are strictly increasing and above the last one accepted before. *)
From Coq Require Import NArith ZArith List Bool Lia.
From LoraV Require Import Base.Bytes Model.Frame Model.Region Model.Mac Model.NbDev Model.AsyncDev Proofs.FcntProofs Proofs.SessionProofs
  Proofs.AsyncProofs Proofs.DownHistory.
Import ListNotations.
Local Open Scope N_scope.

Definition dle (a b : option N) : Prop := match a, b with None, _ => True | Some x, Some y => x <= y | Some _, None => False end.
Lemma dle_refl a : dle a a. Proof. destruct a; cbn; [lia|exact I]. Qed.
Lemma dle_trans a b c : dle a b -> dle b c -> dle a c.
Proof. destruct a, b, c; cbn; try tauto; lia. Qed.
Lemma dle_lt a b n : dle a b -> down_lt b n -> down_lt a n.
Proof. destruct a, b; cbn; try tauto; lia. Qed.
Lemma lt_dle a n : down_lt a n -> dle a (Some n).
Proof. destruct a; cbn; [lia|tauto]. Qed.

Lemma inc_from_dle a b l : dle a b -> inc_from b l -> inc_from a l.
Proof.
  destruct l as [|x t]; [intros; exact I|]. cbn [inc_from]. intros H [A B]. split; [|exact B]. exact (dle_lt _ _ _ H A).
Qed.

Definition script_ok (e : env) : Prop := Forall (fun ev => match ev with SvX f => bytes_ok (firstn 256 f) = true | _ => True end) (e_script e).

Section ADown.
  Variable enc mac_fn : list N -> list N -> list N.
  Variable s : session.

  Definition JD (a : option N) (d : adev) : Prop := J s a (ad_mac d).

  Lemma so_call e w e1 ok : call e w = (e1, ok) -> script_ok e -> script_ok e1.
  Proof. unfold call, tr, script_ok. destruct (faulty e); intros H; injection H as <- _; cbn [e_script]; auto. Qed.
  Lemma so_tr e t : script_ok e -> script_ok (tr e t).
  Proof. unfold tr, script_ok. cbn [e_script]. auto. Qed.
  Lemma so_pop e ev e1 : pop e = (ev, e1) -> script_ok e -> script_ok e1 /\ (forall f, ev = Some (SvX f) -> bytes_ok (firstn 256 f) = true).
  Proof.
    unfold pop, script_ok. destruct (e_script e) as [|x r] eqn:Es; intros H; injection H as <- <-.
    - rewrite Es. split; [auto|discriminate].
    - cbn [e_script]. intros Hn. inversion Hn as [|y l H1 H2]; subst. split; [exact H2|]. intros f Hx. injection Hx as ->. exact H1.
  Qed.
  Lemma so_wc d e e1 w : window_complete d e = (e1, w) -> script_ok e -> script_ok e1.
  Proof.
    unfold window_complete. intros H Hn. destruct (ad_classc d).
    - destruct (rxc_config (ad_mac d)) as [rf| |]; try (injection H as <- _; exact Hn).
      destruct (call e (ASetupRx rf None)) as [e2 ok] eqn:Ec. injection H as <- _. exact (so_call _ _ _ _ Ec Hn).
    - destruct (call e ALowPower) as [e2 ok] eqn:Ec. injection H as <- _. exact (so_call _ _ _ _ Ec Hn).
  Qed.

  (* one frame handed to the MAC of a device in session *)
  Lemma hrx_JD a d bytes maxp cc o : JD a d -> bytes_ok bytes = true ->
    mac_handle_rx enc mac_fn (ad_mac d) bytes 5 maxp cc = Val (Some o) ->
    (JD a (with_mac d (mo_mac o)) /\ forall n, mo_resp o <> RDownlinkReceived n) \/
    (exists n, JD (Some n) (with_mac d (mo_mac o)) /\ down_lt a n /\ forall n', mo_resp o = RDownlinkReceived n' -> n' = n).
  Proof.
    intros [s1 [E1 [K1 [F1 D1]]]] B H. unfold mac_handle_rx in H. rewrite E1 in H.
    destruct (handle_rx_session enc mac_fn s1 (m_cfg (ad_mac d)) (m_region (ad_mac d)) bytes maxp 5 cc) as [ro| |] eqn:HR; try discriminate H.
    injection H as <-. cbn [mo_mac mo_resp]. destruct (hrx_down _ _ _ _ _ _ _ _ _ _ F1 B HR) as [KK [FF [[DD NR]|[n [DD [LT RN]]]]]].
    - left. split; [|exact NR]. exists (ro_session ro). cbn [with_mac ad_mac m_state]. split; [reflexivity|]. split; [eapply keys_eq_trans; eassumption|]. split; [exact FF|congruence].
    - right. exists n. rewrite D1 in LT. split; [|split; [exact LT|exact RN]].
      exists (ro_session ro). cbn [with_mac ad_mac m_state]. split; [reflexivity|]. split; [eapply keys_eq_trans; eassumption|]. split; [exact FF|exact DD].
  Qed.
  Lemma rx2_JD a d : JD a d -> JD a (with_mac d (fst (mac_rx2_complete (ad_mac d)))) /\ forall n, snd (mac_rx2_complete (ad_mac d)) <> RDownlinkReceived n.
  Proof.
    intros [s1 [E1 [K1 [F1 D1]]]]. unfold mac_rx2_complete. rewrite E1. pose proof (rx2_down s1 (m_cfg (ad_mac d)) (rg_id (m_region (ad_mac d)))) as R.
    destruct (rx2_complete_session s1 (m_cfg (ad_mac d)) (rg_id (m_region (ad_mac d)))) as [[s2 cf2] resp]. destruct R as [KK [DD NR]]. cbn [fst snd].
    split; [|exact NR]. exists s2. cbn [with_mac ad_mac m_state]. split; [reflexivity|]. split; [eapply keys_eq_trans; eassumption|]. split; [unfold fcnt_ok in *; rewrite DD; exact F1|congruence].
  Qed.

  (* a receive window: the device stays in session with a counter that did not move backwards; a reported downlink carries the new counter *)
  Lemma rx_listen_D a d e rf d' e' res : rx_listen enc mac_fn d e rf = (d', e', res) -> JD a d -> script_ok e ->
    script_ok e' /\ exists a', JD a' d' /\ dle a a' /\ forall n, res = AOk (Some (RDownlinkReceived n)) -> a' = Some n /\ down_lt a n.
  Proof.
    unfold rx_listen. intros H HJ SO. destruct (call e ARxSingle) as [e1 ok] eqn:Ec. pose proof (so_call _ _ _ _ Ec SO) as S1.
    assert (SAME : forall e0 r0, script_ok e0 -> (forall n, r0 <> AOk (Some (RDownlinkReceived n))) ->
              script_ok e0 /\ exists a', JD a' d /\ dle a a' /\ forall n, r0 = AOk (Some (RDownlinkReceived n)) -> a' = Some n /\ down_lt a n).
    { intros e0 r0 S0 NR. split; [exact S0|]. exists a. split; [exact HJ|]. split; [apply dle_refl|]. intros n X. exfalso. exact (NR n X). }
    destruct ok; cbn [negb] in H; [|injection H as <- <- <-; apply SAME; [exact S1|discriminate]].
    destruct (pop e1) as [ev e2] eqn:Ep. destruct (so_pop _ _ _ Ep S1) as [S2 BF].
    assert (DFLT : forall (x : adev * env * ares (option response)),
               x = (let '(e3, w) := window_complete d e2 in
                    (d, e3, match w with AOk _ => AOk None | AErr x => AErr x | APanic => APanic | AHang => AHang | AParked => AParked end)) ->
               x = (d', e', res) ->
               script_ok e' /\ exists a', JD a' d' /\ dle a a' /\ forall n, res = AOk (Some (RDownlinkReceived n)) -> a' = Some n /\ down_lt a n).
    { intros x -> HH. destruct (window_complete d e2) as [e3 w] eqn:Ew. injection HH as <- <- <-.
      apply SAME; [exact (so_wc _ _ _ _ Ew S2)|]. intros n. destruct w; discriminate. }
    destruct ev as [[| |f|]|]; try exact (DFLT _ eq_refl H).
    - injection H as <- <- <-. apply SAME; [apply so_tr; exact S2|discriminate].
    - destruct (mac_handle_rx enc mac_fn (ad_mac d) (firstn 256 f) 5 (rf_max_payload rf) false) as [[o|]| |] eqn:E;
        try (injection H as <- <- <-; apply SAME; [exact S2|discriminate]).
      destruct (window_complete (with_mac d (mo_mac o)) e2) as [e3 w] eqn:Ew. pose proof (so_wc _ _ _ _ Ew S2) as S3.
      injection H as <- <- <-. split; [exact S3|].
      destruct (hrx_JD a d _ _ _ _ HJ (BF f eq_refl) E) as [[J1 NR]|[n [J1 [LT RN]]]].
      + exists a. split; [exact J1|]. split; [apply dle_refl|]. intros n X. exfalso. destruct w; try discriminate X. injection X as X. unfold hmr in X.
        destruct (mo_resp o) eqn:ER; try discriminate X. injection X as <-. exact (NR fcnt eq_refl).
      + exists (Some n). split; [exact J1|]. split; [apply lt_dle; exact LT|]. intros n' X. destruct w; try discriminate X. injection X as X. unfold hmr in X.
        destruct (mo_resp o) eqn:ER; try discriminate X. injection X as <-. rewrite (RN fcnt eq_refl). split; [reflexivity|exact LT].
  Qed.

  Lemma rxc_until_D rf duration : forall fuel a d e resp d' e' res, rxc_until enc mac_fn fuel d e rf duration resp = (d', e', res) -> JD a d -> script_ok e ->
    script_ok e' /\ exists a', JD a' d' /\ dle a a'.
  Proof.
    induction fuel as [|k IH]; intros a d e resp d' e' res H HJ SO; cbn [rxc_until] in H;
      [injection H as <- <- _; split; [exact SO|exists a; split; [exact HJ|apply dle_refl]]|].
    destruct (pop e) as [ev e1] eqn:Ep. destruct (so_pop _ _ _ Ep SO) as [S1 BF].
    assert (SAME : forall e0, script_ok e0 -> script_ok e0 /\ exists a', JD a' d /\ dle a a') by (intros e0 S0; split; [exact S0|exists a; split; [exact HJ|apply dle_refl]]).
    destruct ev as [[| |f|]|]; try (injection H as <- <- _; apply SAME; apply so_tr, so_tr; exact S1).
    - destruct (call e1 ARxCont) as [e2 ok] eqn:Ec. pose proof (so_call _ _ _ _ Ec S1) as S2.
      injection H as <- <- _. apply SAME. apply so_tr. destruct ok; [apply so_tr; exact S2|exact S2].
    - destruct (call e1 ARxCont) as [e2 ok] eqn:Ec. pose proof (so_call _ _ _ _ Ec S1) as S2.
      destruct ok; cbn [negb] in H; [|injection H as <- <- _; apply SAME; apply so_tr; exact S2].
      destruct (mac_handle_rx enc mac_fn (ad_mac d) (firstn 256 f) 5 (rf_max_payload rf) true) as [[o|]| |] eqn:E;
        try (injection H as <- <- _; apply SAME; exact S2).
      destruct (hrx_JD a d _ _ _ _ HJ (BF f eq_refl) E) as [[J1 NR]|[n [J1 [LT RN]]]].
      + exact (IH _ _ _ _ _ _ _ H J1 S2).
      + destruct (IH _ _ _ _ _ _ _ H J1 S2) as [S3 [a' [J' L']]]. split; [exact S3|]. exists a'. split; [exact J'|]. eapply dle_trans; [apply lt_dle; exact LT|exact L'].
  Qed.

  Lemma between_D a d e duration d' e' res : between_windows enc mac_fn d e duration = (d', e', res) -> JD a d -> script_ok e ->
    script_ok e' /\ exists a', JD a' d' /\ dle a a'.
  Proof.
    unfold between_windows. intros H HJ SO.
    assert (SAME : forall e0, script_ok e0 -> script_ok e0 /\ exists a', JD a' d /\ dle a a') by (intros e0 S0; split; [exact S0|exists a; split; [exact HJ|apply dle_refl]]).
    destruct (ad_classc d).
    - destruct (rxc_config (ad_mac d)) as [rf| |]; try (injection H as <- <- _; apply SAME; exact SO).
      destruct (call e (ASetupRx rf None)) as [e1 ok] eqn:Ec. pose proof (so_call _ _ _ _ Ec SO) as S1.
      destruct ok; cbn [negb] in H; [|injection H as <- <- _; apply SAME; exact S1]. exact (rxc_until_D _ _ _ _ _ _ _ _ _ _ H HJ S1).
    - destruct (call e ALowPower) as [e1 ok] eqn:Ec. pose proof (so_call _ _ _ _ Ec SO) as S1.
      destruct ok; cbn [negb] in H; injection H as <- <- _; apply SAME; [apply so_tr; exact S1|exact S1].
  Qed.

  Definition reports (res : ares response) (n : N) : Prop := res = AOk (RDownlinkReceived n).

  Lemma rx_downlink_D a d e join wd rx1 rx2 d' e' res : rx_downlink enc mac_fn d e join wd rx1 rx2 = (d', e', res) -> JD a d -> script_ok e ->
    script_ok e' /\ exists a', JD a' d' /\ dle a a' /\ forall n, reports res n -> a' = Some n /\ down_lt a n.
  Proof.
    unfold rx_downlink, reports. intros H HJ SO.
    assert (OUT : forall a0 d0 e0 (r0 : ares response), JD a0 d0 -> dle a a0 -> script_ok e0 -> (forall n, r0 <> AOk (RDownlinkReceived n)) ->
              script_ok e0 /\ exists a', JD a' d0 /\ dle a a' /\ forall n, r0 = AOk (RDownlinkReceived n) -> a' = Some n /\ down_lt a n).
    { intros a0 d0 e0 r0 J0 L0 S0 NR. split; [exact S0|]. exists a0. split; [exact J0|]. split; [exact L0|]. intros n X. exfalso. exact (NR n X). }
    destruct (_ <? ad_lead d); [injection H as <- <- <-; apply (OUT a); [exact HJ|apply dle_refl|exact SO|discriminate]|].
    destruct (between_windows enc mac_fn d e _) as [[d1 e1] b1] eqn:B1. destruct (between_D _ _ _ _ _ _ _ B1 HJ SO) as [S1 [a1 [J1 L1]]].
    destruct b1 as [x1| | | |]; try (injection H as <- <- <-; apply (OUT a1); [exact J1|exact L1|exact S1|discriminate]).
    destruct (call e1 (ASetupRx rx1 (Some (ad_lead d)))) as [e2 ok] eqn:Ec. pose proof (so_call _ _ _ _ Ec S1) as S2.
    destruct ok; cbn [negb] in H; [|injection H as <- <- <-; apply (OUT a1); [exact J1|exact L1|exact S2|discriminate]].
    destruct (rx_listen enc mac_fn d1 e2 rx1) as [[d2 e3] l1] eqn:LL1. destruct (rx_listen_D _ _ _ _ _ _ _ LL1 J1 S2) as [S3 [a2 [J2 [L2 R2]]]].
    pose proof (dle_trans _ _ _ L1 L2) as L12.
    destruct l1 as [[r|]| | | |]; try (injection H as <- <- <-; apply (OUT a2); [exact J2|exact L12|exact S3|discriminate]).
    { injection H as <- <- <-. split; [exact S3|]. exists a2. split; [exact J2|]. split; [exact L12|]. intros n X. injection X as ->.
      destruct (R2 n eq_refl) as [E2 LT2]. split; [exact E2|exact (dle_lt _ _ _ L1 LT2)]. }
    destruct (_ <? ad_lead d); [injection H as <- <- <-; apply (OUT a2); [exact J2|exact L12|exact S3|discriminate]|].
    destruct (between_windows enc mac_fn d2 e3 _) as [[d3 e4] b2] eqn:B2. destruct (between_D _ _ _ _ _ _ _ B2 J2 S3) as [S4 [a3 [J3 L3]]].
    pose proof (dle_trans _ _ _ L12 L3) as L13.
    destruct b2 as [x2| | | |]; try (injection H as <- <- <-; apply (OUT a3); [exact J3|exact L13|exact S4|discriminate]).
    destruct (call e4 (ASetupRx rx2 (Some (ad_lead d)))) as [e5 ok2] eqn:Ec2. pose proof (so_call _ _ _ _ Ec2 S4) as S5.
    destruct ok2; cbn [negb] in H; [|injection H as <- <- <-; apply (OUT a3); [exact J3|exact L13|exact S5|discriminate]].
    destruct (rx_listen enc mac_fn d3 e5 rx2) as [[d4 e6] l2] eqn:LL2. destruct (rx_listen_D _ _ _ _ _ _ _ LL2 J3 S5) as [S6 [a4 [J4 [L4 R4]]]].
    pose proof (dle_trans _ _ _ L13 L4) as L14.
    destruct l2 as [[r|]| | | |]; try (injection H as <- <- <-; apply (OUT a4); [exact J4|exact L14|exact S6|discriminate]).
    { injection H as <- <- <-. split; [exact S6|]. exists a4. split; [exact J4|]. split; [exact L14|]. intros n X. injection X as ->.
      destruct (R4 n eq_refl) as [E4 LT4]. split; [exact E4|exact (dle_lt _ _ _ L13 LT4)]. }
    destruct (rx2_JD a4 d4 J4) as [J5 NR]. destruct (mac_rx2_complete (ad_mac d4)) as [m' r]. cbn [fst snd] in J5, NR.
    injection H as <- <- <-. apply (OUT a4); [exact J5|exact L14|exact S6|]. intros n X. injection X as ->. exact (NR n eq_refl).
  Qed.

  Theorem adev_send_D a d e data fport confirmed draws d' e' res : adev_send enc mac_fn d e data fport confirmed draws = (d', e', res) -> JD a d -> script_ok e ->
    script_ok e' /\ exists a', JD a' d' /\ dle a a' /\ forall n, reports res n -> a' = Some n /\ down_lt a n.
  Proof.
    unfold adev_send, reports. intros H HJ SO. pose proof HJ as [s1 [E1 [K1 [F1 D1]]]].
    assert (OUT : forall a0 d0 e0 (r0 : ares response), JD a0 d0 -> dle a a0 -> script_ok e0 -> (forall n, r0 <> AOk (RDownlinkReceived n)) ->
              script_ok e0 /\ exists a', JD a' d0 /\ dle a a' /\ forall n, r0 = AOk (RDownlinkReceived n) -> a' = Some n /\ down_lt a n).
    { intros a0 d0 e0 r0 J0 L0 S0 NR. split; [exact S0|]. exists a0. split; [exact J0|]. split; [exact L0|]. intros n X. exfalso. exact (NR n X). }
    destruct (send enc mac_fn (ad_mac d) data fport confirmed draws) as [[o|]| |] eqn:SD; try (injection H as <- <- <-; apply (OUT a); [exact HJ|apply dle_refl|exact SO|discriminate]).
    destruct (send_down enc mac_fn _ _ _ _ _ _ _ SD E1) as [s0 [E0 [K0 D0]]].
    assert (J0 : JD a (with_mac d (to_mac o))).
    { exists s0. cbn [with_mac ad_mac]. split; [exact E0|]. split; [eapply keys_eq_trans; eassumption|]. split; [unfold fcnt_ok in *; rewrite D0; exact F1|congruence]. }
    destruct (call e (ATx (to_tx o) (to_frame o))) as [e1 ok] eqn:Ec. pose proof (so_call _ _ _ _ Ec SO) as S1.
    set (rd := if negb ok then (with_mac d (to_mac o), e1, AErr ERadioErr)
               else rx_downlink enc mac_fn (with_mac d (to_mac o)) (tr e1 ATimerReset) false 100 (to_rx1 o) (to_rx2 o)) in H.
    assert (GR : script_ok (snd (fst rd)) /\ exists a', JD a' (fst (fst rd)) /\ dle a a' /\ forall n, snd rd = AOk (RDownlinkReceived n) -> a' = Some n /\ down_lt a n).
    { subst rd. destruct ok; cbn [negb].
      - destruct (rx_downlink _ _ _ _ _ _ _ _) as [[d1 e2] r] eqn:RD. cbn [fst snd].
        exact (rx_downlink_D a _ _ _ _ _ _ _ _ _ RD J0 (so_tr _ _ S1)).
      - cbn [fst snd]. apply (OUT a); [exact J0|apply dle_refl|exact S1|discriminate]. }
    destruct rd as [[d1 e2] r]. cbn [fst snd] in GR. destruct GR as [S2 [a1 [J1 [L1 R1]]]].
    destruct r as [resp|x| | |]; try (injection H as <- <- <-; apply (OUT a1); [exact J1|exact L1|exact S2|discriminate]).
    - destruct resp; injection H as <- <- <-; try (apply (OUT a1); [exact J1|exact L1|exact S2|discriminate]).
      split; [exact S2|]. exists a1. split; [exact J1|]. split; [exact L1|]. intros n X. exact (R1 n X).
    - destruct (match fcnt_up_of (ad_mac d1), fcnt_up_of (to_mac o) with Some x0, Some y0 => x0 =? y0 | None, None => true | _, _ => false end);
        [|injection H as <- <- <-; apply (OUT a1); [exact J1|exact L1|exact S2|discriminate]].
      destruct (rx2_JD a1 d1 J1) as [J2 NR]. destruct (mac_rx2_complete (ad_mac d1)) as [m' r2]. cbn [fst snd] in J2, NR.
      destruct r2; injection H as <- <- <-; apply (OUT a1); try exact J2; try exact L1; try exact S2; discriminate.
  Qed.

  Lemma rxc_listen_loop_D rf : forall fuel a d e d' e' res, rxc_listen_loop enc mac_fn fuel d e rf = (d', e', res) -> JD a d -> script_ok e ->
    script_ok e' /\ exists a', JD a' d' /\ dle a a' /\ forall n, reports res n -> a' = Some n /\ down_lt a n.
  Proof.
    unfold reports. induction fuel as [|k IH]; intros a d e d' e' res H HJ SO; cbn [rxc_listen_loop] in H.
    { injection H as <- <- <-. split; [exact SO|]. exists a. split; [exact HJ|]. split; [apply dle_refl|discriminate]. }
    assert (SAME : forall e0 (r0 : ares response), script_ok e0 -> (forall n, r0 <> AOk (RDownlinkReceived n)) ->
              script_ok e0 /\ exists a', JD a' d /\ dle a a' /\ forall n, r0 = AOk (RDownlinkReceived n) -> a' = Some n /\ down_lt a n).
    { intros e0 r0 S0 NR. split; [exact S0|]. exists a. split; [exact HJ|]. split; [apply dle_refl|]. intros n X. exfalso. exact (NR n X). }
    destruct (pop e) as [ev e1] eqn:Ep. destruct (so_pop _ _ _ Ep SO) as [S1 BF].
    destruct ev as [[| |f|]|]; try (injection H as <- <- <-; apply SAME; [apply so_tr; exact S1|discriminate]).
    - destruct (call e1 ARxCont) as [e2 ok] eqn:Ec. pose proof (so_call _ _ _ _ Ec S1) as S2.
      injection H as <- <- <-. apply SAME; [destruct ok; [apply so_tr; exact S2|exact S2]|discriminate].
    - destruct (call e1 ARxCont) as [e2 ok] eqn:Ec. pose proof (so_call _ _ _ _ Ec S1) as S2.
      destruct ok; cbn [negb] in H; [|injection H as <- <- <-; apply SAME; [exact S2|discriminate]].
      destruct (mac_handle_rx enc mac_fn (ad_mac d) (firstn 256 f) 5 (rf_max_payload rf) true) as [[o|]| |] eqn:E;
        try (injection H as <- <- <-; apply SAME; [exact S2|discriminate]).
      destruct (hrx_JD a d _ _ _ _ HJ (BF f eq_refl) E) as [[J1 NR]|[n [J1 [LT RN]]]].
      + unfold hmr in H. destruct (mo_resp o) eqn:ER; try (injection H as <- <- <-; split; [exact S2|]; exists a; split; [exact J1|]; split; [apply dle_refl|discriminate]).
        * exfalso. exact (NR fcnt eq_refl).
        * exact (IH _ _ _ _ _ _ H J1 S2).
      + unfold hmr in H. destruct (mo_resp o) eqn:ER;
          try (injection H as <- <- <-; split; [exact S2|]; exists (Some n); split; [exact J1|]; split; [apply lt_dle; exact LT|discriminate]).
        * injection H as <- <- <-. split; [exact S2|]. exists (Some n). split; [exact J1|]. split; [apply lt_dle; exact LT|].
          intros n' X. injection X as <-. rewrite (RN fcnt eq_refl). split; [reflexivity|exact LT].
        * destruct (IH _ _ _ _ _ _ H J1 S2) as [S3 [a' [J' [L' R']]]]. split; [exact S3|]. exists a'. split; [exact J'|].
          split; [eapply dle_trans; [apply lt_dle; exact LT|exact L']|]. intros n' X. destruct (R' n' X) as [EE LL]. split; [exact EE|].
          cbn in LL. destruct a as [l0|]; cbn in *; [lia|exact I].
  Qed.

  Theorem adev_listen_D a d e d' e' res : adev_listen enc mac_fn d e = (d', e', res) -> JD a d -> script_ok e ->
    script_ok e' /\ exists a', JD a' d' /\ dle a a' /\ forall n, reports res n -> a' = Some n /\ down_lt a n.
  Proof.
    unfold adev_listen. intros H HJ SO. destruct (rxc_config (ad_mac d)) as [rf| |].
    - exact (rxc_listen_loop_D _ _ _ _ _ _ _ _ H HJ SO).
    - injection H as <- <- <-. split; [exact SO|]. exists a. split; [exact HJ|]. split; [apply dle_refl|discriminate].
    - injection H as <- <- <-. split; [exact SO|]. exists a. split; [exact HJ|]. split; [apply dle_refl|discriminate].
  Qed.

  (* sequences of send / rxc_listen calls, each against any well-formed continuation of the radio script; the results of the calls *)
  Inductive dop := DSend (data : list N) (fport : N) (confirmed : bool) (draws : list N) | DListen | DScript (sc : list sev).
  Definition dop_ok (o : dop) : Prop :=
    match o with DScript sc => Forall (fun ev => match ev with SvX f => bytes_ok (firstn 256 f) = true | _ => True end) sc | _ => True end.
  Fixpoint arun_res (d : adev) (e : env) (ops : list dop) : list (ares response) :=
    match ops with
    | [] => []
    | DSend data fport confirmed draws :: rest => let '(d', e', r) := adev_send enc mac_fn d e data fport confirmed draws in r :: arun_res d' e' rest
    | DListen :: rest => let '(d', e', r) := adev_listen enc mac_fn d e in r :: arun_res d' e' rest
    | DScript sc :: rest => arun_res d {| e_script := sc; e_calls := e_calls e; e_fault := e_fault e; e_trace := e_trace e |} rest
    end.
  Definition adowns (rs : list (ares response)) : list N := flat_map (fun r => match r with AOk (RDownlinkReceived n) => [n] | _ => [] end) rs.

  Theorem async_downlinks_strictly_increase : forall ops a d e, JD a d -> script_ok e -> Forall dop_ok ops ->
    inc_from a (adowns (arun_res d e ops)).
  Proof.
    induction ops as [|o rest IH]; intros a d e HJ SO G; cbn [arun_res]; [exact I|].
    inversion G as [|x l G1 G2]; subst.
    assert (STEP : forall d1 e1 (r1 : ares response), script_ok e1 -> (exists a', JD a' d1 /\ dle a a' /\ forall n, reports r1 n -> a' = Some n /\ down_lt a n) ->
              inc_from a (adowns (r1 :: arun_res d1 e1 rest))).
    { intros d1 e1 r1 S1 [a1 [J1 [L1 R1]]]. unfold adowns. cbn [flat_map].
      destruct r1 as [resp|x| | |]; try (cbn [app]; apply (inc_from_dle a a1); [exact L1|exact (IH a1 d1 e1 J1 S1 G2)]).
      destruct resp as [| |f0| | | |]; try (cbn [app]; apply (inc_from_dle a a1); [exact L1|exact (IH a1 d1 e1 J1 S1 G2)]).
      destruct (R1 f0 eq_refl) as [-> LT]. cbn [app inc_from]. split; [exact LT|exact (IH (Some f0) d1 e1 J1 S1 G2)]. }
    destruct o as [data fport confirmed draws| |sc].
    - destruct (adev_send enc mac_fn d e data fport confirmed draws) as [[d1 e1] r1] eqn:H. destruct (adev_send_D _ _ _ _ _ _ _ _ _ _ H HJ SO) as [S1 X]. exact (STEP _ _ _ S1 X).
    - destruct (adev_listen enc mac_fn d e) as [[d1 e1] r1] eqn:H. destruct (adev_listen_D _ _ _ _ _ _ H HJ SO) as [S1 X]. exact (STEP _ _ _ S1 X).
    - apply IH; [exact HJ|exact G1|exact G2].
  Qed.
End ADown.
