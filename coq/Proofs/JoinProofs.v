(* Proofs/JoinProofs.v -- JoinAccept: decrypt/verify round trip, field accessors, session-key derivation. *)
From Coq Require Import NArith List Bool Lia Arith ZArith ZifyBool ZifyNat ZifyN.
From LoraV Require Import Base.Bytes Crypto.AES Model.Frame Spec.L2Frame Proofs.BytesProofs Proofs.FrameProofs.
Import ListNotations.
Ltac Zify.zify_post_hook ::= Z.to_euclidean_division_equations.
Local Open Scope nat_scope.

Section JoinProofs.
  Variable enc dec : list N -> list N -> list N.
  Variable mac : list N -> list N -> list N.
  Hypothesis dec_len : forall k b, length (dec k b) = 16.
  Hypothesis mac_len : forall k m, length (mac k m) = 16.
  (* AES decryption is inverted by AES encryption: the one functional fact about the cipher used *)
  Hypothesis enc_dec : forall k b, length b = 16 -> enc k (dec k b) = b.

  Lemma firstn16_app (a b : list N) : length a = 16 -> firstn 16 (a ++ b) = a.
  Proof. intros H. rewrite <- H. apply firstn_app_exact. Qed.
  Lemma skipn16_app (a b : list N) : length a = 16 -> skipn 16 (a ++ b) = b.
  Proof. intros H. rewrite <- H. apply skipn_app_exact. Qed.

  Lemma ecb_enc_dec key x : length x = 16 \/ length x = 32 -> ecb (enc key) (ecb (dec key) x) = x.
  Proof.
    intros [H|H].
    - unfold ecb at 2. rewrite H. cbn [Nat.div Nat.divmod fst].
      unfold ecb. rewrite dec_len. cbn [Nat.div Nat.divmod fst].
      rewrite (firstn_all2 (n:=16) (dec key (firstn 16 x))) by (rewrite dec_len; lia).
      rewrite enc_dec by (rewrite firstn_length; lia). apply firstn_all2. lia.
    - unfold ecb at 2. rewrite H. cbn [Nat.div Nat.divmod fst].
      unfold ecb. rewrite app_length, !dec_len. cbn [Nat.div Nat.divmod fst Nat.add].
      rewrite firstn16_app, skipn16_app by apply dec_len.
      rewrite (firstn_all2 (n:=16) (dec key (firstn 16 (skipn 16 x)))) by (rewrite dec_len; lia).
      rewrite !enc_dec by (rewrite firstn_length, ?skipn_length; lia).
      rewrite <- (firstn_skipn 16 x) at 3. f_equal. apply firstn_all2. rewrite skipn_length. lia.
  Qed.

  Definition ja_msg (jn nid da dls rxd : N) (c : option cflist) : list N :=
    [32%N] ++ le_bytes 3 jn ++ le_bytes 3 nid ++ le_bytes 4 da ++ [dls; (rxd mod 16)%N] ++ spec_cflist c.

  Lemma ja_msg_length jn nid da dls rxd c : wf_cflist c ->
    length (ja_msg jn nid da dls rxd c) = match c with None => 13 | Some _ => 29 end.
  Proof.
    intros Hwf. unfold ja_msg. rewrite !app_length, !le_bytes_length. cbn [length].
    destruct c as [[fr|mk]|]; cbn [spec_cflist wf_cflist] in *;
      rewrite ?app_length, ?(flat_map_le3_length), ?Hwf; cbn [length]; lia.
  Qed.

  (* a JoinAccept built per spec decrypts, authenticates and is returned in clear *)
  Theorem ja_roundtrip jn nid da dls rxd c key :
    wf_cflist c ->
    let clear := spec_join_accept_clear mac jn nid da dls rxd c key in
    ja_check_mic_and_decrypt enc mac (spec_join_accept dec mac jn nid da dls rxd c key) key = (Ok tt, clear).
  Proof.
    intros Hwf clear. subst clear.
    unfold spec_join_accept, spec_join_accept_clear. fold (ja_msg jn nid da dls rxd c).
    set (msg := ja_msg jn nid da dls rxd c).
    set (mic4 := firstn 4 (mac key msg)).
    assert (Hm4 : length mic4 = 4) by (subst mic4; apply (mic4_length mac mac_len)).
    pose proof (ja_msg_length jn nid da dls rxd c Hwf) as Hml. fold msg in Hml.
    assert (Hmsg : msg = 32%N :: skipn 1 msg) by reflexivity.
    set (x := skipn 1 (msg ++ mic4)).
    assert (Hx : length x = 16 \/ length x = 32).
    { subst x. rewrite skipn_length, app_length, Hml, Hm4. destruct c; lia. }
    assert (Hclear : msg ++ mic4 = 32%N :: x) by (subst x; rewrite Hmsg at 1; reflexivity).
    unfold ja_check_mic_and_decrypt, ja_decrypt_in_place, validate_join_accept_structure, check_mhdr.
    cbn [app].
    assert (Hel : length (ecb (dec key) x) = length x).
    { destruct Hx as [H|H]; unfold ecb; rewrite H; cbn [Nat.div Nat.divmod fst]; rewrite ?app_length, !dec_len; lia. }
    cbn [length]. rewrite Hel.
    assert (Hlen : (Nat.eqb (S (length x)) 17 || Nat.eqb (S (length x)) 33)%bool = true)
      by (destruct Hx as [H|H]; rewrite H; reflexivity).
    change (N.land 32 3 =? 0)%N with true. change (N.shiftr 32 5 =? 1)%N with true. cbn [negb].
    rewrite Hlen.
    cbn [nthN nth skipn].
    rewrite map_blocks_ecb by (rewrite Hel; exact Hx).
    rewrite ecb_enc_dec by exact Hx.
    change ([32%N] ++ x) with (32%N :: x). rewrite <- Hclear.
    assert (Hv : ja_validate_mic mac (msg ++ mic4) key = true).
    { unfold ja_validate_mic, mic_of, calculate_mic. rewrite app_length, Hm4.
      replace (length msg + 4 - 4) with (length msg) by lia.
      rewrite skipn_app_exact, firstn_app_exact. apply list_eqb_eq. reflexivity. }
    rewrite Hv. reflexivity.
  Qed.

  (* the accessors of the decrypted view return the fields that were encoded *)
  Theorem ja_fields jn nid da dls rxd c key :
    wf_cflist c -> (jn < 2 ^ 24)%N -> (nid < 2 ^ 24)%N -> (da < 2 ^ 32)%N ->
    let clear := spec_join_accept_clear mac jn nid da dls rxd c key in
    ja_join_nonce clear = jn /\ ja_net_id clear = nid /\ ja_dev_addr clear = da /\
    ja_dl_settings clear = dls /\ ja_rx_delay clear = (rxd mod 16)%N.
  Proof.
    intros Hwf Hjn Hnid Hda clear. subst clear. unfold spec_join_accept_clear.
    unfold ja_join_nonce, ja_net_id, ja_dev_addr, ja_dl_settings, ja_rx_delay.
    repeat split.
    - replace (slice _ 1 4) with (le_bytes 3 jn) by reflexivity. now apply le_value_le_bytes.
    - replace (slice _ 4 7) with (le_bytes 3 nid) by reflexivity. now apply le_value_le_bytes.
    - replace (slice _ 7 11) with (le_bytes 4 da) by reflexivity. now apply le_value_le_bytes.
    - replace (nthN _ 12) with (rxd mod 16)%N by reflexivity. rewrite land15_mod. apply N.mod_mod. lia.
  Qed.

  (* session keys are derived per LoRaWAN 1.0.x from (AppKey, JoinNonce, NetID, DevNonce) *)
  Theorem derive_keys_spec jn nid da dls rxd c key first dn :
    let clear := spec_join_accept_clear mac jn nid da dls rxd c key in
    derive_session_key enc clear first dn key = spec_session_key enc first jn nid dn key.
  Proof. reflexivity. Qed.
End JoinProofs.
