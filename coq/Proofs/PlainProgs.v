(* Proofs/PlainProgs.v -- "plain" driver programs: programs all of whose transactions are configuration commands / register
   accesses that neither change the chip's mode nor read the interrupt status.  For them the chip-side monitor moves only forward
   (items become programmed, nothing else changes), and which items are programmed on success can be read off the program.
   A syntactic judgment (plainP) with a soundness theorem for the calculus of PhyHoare.v; the primitives of both drivers are
   shown plain by structural automation in KindProofs.v. *)
From Coq Require Import ZArith NArith List Bool Lia Arith.
From LoraV Require Import Base.Bytes Model.PhyCore Spec.ChipMon Proofs.PhyHoare.
Import ListNotations.
Local Open Scope nat_scope.

Definition okm (m : mon) : Prop := bad_asleep m = false /\ bad_start m = false.
(* the chip accepts commands: not asleep, and not in the sleep phase of a duty-cycled reception *)
Definition ready (m : mon) : Prop := cm m <> CSleep /\ (cm m = CDuty -> awake m = true).
Definition le_valid (m m' : mon) : Prop := forall i, valid m i = true -> valid m' i = true.
(* configuration progress: same mode, nothing un-programmed, no violation *)
Definition prog_le (m m' : mon) : Prop := cm m' = cm m /\ awake m' = awake m /\ le_valid m m' /\ okm m'.

Lemma prog_le_refl m : okm m -> prog_le m m.
Proof. intros H. repeat split; try apply H. intros i Hi; exact Hi. Qed.
Lemma prog_le_trans a b c : prog_le a b -> prog_le b c -> prog_le a c.
Proof.
  intros [A1 [A2 [A3 A4]]] [B1 [B2 [B3 B4]]]. repeat split; try apply B4; try congruence. intros i Hi. apply B3, A3, Hi.
Qed.
Lemma prog_le_ready a b : prog_le a b -> ready a -> ready b.
Proof. intros [A1 [A2 _]] [R1 R2]. split; [congruence|]. rewrite A1, A2. exact R2. Qed.
Lemma item_eqb_refl i : item_eqb i i = true.
Proof. unfold item_eqb. apply Nat.eqb_refl. Qed.
Lemma add_item_le m i : okm m -> prog_le m (add_item m i).
Proof.
  intros H. repeat split; try apply H. intros j Hj. cbn. unfold upd. destruct (item_eqb j i); [reflexivity|exact Hj].
Qed.
Lemma add_item_valid m i : valid (add_item m i) i = true.
Proof. cbn. unfold upd. rewrite item_eqb_refl. reflexivity. Qed.

(* ---- the two families' plain commands *)
Definition plain126 (w : list N) : bool :=
  let op := nthN w 0 in
  negb (existsb (N.eqb op) [0x84; 0x80; 0xC1; 0x83; 0xD1; 0x82; 0x94; 0xC5; 0x8A; 0x12]%N).
Definition item_of126 (w : list N) : option item :=
  let op := nthN w 0 in
  if (op =? 0x0D)%N && Nat.leb 5 (length w) && (nthN w 1 =? 0x07)%N && (nthN w 2 =? 0x40)%N then Some ISync else item126 op.
Definition plain127 (w : list N) : bool :=
  let addr := N.land (nthN w 0) 0x7f in
  let wr := negb (N.land (nthN w 0) 0x80 =? 0)%N in
  if (addr =? 0)%N then true
  else if wr then Nat.eqb (length w) 2 && negb (addr =? 1)%N
  else negb (addr =? 0x12)%N.
Definition item_of127 (w : list N) : option item :=
  let addr := N.land (nthN w 0) 0x7f in
  let wr := negb (N.land (nthN w 0) 0x80 =? 0)%N in
  if (addr =? 0)%N then None else if wr then item127 addr else None.

Lemma spi126_ready x m w r : ready m -> spi126 x m w r = spi126_cmd x m w r.
Proof.
  intros [R1 R2]. unfold spi126.
  assert (D : (cmode_eqb (cm m) CDuty && negb (awake m))%bool = false).
  { destruct (cm m) eqn:E; try reflexivity. cbn. rewrite (R2 eq_refl). reflexivity. }
  rewrite D. cbn [andb]. destruct (cm m); try reflexivity. exfalso; apply R1; reflexivity.
Qed.
(* status reads are answered whenever the chip is not asleep (also between the phases of a duty-cycled reception) *)
Lemma spi126_readonly x m w r : cm m <> CSleep -> readonly126 (nthN w 0) = true -> (nthN w 0 =? 0xC0)%N = false -> spi126 x m w r = spi126_cmd x m w r.
Proof.
  intros R1 RO NC. unfold spi126. rewrite RO, NC. cbn [negb andb]. rewrite !andb_false_r. destruct (cm m); try reflexivity. exfalso; apply R1; reflexivity.
Qed.

Lemma spi126_plain x m w r : ready m -> plain126 w = true ->
  spi126 x m w r = match item_of126 w with Some i => add_item m i | None => m end.
Proof.
  intros R P. rewrite spi126_ready by exact R. unfold plain126 in P. cbn [existsb] in P. rewrite !negb_orb in P.
  repeat match type of P with (_ && _)%bool = true => apply andb_true_iff in P; destruct P as [?P P] end.
  repeat match goal with H : negb (_ =? _)%N = true |- _ => apply negb_true_iff in H end.
  unfold spi126_cmd, item_of126.
  repeat match goal with H : (nthN w 0 =? _)%N = false |- _ => rewrite H; clear H end; cbn [orb andb].
  destruct ((nthN w 0 =? 13)%N && Nat.leb 5 (length w) && (nthN w 1 =? 7)%N && (nthN w 2 =? 64)%N)%bool; reflexivity.
Qed.

Lemma spi127_plain x m w r : ready m -> plain127 w = true ->
  spi127 x m w r = match item_of127 w with Some i => add_item m i | None => m end.
Proof.
  intros [R1 R2] P. unfold plain127 in P. unfold spi127, item_of127.
  destruct (N.land (nthN w 0) 127 =? 0)%N eqn:E0.
  - cbn [andb]. destruct (cmode_eqb (cm m) CSleep) eqn:ES.
    + exfalso. apply R1. destruct (cm m); try discriminate ES. reflexivity.
    + destruct (negb (N.land (nthN w 0) 128 =? 0)%N); cbn [negb]; [reflexivity|].
      replace (N.land (nthN w 0) 127 =? 18)%N with false; [reflexivity|].
      symmetry. apply N.eqb_neq. apply N.eqb_eq in E0. rewrite E0. discriminate.
  - cbn [andb]. destruct (negb (N.land (nthN w 0) 128 =? 0)%N) eqn:EW; cbn [negb].
    + apply andb_true_iff in P. destruct P as [PL P1]. apply negb_true_iff in P1. apply Nat.eqb_eq in PL.
      destruct w as [|a [|v [|? ?]]]; try discriminate PL. cbn [tl wrs127 wr127]. unfold wr127. rewrite P1. reflexivity.
    + apply negb_true_iff in P. rewrite P. reflexivity.
Qed.

Fixpoint seg_w (segs : list seg) : list N := match segs with [] => [] | W b :: r => b ++ seg_w r | R _ :: r => seg_w r end.
Lemma segs_match_written segs ts got : segs_match segs ts got -> seg_written ts = seg_w segs.
Proof. induction 1; cbn; congruence. Qed.

Section Plain.
  Variable x : mctx.
  Definition pc (w : list N) : bool := match x_fam x with K126 => plain126 w | K127 => plain127 w end.
  Definition io (w : list N) : option item := match x_fam x with K126 => item_of126 w | K127 => item_of127 w end.

  Lemma spi_plain m ts : ready m -> seg_written ts <> [] -> pc (seg_written ts) = true ->
    mon_event x m (TSpi ts) = match io (seg_written ts) with Some i => add_item m i | None => m end.
  Proof.
    intros R NE P. cbn [mon_event]. destruct (seg_written ts) as [|a w] eqn:E; [exfalso; apply NE; reflexivity|].
    unfold pc, io in *. destruct (x_fam x); [apply spi126_plain|apply spi127_plain]; assumption.
  Qed.

  (* errors a plain program may end with: anything but the chip-reported timeouts (and never a cancellation) *)
  Definition plain_err (e : rerr) : Prop := e <> ETransmitTimeout /\ e <> EReceiveTimeout /\ e <> ECancelled.

  (* plainP E want have p: every transaction of p is plain; on every path to a successful return the items commanded along the
     path, together with `have`, include `want` *)
  Definition pin_only (e : rerr) : Prop := e = ESpi \/ e = EBusy.
  Inductive plainP {A} (E : rerr -> Prop) (want : list item) : list item -> prog A -> Prop :=
  | PRet have a : incl want have -> plainP E want have (Ret a)
  | PFail have e : E e -> plainP E want have (Fail e)
  | PSpi have segs k h : seg_w segs <> [] -> pc (seg_w segs) = true ->
      (forall r, plainP E want (match io (seg_w segs) with Some i => i :: have | None => have end) (k r)) ->
      plainP E want have (h ESpi) -> plainP E want have (Do (Spi segs) k h)
  | PIv have c k h : c <> IvReset -> c <> IvIrq -> (forall r, plainP E want have (k r)) -> (c = IvBusy -> plainP E want have (h EBusy)) ->
      plainP E want have (Do (Iv c) k h)
  | PDelay have ns k h : (forall r, plainP E want have (k r)) -> plainP E want have (Do (DelayNs ns) k h).

  Lemma plainP_weaken A E want (p : prog A) have : plainP E want have p -> forall have', incl have have' -> plainP E want have' p.
  Proof.
    induction 1 as [have a Hi|have e He|have segs k h NE P Hk IHk Hh IHh|have c k h N1 N2 Hk IHk Hh IHh|have ns k h Hk IHk]; intros have' Hincl.
    - apply PRet. intros i Hi'. apply Hincl, Hi, Hi'.
    - apply PFail. exact He.
    - apply PSpi; try assumption.
      + intros r. apply IHk. destruct (io (seg_w segs)); [|exact Hincl]. intros j [<-|Hj]; [left; reflexivity|right; apply Hincl, Hj].
      + apply IHh. exact Hincl.
    - apply PIv; try assumption; intros; [apply IHk|apply IHh; [assumption|]]; exact Hincl.
    - apply PDelay. intros r. apply IHk. exact Hincl.
  Qed.

  Lemma plainP_bind A B E mid want (p : prog A) (f : A -> prog B) have :
    plainP E mid have p -> (forall a, plainP E want (mid ++ have) (f a)) -> plainP E want have (bind p f).
  Proof.
    intros Hp Hf. induction Hp as [have a Hi|have e He|have segs k h NE P Hk IHk Hh IHh|have c k h N1 N2 Hk IHk Hh IHh|have ns k h Hk IHk]; cbn [bind].
    - eapply plainP_weaken; [apply Hf|]. intros i Hi'. apply in_app_or in Hi'. destruct Hi' as [H1|H1]; [apply Hi, H1|exact H1].
    - apply PFail. exact He.
    - apply PSpi; try assumption.
      + intros r. apply IHk. intros a. eapply plainP_weaken; [apply Hf|]. intros i Hi'. apply in_or_app. apply in_app_or in Hi'.
        destruct Hi' as [H1|H1]; [left; exact H1|right]. destruct (io (seg_w segs)); [right; exact H1|exact H1].
      + apply IHh. exact Hf.
    - apply PIv; try assumption; intros; [apply IHk|apply IHh; [assumption|]]; exact Hf.
    - apply PDelay. intros r. apply IHk. exact Hf.
  Qed.

  Theorem plain_sound A E want (p : prog A) have : plainP E want have p -> forall (Q : A + rerr -> drv -> mon -> Prop) d m,
    okm m -> ready m -> (forall i, In i have -> valid m i = true) ->
    (forall r m', prog_le m m' -> (forall i, In i have -> valid m' i = true) ->
                  (forall a, r = inl a -> forall i, In i want -> valid m' i = true) ->
                  (forall e, r = inr e -> E e) -> Q r d m') ->
    wp x p Q d m.
  Proof.
    induction 1 as [have a Hi|have e He|have segs k h NE P Hk IHk Hh IHh|have c k h N1 N2 Hk IHk Hh IHh|have ns k h Hk IHk];
      intros Q d m Ho Hr Hv HQ; cbn [wp].
    - apply HQ; [apply prog_le_refl, Ho|exact Hv| |intros e Eq; discriminate Eq]. intros a0 _ i Hi'. apply Hv, Hi, Hi'.
    - apply HQ; [apply prog_le_refl, Ho|exact Hv|intros a0 Eq; discriminate Eq|]. intros e0 Eq. injection Eq as <-. exact He.
    - split; [apply IHh; assumption|]. intros ts got Hm. pose proof (segs_match_written _ _ _ Hm) as EW.
      rewrite spi_plain; [|exact Hr|rewrite EW; exact NE|rewrite EW; exact P]. rewrite EW.
      destruct (io (seg_w segs)) as [i0|].
      + pose proof (add_item_le m i0 Ho) as L. apply IHk.
        * apply L.
        * eapply prog_le_ready; [exact L|exact Hr].
        * intros i [<-|Hi']; [apply add_item_valid|]. apply L. apply Hv, Hi'.
        * intros r m' L' Hv' Hw He. apply HQ; [eapply prog_le_trans; eassumption| |exact Hw|exact He]. intros i Hi'. apply Hv'. right. exact Hi'.
      + apply IHk; assumption.
    - destruct c; try (exfalso; apply N1; reflexivity); try (exfalso; apply N2; reflexivity);
        try (apply IHk; assumption); (split; [apply IHh; [reflexivity|assumption..]|apply IHk; assumption]).
    - apply IHk; assumption.
  Qed.

  (* the shape used by the LoRa-layer proofs *)
  Definition is_ok {A} (r : A + rerr) : Prop := match r with inl _ => True | inr _ => False end.
  Definition plain_spec {A} (E : rerr -> Prop) (want : list item) (p : prog A) : Prop :=
    forall (Q : A + rerr -> drv -> mon -> Prop) d m, okm m -> ready m ->
      (forall r m', prog_le m m' -> (is_ok r -> forall i, In i want -> valid m' i = true) -> (forall e, r = inr e -> E e) -> Q r d m') ->
      wp x p Q d m.
  Lemma plain_spec_of A E want (p : prog A) : plainP E want [] p -> plain_spec E want p.
  Proof.
    intros HP Q d m Ho Hr HQ. eapply plain_sound; [exact HP|exact Ho|exact Hr|intros i []|].
    intros r m' L _ Hw He. apply HQ; [exact L| |exact He]. intros Hok i Hi. destruct r as [a|e]; [|destruct Hok]. eapply Hw; [reflexivity|exact Hi].
  Qed.
End Plain.
