(* Proofs/AsyncTxHistory.v -- C09 along every history of the async_device front-end: whatever the radio does (any script of timeouts,
   errors, received bytes, pending receptions; a fault at any radio call) and whatever the outcome of an API call (value, error, panic,
   hang, parked), after any sequence of join / send / rxc_listen calls every frame handed to the radio was legal for the device, the MAC
   invariant holds and the device (region, board limit) is unchanged. *)
From Coq Require Import NArith ZArith List Bool Lia.
From LoraV Require Import Base.Bytes Gen.RegionTables Model.Frame Model.Region Model.Mac Model.AsyncDev
  Proofs.NoPanicProofs Proofs.TxHistory Proofs.AsyncNoPanic.
Import ListNotations.
Local Open Scope N_scope.

Definition acall_ok (dv : rid * N) (c : atev) : Prop :=
  match c with ATx c _ => tx_ok dv c | AFault (ATx c _) => tx_ok dv c | _ => True end.

Section AHist.
  Variable enc mac_fn : list N -> list N -> list N.
  Hypothesis enc_len : forall k b, length (enc k b) = 16%nat.
  Hypothesis mac_len : forall k b, length (mac_fn k b) = 16%nat.
  Variable dv : rid * N.

  Definition G (d : adev) (e : env) : Prop := mac_ok (ad_mac d) /\ dev_of (ad_mac d) = dv /\ Forall (acall_ok dv) (e_trace e).

  Lemma G_call d e w e1 ok : call e w = (e1, ok) -> acall_ok dv w -> G d e -> G d e1.
  Proof.
    unfold call, tr, G. intros H W [A [B C]].
    destruct (faulty e); injection H as <- _; cbn [e_trace];
      (split; [exact A|split; [exact B|constructor; [|exact C]]]); [|exact W].
    destruct w; try exact I; exact W.
  Qed.
  Lemma G_tr d e t : acall_ok dv t -> G d e -> G d (tr e t).
  Proof. unfold tr, G. intros W [A [B C]]. cbn [e_trace]. split; [exact A|split; [exact B|constructor; assumption]]. Qed.
  Lemma G_pop d e ev e1 : pop e = (ev, e1) -> G d e -> G d e1.
  Proof. unfold pop, G. destruct (e_script e); intros H; injection H as _ <-; cbn [e_trace]; tauto. Qed.
  Lemma G_mac d e m : G d e -> mac_ok m -> dev_of m = dv -> G (with_mac d m) e.
  Proof. unfold G, with_mac. cbn [ad_mac]. tauto. Qed.
  Lemma G_env d e e1 : G d e -> Forall (acall_ok dv) (e_trace e1) -> G d e1.
  Proof. unfold G. tauto. Qed.

  Lemma G_hrx d e bytes maxp cc o : G d e -> mac_handle_rx enc mac_fn (ad_mac d) bytes 5 maxp cc = Val (Some o) -> G (with_mac d (mo_mac o)) e.
  Proof.
    intros HG H. pose proof HG as [A [B _]].
    destruct (mac_handle_rx_total enc mac_fn enc_len _ bytes 5%Z maxp cc A) as [o' [E OK]]. rewrite E in H. injection H as ->.
    apply G_mac; [exact HG|exact (OK o eq_refl)|]. rewrite (mac_handle_rx_dev enc mac_fn _ _ _ _ _ _ E). exact B.
  Qed.
  Lemma G_rx2 d e : G d e -> G (with_mac d (fst (mac_rx2_complete (ad_mac d)))) e.
  Proof. intros HG. pose proof HG as [A [B _]]. apply G_mac; [exact HG|exact (mac_rx2_complete_ok _ A)|]. rewrite mac_rx2_complete_dev. exact B. Qed.

  Lemma window_complete_G d e e1 w : window_complete d e = (e1, w) -> G d e -> G d e1.
  Proof.
    unfold window_complete. intros H HG. destruct (ad_classc d).
    - destruct (rxc_config (ad_mac d)) as [rf| |]; try (injection H as <- _; exact HG).
      destruct (call e (ASetupRx rf None)) as [e2 ok] eqn:Ec. injection H as <- _. exact (G_call _ _ _ _ _ Ec I HG).
    - destruct (call e ALowPower) as [e2 ok] eqn:Ec. injection H as <- _. exact (G_call _ _ _ _ _ Ec I HG).
  Qed.

  Lemma rx_listen_G d e rf d' e' res : rx_listen enc mac_fn d e rf = (d', e', res) -> G d e -> G d' e'.
  Proof.
    unfold rx_listen. intros H HG. destruct (call e ARxSingle) as [e1 ok] eqn:Ec. pose proof (G_call _ _ _ _ _ Ec I HG) as G1.
    destruct ok; cbn [negb] in H; [|injection H as <- <- _; exact G1].
    destruct (pop e1) as [ev e2] eqn:Ep. pose proof (G_pop _ _ _ _ Ep G1) as G2.
    assert (DFLT : forall (x : adev * env * ares (option response)),
               x = (let '(e3, w) := window_complete d e2 in
                    (d, e3, match w with AOk _ => AOk None | AErr x => AErr x | APanic => APanic | AHang => AHang | AParked => AParked end)) ->
               x = (d', e', res) -> G d' e').
    { intros x -> HH. destruct (window_complete d e2) as [e3 w] eqn:Ew. injection HH as <- <- _. exact (window_complete_G _ _ _ _ Ew G2). }
    destruct ev as [[| |f|]|]; try exact (DFLT _ eq_refl H).
    - injection H as <- <- _. (apply G_tr; [exact I|exact G2]).
    - destruct (mac_handle_rx enc mac_fn (ad_mac d) (firstn 256 f) 5 (rf_max_payload rf) false) as [[o|]| |] eqn:E;
        try (injection H as <- <- _; exact G2).
      pose proof (G_hrx _ _ _ _ _ _ G2 E) as G3.
      destruct (window_complete (with_mac d (mo_mac o)) e2) as [e3 w] eqn:Ew. injection H as <- <- _. exact (window_complete_G _ _ _ _ Ew G3).
  Qed.

  Lemma rxc_until_G rf duration : forall fuel d e resp d' e' res, rxc_until enc mac_fn fuel d e rf duration resp = (d', e', res) -> G d e -> G d' e'.
  Proof.
    induction fuel as [|k IH]; intros d e resp d' e' res H HG; cbn [rxc_until] in H; [injection H as <- <- _; exact HG|].
    destruct (pop e) as [ev e1] eqn:Ep. pose proof (G_pop _ _ _ _ Ep HG) as G1.
    destruct ev as [[| |f|]|]; try (injection H as <- <- _; (apply G_tr; [exact I|]; apply G_tr; [exact I|]; exact G1)).
    - destruct (call e1 ARxCont) as [e2 ok] eqn:Ec. pose proof (G_call _ _ _ _ _ Ec I G1) as G2.
      injection H as <- <- _. apply G_tr; [exact I|]. destruct ok; [(apply G_tr; [exact I|exact G2])|exact G2].
    - destruct (call e1 ARxCont) as [e2 ok] eqn:Ec. pose proof (G_call _ _ _ _ _ Ec I G1) as G2.
      destruct ok; cbn [negb] in H; [|injection H as <- <- _; (apply G_tr; [exact I|exact G2])].
      destruct (mac_handle_rx enc mac_fn (ad_mac d) (firstn 256 f) 5 (rf_max_payload rf) true) as [[o|]| |] eqn:E;
        try (injection H as <- <- _; exact G2).
      exact (IH _ _ _ _ _ _ H (G_hrx _ _ _ _ _ _ G2 E)).
  Qed.

  Lemma between_G d e duration d' e' res : between_windows enc mac_fn d e duration = (d', e', res) -> G d e -> G d' e'.
  Proof.
    unfold between_windows. intros H HG. destruct (ad_classc d).
    - destruct (rxc_config (ad_mac d)) as [rf| |]; try (injection H as <- <- _; exact HG).
      destruct (call e (ASetupRx rf None)) as [e1 ok] eqn:Ec. pose proof (G_call _ _ _ _ _ Ec I HG) as G1.
      destruct ok; cbn [negb] in H; [|injection H as <- <- _; exact G1]. exact (rxc_until_G _ _ _ _ _ _ _ _ _ H G1).
    - destruct (call e ALowPower) as [e1 ok] eqn:Ec. pose proof (G_call _ _ _ _ _ Ec I HG) as G1.
      destruct ok; cbn [negb] in H; injection H as <- <- _; [(apply G_tr; [exact I|exact G1])|exact G1].
  Qed.

  Lemma rx_downlink_G d e join wd rx1 rx2 d' e' res : rx_downlink enc mac_fn d e join wd rx1 rx2 = (d', e', res) -> G d e -> G d' e'.
  Proof.
    unfold rx_downlink. intros H HG.
    destruct (_ <? ad_lead d); [injection H as <- <- _; exact HG|].
    destruct (between_windows enc mac_fn d e _) as [[d1 e1] b1] eqn:B1. pose proof (between_G _ _ _ _ _ _ B1 HG) as G1.
    destruct b1 as [x1| | | |]; try (injection H as <- <- _; exact G1).
    destruct (call e1 (ASetupRx rx1 (Some (ad_lead d)))) as [e2 ok] eqn:Ec. pose proof (G_call _ _ _ _ _ Ec I G1) as G2.
    destruct ok; cbn [negb] in H; [|injection H as <- <- _; exact G2].
    destruct (rx_listen enc mac_fn d1 e2 rx1) as [[d2 e3] l1] eqn:L1. pose proof (rx_listen_G _ _ _ _ _ _ L1 G2) as G3.
    destruct l1 as [[r|]| | | |]; try (injection H as <- <- _; exact G3).
    destruct (_ <? ad_lead d); [injection H as <- <- _; exact G3|].
    destruct (between_windows enc mac_fn d2 e3 _) as [[d3 e4] b2] eqn:B2. pose proof (between_G _ _ _ _ _ _ B2 G3) as G4.
    destruct b2 as [x2| | | |]; try (injection H as <- <- _; exact G4).
    destruct (call e4 (ASetupRx rx2 (Some (ad_lead d)))) as [e5 ok2] eqn:Ec2. pose proof (G_call _ _ _ _ _ Ec2 I G4) as G5.
    destruct ok2; cbn [negb] in H; [|injection H as <- <- _; exact G5].
    destruct (rx_listen enc mac_fn d3 e5 rx2) as [[d4 e6] l2] eqn:L2. pose proof (rx_listen_G _ _ _ _ _ _ L2 G5) as G6.
    destruct l2 as [[r|]| | | |]; try (injection H as <- <- _; exact G6).
    pose proof (G_rx2 _ _ G6) as G7. destruct (mac_rx2_complete (ad_mac d4)) as [m' r]. cbn [fst] in G7. injection H as <- <- _. exact G7.
  Qed.

  Theorem adev_send_G d e data fport confirmed draws d' e' res :
    adev_send enc mac_fn d e data fport confirmed draws = (d', e', res) -> G d e -> G d' e'.
  Proof.
    unfold adev_send. intros H HG. pose proof HG as [A [B _]].
    destruct (send enc mac_fn (ad_mac d) data fport confirmed draws) as [[o|]| |] eqn:SD; try (injection H as <- <- _; exact HG).
    destruct (send_tx_ok enc mac_fn _ _ _ _ _ _ A SD) as [TX D]. rewrite B in TX, D.
    pose proof (send_keeps_invariant enc mac_fn _ _ _ _ _ _ A SD) as A0.
    pose proof (G_mac _ _ _ HG A0 D) as G0.
    destruct (call e (ATx (to_tx o) (to_frame o))) as [e1 ok] eqn:Ec. pose proof (G_call _ _ _ _ _ Ec TX G0) as G1.
    set (rd := if negb ok then (with_mac d (to_mac o), e1, AErr ERadioErr)
               else rx_downlink enc mac_fn (with_mac d (to_mac o)) (tr e1 ATimerReset) false 100 (to_rx1 o) (to_rx2 o)) in H.
    assert (GR : G (fst (fst rd)) (snd (fst rd))).
    { subst rd. destruct ok; cbn [negb]; [|exact G1].
      destruct (rx_downlink _ _ _ _ _ _ _ _) as [[d1 e2] r] eqn:RD. cbn [fst snd].
      apply (rx_downlink_G _ _ _ _ _ _ _ _ _ RD). apply G_tr; [exact I|exact G1]. }
    destruct rd as [[d1 e2] r]. cbn [fst snd] in GR.
    destruct r as [resp|x| | |]; try (injection H as <- <- _; exact GR).
    - destruct resp; injection H as <- <- _; exact GR.
    - destruct (match fcnt_up_of (ad_mac d1), fcnt_up_of (to_mac o) with Some a, Some b => a =? b | None, None => true | _, _ => false end);
        [|injection H as <- <- _; exact GR].
      pose proof (G_rx2 _ _ GR) as G7. destruct (mac_rx2_complete (ad_mac d1)) as [m' r2]. cbn [fst] in G7.
      destruct r2; injection H as <- <- _; exact G7.
  Qed.

  Theorem adev_join_G d e c draws d' e' res : adev_join enc mac_fn d e c draws = (d', e', res) -> G d e -> G d' e'.
  Proof.
    unfold adev_join. intros H HG. pose proof HG as [A [B _]].
    destruct (join_otaa mac_fn (ad_mac d) c draws) as [o| |] eqn:JO; try (injection H as <- <- _; exact HG).
    destruct (join_tx_ok mac_fn _ _ _ _ A JO) as [TX D]. rewrite B in TX, D.
    destruct (AsyncNoPanic.join_keeps_invariant mac_fn _ _ _ _ A JO) as [A0 _].
    pose proof (G_mac _ _ _ HG A0 D) as G0.
    destruct (call e (ATx (to_tx o) (to_frame o))) as [e1 ok] eqn:Ec. pose proof (G_call _ _ _ _ _ Ec TX G0) as G1.
    destruct ok; cbn [negb] in H; [|injection H as <- <- _; exact G1].
    destruct (rx_downlink _ _ _ _ _ _ _ _) as [[d1 e2] r] eqn:RD.
    assert (GR : G d1 e2) by (apply (rx_downlink_G _ _ _ _ _ _ _ _ _ RD); apply G_tr; [exact I|exact G1]).
    destruct r as [resp|x| | |]; try (injection H as <- <- _; exact GR).
    destruct resp; injection H as <- <- _; exact GR.
  Qed.

  Lemma rxc_listen_loop_G rf : forall fuel d e d' e' res, rxc_listen_loop enc mac_fn fuel d e rf = (d', e', res) -> G d e -> G d' e'.
  Proof.
    induction fuel as [|k IH]; intros d e d' e' res H HG; cbn [rxc_listen_loop] in H; [injection H as <- <- _; exact HG|].
    destruct (pop e) as [ev e1] eqn:Ep. pose proof (G_pop _ _ _ _ Ep HG) as G1.
    destruct ev as [[| |f|]|]; try (injection H as <- <- _; apply G_tr; [exact I|exact G1]).
    - destruct (call e1 ARxCont) as [e2 ok] eqn:Ec. pose proof (G_call _ _ _ _ _ Ec I G1) as G2.
      injection H as <- <- _. destruct ok; [apply G_tr; [exact I|exact G2]|exact G2].
    - destruct (call e1 ARxCont) as [e2 ok] eqn:Ec. pose proof (G_call _ _ _ _ _ Ec I G1) as G2.
      destruct ok; cbn [negb] in H; [|injection H as <- <- _; exact G2].
      destruct (mac_handle_rx enc mac_fn (ad_mac d) (firstn 256 f) 5 (rf_max_payload rf) true) as [[o|]| |] eqn:E;
        try (injection H as <- <- _; exact G2).
      pose proof (G_hrx _ _ _ _ _ _ G2 E) as G3.
      destruct (hmr (mo_resp o)) as [r|]; [|exact (IH _ _ _ _ _ H G3)].
      destruct r; injection H as <- <- _; exact G3.
  Qed.

  Theorem adev_listen_G d e d' e' res : adev_listen enc mac_fn d e = (d', e', res) -> G d e -> G d' e'.
  Proof.
    unfold adev_listen. intros H HG. destruct (rxc_config (ad_mac d)) as [rf| |]; try (injection H as <- <- _; exact HG).
    exact (rxc_listen_loop_G _ _ _ _ _ _ _ H HG).
  Qed.

  (* any sequence of API calls, each against any continuation of the radio script *)
  Inductive aop := OpJoin (c : credentials) (draws : list N) | OpSend (data : list N) (fport : N) (confirmed : bool) (draws : list N) | OpListen
                 | OpScript (s : list sev).
  Definition arun_op (d : adev) (e : env) (o : aop) : adev * env :=
    match o with
    | OpJoin c draws => let '(d', e', _) := adev_join enc mac_fn d e c draws in (d', e')
    | OpSend data fport confirmed draws => let '(d', e', _) := adev_send enc mac_fn d e data fport confirmed draws in (d', e')
    | OpListen => let '(d', e', _) := adev_listen enc mac_fn d e in (d', e')
    | OpScript s => (d, {| e_script := s; e_calls := e_calls e; e_fault := e_fault e; e_trace := e_trace e |})      (* what the radio will do next *)
    end.
  Fixpoint arun (d : adev) (e : env) (ops : list aop) : adev * env :=
    match ops with [] => (d, e) | o :: rest => let '(d', e') := arun_op d e o in arun d' e' rest end.

  Theorem async_every_transmission_legal : forall ops d e, G d e -> let '(d', e') := arun d e ops in G d' e'.
  Proof.
    induction ops as [|o rest IH]; intros d e HG; cbn [arun]; [exact HG|].
    destruct (arun_op d e o) as [d1 e1] eqn:E1.
    assert (G1 : G d1 e1).
    { destruct o as [c draws|data fport confirmed draws| |s]; cbn [arun_op] in E1.
      - destruct (adev_join enc mac_fn d e c draws) as [[d2 e2] r] eqn:J. injection E1 as <- <-. exact (adev_join_G _ _ _ _ _ _ _ J HG).
      - destruct (adev_send enc mac_fn d e data fport confirmed draws) as [[d2 e2] r] eqn:S. injection E1 as <- <-. exact (adev_send_G _ _ _ _ _ _ _ _ _ S HG).
      - destruct (adev_listen enc mac_fn d e) as [[d2 e2] r] eqn:L. injection E1 as <- <-. exact (adev_listen_G _ _ _ _ _ L HG).
      - injection E1 as <- <-. exact (G_env _ _ _ HG (proj2 (proj2 HG))). }
    exact (IH d1 e1 G1).
  Qed.
End AHist.
