(* Proofs/TxHistory.v -- C09 along whole histories: the region identity and the board's power limit never change, the shape invariant
   mac_ok (NoPanicProofs) is kept by every operation, and under it EVERY frame handed to the radio -- data uplink or join request, on
   every selection path (dynamic plan, fixed plan through the mask, through the join-channel bookkeeping, first data channel after a
   biased join) -- goes out on a channel of the region (in band / on the uplink channel map with the bandwidth of its kind), at a
   region-defined data rate, at a power within the limits.  Lifted to every event sequence of the nb_device front-end. *)
From Coq Require Import NArith ZArith List Bool Lia.
From LoraV Require Import Base.Bytes Gen.RegionTables Model.Frame Model.Region Model.Mac Model.NbDev
  Proofs.OtaaProofs Proofs.TxProofs Proofs.NoPanicProofs Proofs.NbNoPanic.
Import ListNotations.
Local Open Scope N_scope.

(* ------------------------------------------------------------------ the region identity is never changed *)
Lemma handle_cmd_rid snr h cid p nx h' : handle_cmd snr h cid p nx = Val h' -> rg_id (h_rg h') = rg_id (h_rg h).
Proof.
  unfold handle_cmd. cbv zeta.
  destruct (N.eq_dec cid 6) as [->|N6]. { intros H. injection H as <-. reflexivity. }
  destruct (N.eq_dec cid 10) as [->|N10].
  { destruct (rg_plan (h_rg h)) as [pl|pl]; [|intros H; injection H as <-; reflexivity].
    destruct (dyn_dl_update _ _ _ _) as [pl' [af ac]]. intros H. injection H as <-. reflexivity. }
  destruct (N.eq_dec cid 8) as [->|N8]. { intros H. injection H as <-. reflexivity. }
  destruct (N.eq_dec cid 5) as [->|N5]. { intros H. injection H as <-. reflexivity. }
  destruct (N.eq_dec cid 7) as [->|N7].
  { destruct (rg_plan (h_rg h)) as [pl|pl]; [|intros H; injection H as <-; reflexivity].
    destruct (dyn_new_channel _ _ _ _ _) as [[pl' [af ad]]| |]; try discriminate. intros H. injection H as <-. reflexivity. }
  destruct (N.eq_dec cid 3) as [->|N3].
  2: { assert (Hd : handle_cmd snr h cid p nx = Val h).
       { unfold handle_cmd. cbv zeta.
         destruct cid as [|[[[[|[]|]|[[]|[]|]|]|[[[]|[]|]|[[]|[]|]|]|]|[[[|[]|]|[[]|[]|]|]|[[[]|[]|]|[[]|[]|]|]|]|]]; try reflexivity; exfalso; lia. }
       unfold handle_cmd in Hd. cbv zeta in Hd. rewrite Hd. intros H. injection H as <-. reflexivity. }
  destruct (region_mask_update _ _ _ _ _) as [mo| |]; try discriminate.
  destruct (match mo with Some m' => (m', h_known h) | None => (h_mask h, false) end) as [msk known].
  destruct nx; [intros H; injection H as <-; reflexivity|].
  destruct (region_mask_validate _ _ _) as [vok| |]; try discriminate.
  destruct (known && vok); destruct (if N.shiftr (nthN p 0) 4 =? 15 then _ else _) as [d|];
    destruct (if N.land (nthN p 0) 15 =? 15 then _ else _) as [pwv|]; intros H; injection H as <-; reflexivity.
Qed.

Lemma handle_cmds_rid snr : forall items h h', handle_cmds snr h items = Val h' -> rg_id (h_rg h') = rg_id (h_rg h).
Proof.
  induction items as [|it rest IH]; intros h h' H; [injection H as <-; reflexivity|].
  destruct it as [cid p| |]; cbn [handle_cmds] in H; try (injection H as <-; reflexivity).
  destruct (handle_cmd snr h cid p _) as [h1| |] eqn:E1; try discriminate.
  rewrite (IH _ _ H). exact (handle_cmd_rid _ _ _ _ _ _ E1).
Qed.

Lemma handle_downlink_macs_rid snr cf rg pending bytes cf' rg' pend' :
  handle_downlink_macs snr cf rg pending bytes = Val (cf', rg', pend') -> rg_id rg' = rg_id rg.
Proof.
  unfold handle_downlink_macs. destruct (handle_cmds snr _ _) as [h| |] eqn:E; try discriminate.
  intros H. injection H as _ <- _. exact (handle_cmds_rid _ _ _ _ E).
Qed.

Section Hist.
  Variable enc mac_fn : list N -> list N -> list N.

  Lemma handle_rx_session_rid s cf rg bytes mp snr ig o :
    handle_rx_session enc mac_fn s cf rg bytes mp snr ig = Val o -> rg_id (ro_rg o) = rg_id rg.
  Proof.
    unfold handle_rx_session. cbv zeta.
    destruct (validate bytes) as [lay|e]; [|intros H; injection H as <-; reflexivity].
    destruct (Nat.ltb _ (length bytes)).
    { destruct ig; [intros H; injection H as <-; reflexivity|].
      destruct (rx2_complete_session s cf (rg_id rg)) as [[s' cf'] resp]. intros H; injection H as <-; reflexivity. }
    destruct (next_fcnt_down _ _) as [fcnt|]; [|intros H; injection H as <-; reflexivity].
    destruct (negb _); [intros H; injection H as <-; reflexivity|].
    destruct (decrypt_in_place _ _ _ _ _) as [[lay'|e] buf]; [|discriminate].
    destruct ig.
    - destruct (v_f_port buf lay'); intros H; injection H as <-; reflexivity.
    - destruct (handle_downlink_macs snr cf rg [] (v_f_opts buf lay')) as [[[cf1 rg1] p1]| |] eqn:E1; try discriminate.
      pose proof (handle_downlink_macs_rid _ _ _ _ _ _ _ _ E1) as R1.
      destruct (v_f_port buf lay') as [[|pt]|].
      + destruct (handle_downlink_macs snr cf1 rg1 p1 (v_frm buf lay')) as [[[cf2 rg2] p2]| |] eqn:E2; try discriminate.
        pose proof (handle_downlink_macs_rid _ _ _ _ _ _ _ _ E2) as R2.
        intros H; injection H as <-. cbn [ro_rg]. congruence.
      + intros H; injection H as <-. exact R1.
      + intros H; injection H as <-. exact R1.
  Qed.

  Lemma region_join_accept_rid g c g' : region_join_accept g c = Val g' -> rg_id g' = rg_id g.
  Proof.
    unfold region_join_accept. destruct (rg_plan g) as [p|p]; destruct c as [|fs|mk]; try (intros H; injection H as <-; reflexivity).
    destruct (dyn_cflist _ _ _ _) as [chs| |]; try discriminate. intros H; injection H as <-; reflexivity.
  Qed.

  (* the device: which region it was built for and what its board can emit *)
  Definition dev_of (m : mac) : rid * N := (rg_id (m_region m), m_max_power m).

  Lemma mac_handle_rx_dev m bytes snr mp cc mo : mac_handle_rx enc mac_fn m bytes snr mp cc = Val (Some mo) -> dev_of (mo_mac mo) = dev_of m.
  Proof.
    unfold mac_handle_rx, dev_of. destruct (m_state m) as [s|nonce c|].
    - destruct (handle_rx_session _ _ _ _ _ _ _ _ _) as [o| |] eqn:E; try discriminate.
      intros H. injection H as <-. cbn [mo_mac m_region m_max_power]. rewrite (handle_rx_session_rid _ _ _ _ _ _ _ _ E). reflexivity.
    - destruct cc; [discriminate|]. unfold otaa_handle_rx.
      destruct (ja_check_mic_and_decrypt _ _ _ _) as [[u|e] clear].
      + destruct (region_join_accept _ _) as [g'| |] eqn:Eg; try discriminate.
        intros H. injection H as <-. cbn [mo_mac m_region m_max_power]. rewrite (region_join_accept_rid _ _ _ Eg). reflexivity.
      + intros H. injection H as <-. reflexivity.
    - destruct cc; [discriminate|]. intros H. injection H as <-. reflexivity.
  Qed.

  Lemma mac_rx2_complete_dev m : dev_of (fst (mac_rx2_complete m)) = dev_of m.
  Proof.
    unfold mac_rx2_complete, dev_of. destruct (m_state m) as [s|nonce c|]; try reflexivity.
    destruct (rx2_complete_session _ _ _) as [[s' cf'] resp]. reflexivity.
  Qed.
End Hist.

(* ------------------------------------------------------------------ every selection path yields a legal channel *)
Definition chan_legal (r : rid) (tc : tx_channel) : Prop :=
  get_datarate r (tc_dr tc) = Some (tc_datarate tc) /\
  if r_fixed r
  then (tc_index tc <= 71 /\ nth_error (r_uplink r) (N.to_nat (tc_index tc)) = Some (tc_freq tc) /\
        (snd (fst (tc_datarate tc)) =? 9) = (64 <=? tc_index tc))
  else frequency_valid r (tc_freq tc) = true.

Lemma get_of_datarate_index r d x : datarate_index r d = Val (Some x) -> get_datarate r d = Some x.
Proof.
  unfold get_datarate, datarate_index. destruct (nth_error (r_datarates r) (N.to_nat d)) as [[y|]|]; try discriminate.
  intros H. injection H as <-. reflexivity.
Qed.

Lemma fixed_regions : forall r, r < 9 -> r_fixed r = true -> In r [4; 8].
Proof.
  intros r H F. assert (E : forallb (fun r => negb (r_fixed r) || (r =? 4) || (r =? 8)) (map N.of_nat (seq 0 9)) = true) by (vm_compute; reflexivity).
  rewrite forallb_forall in E. specialize (E r). rewrite F in E. cbn [negb orb] in E.
  assert (Hin : In r (map N.of_nat (seq 0 9))) by (apply in_map_iff; exists (N.to_nat r); split; [lia|apply in_seq; lia]).
  specialize (E Hin). apply orb_true_iff in E. destruct E as [E|E]; apply N.eqb_eq in E; subst; cbn; tauto.
Qed.

Lemma fix_select_legal r p dr join draws tc p' rest : r < 9 -> r_fixed r = true -> jc_ok (fp_jc p) ->
  fix_select r p dr join draws = Val (tc, p', rest) -> chan_legal r tc.
Proof.
  intros Hr Hf Hj. unfold chan_legal. rewrite Hf.
  assert (Hvia : match jc_get_next (fp_jc p) draws with
      | Val (chn, j', rest) => fix_mk_tx r (r_join_dr r (negb (chn <? 64))) chn {| fp_mask := fp_mask p; fp_jc := j' |} rest
      | Panic => Panic | OutOfDraws => OutOfDraws end = Val (tc, p', rest) ->
      get_datarate r (tc_dr tc) = Some (tc_datarate tc) /\ tc_index tc <= 71 /\
      nth_error (r_uplink r) (N.to_nat (tc_index tc)) = Some (tc_freq tc) /\ (snd (fst (tc_datarate tc)) =? 9) = (64 <=? tc_index tc)).
  { destruct (jc_get_next_ok (fp_jc p) draws Hj) as [_ N2].
    destruct (jc_get_next (fp_jc p) draws) as [[[chn j'] rest0]| |]; try discriminate.
    destruct (N2 chn j' rest0 eq_refl) as [Hc _]. intros H. apply fix_mk_tx_spec in H. destruct H as [A [B [C [_ E]]]].
    apply get_of_datarate_index in E. rewrite B, C. split; [exact E|]. split; [exact Hc|]. split; [exact A|].
    destruct (join_dr_bandwidth r (fixed_regions r Hr Hf)) as [[sf1 [mp1 J1]] [sf2 [mp2 J2]]].
    destruct (chn <? 64) eqn:E64; cbn [negb] in E.
    - rewrite J1 in E. injection E as <-. cbn [fst snd]. symmetry. apply N.leb_gt. apply N.ltb_lt. exact E64.
    - rewrite J2 in E. injection E as <-. cbn [fst snd]. symmetry. apply N.leb_le. apply N.ltb_ge. exact E64. }
  assert (Hmask : fix_select_masked r p dr draws = Val (tc, p', rest) ->
      get_datarate r (tc_dr tc) = Some (tc_datarate tc) /\ tc_index tc <= 71 /\
      nth_error (r_uplink r) (N.to_nat (tc_index tc)) = Some (tc_freq tc) /\ (snd (fst (tc_datarate tc)) =? 9) = (64 <=? tc_index tc)).
  { intros H. pose proof (fix_masked_legal _ _ _ _ _ _ _ H) as L. cbv zeta in L. destruct L as [_ [L1 [L2 [L3 [_ [_ L6]]]]]].
    split; [|split; [exact L1|split; [exact L2|exact L6]]].
    unfold fix_select_masked in H. destruct (datarate_index r dr) as [[[[sf bw] mp]|]| |] eqn:Ed; try discriminate.
    destruct (if bw =? 9 then _ else _) as [[chn rest0]| |]; try discriminate.
    apply fix_mk_tx_spec in H. destruct H as [_ [B [_ [_ E]]]]. rewrite B. exact (get_of_datarate_index _ _ _ E). }
  unfold fix_select. destruct join; [exact Hvia|]. destruct (jc_has_bias (fp_jc p)); [exact Hvia|].
  destruct (jc_preferred (fp_jc p)) as [sb0|]; [|exact Hmask].
  destruct (negb (jc_num_retries (fp_jc p) =? 0)); [|exact Hmask].
  destruct draws as [|d rest0]; [discriminate|].
  destruct (datarate_index r dr) as [[[[sf bw] mp]|]| |] eqn:Ed; try discriminate.
  intros H. apply fix_mk_tx_spec in H. destruct H as [A [B [C [_ E]]]]. rewrite Ed in E. injection E as E.
  destruct Hj as [_ [_ [_ Hpv]]]. cbn [jc_clear_bias jc_previous] in *.
  set (pc := jc_previous (fp_jc p)) in *.
  set (sb := if pc <? 64 then pc / 8 else pc mod 8) in *.
  assert (Hsb : sb <= 7).
  { subst sb. destruct (pc <? 64) eqn:E64.
    - apply N.ltb_lt in E64. assert (pc / 8 < 8) by (apply N.div_lt_upper_bound; lia). lia.
    - assert (pc mod 8 < 8) by (apply N.mod_lt; discriminate). lia. }
  assert (Hc : N.land d 7 + sb * 8 <= 63).
  { change 7 with (N.ones 3). rewrite N.land_ones. assert (d mod 2 ^ 3 < 2 ^ 3) by (apply N.mod_lt; discriminate). change (2 ^ 3) with 8 in *. lia. }
  rewrite B, C, <- E. cbn [fst snd]. split; [exact (get_of_datarate_index _ _ _ Ed)|].
  destruct (bw =? 9) eqn:Ebw.
  - assert ((N.land d 7 + sb * 8) / 8 < 8) by (apply N.div_lt_upper_bound; lia).
    split; [lia|]. split; [exact A|]. symmetry. apply N.leb_le. lia.
  - split; [lia|]. split; [exact A|]. symmetry. apply N.leb_gt. lia.
Qed.

Theorem region_select_legal g dr join draws tc g' rest : region_ok g ->
  region_select g dr join draws = Val (tc, g', rest) -> chan_legal (rg_id g) tc.
Proof.
  intros [Hr [Hp Hk]] H. unfold plan_shape, plan_kind in *. destruct (rg_plan g) as [p|p] eqn:Ep.
  - destruct Hp as [Hok [H9 HJ]]. unfold chan_legal. rewrite Hk. destruct join.
    + destruct (dyn_join_legal g p dr draws tc g' rest Ep Hok H) as [_ [_ [F [D G]]]]. rewrite D. split; assumption.
    + destruct (dyn_data_legal g p dr draws tc g' rest Ep Hok H9 HJ H) as [p1 [c [_ [_ [_ [_ [_ [_ [_ [_ [F [D G]]]]]]]]]]]].
      rewrite D. split; assumption.
  - destruct Hp as [H9 Hj]. unfold region_select in H. rewrite Ep in H.
    destruct (fix_select (rg_id g) p dr join draws) as [[[tc0 p'] rest0]| |] eqn:Es; try discriminate.
    injection H as <- _ _. exact (fix_select_legal _ _ _ _ _ _ _ _ Hr Hk Hj Es).
Qed.

(* ------------------------------------------------------------------ what is handed to the radio *)
Definition tx_ok (dv : rid * N) (c : tx_config) : Prop :=
  exists tc, chan_legal (fst dv) tc /\ tx_rf c = mk_rf (fst dv) (tc_freq tc) (tc_datarate tc) /\
             (tx_pw c <= 127)%Z /\ (tx_pw c <= Z.of_N (snd dv))%Z.

Lemma adjust_power_le pw mp1 mp g q : adjust_power pw mp1 g = Val q -> mp1 <= mp -> (q <= 127)%Z /\ (q <= Z.of_N mp)%Z.
Proof. intros H L. destruct (adjust_power_bound _ _ _ _ H) as [A [B _]]. split; [exact A|lia]. Qed.

Section Hist2.
  Variable enc mac_fn : list N -> list N -> list N.

  Theorem send_tx_ok m data fport confirmed draws o : mac_ok m ->
    send enc mac_fn m data fport confirmed draws = Val (SendOk o) ->
    tx_ok (dev_of m) (to_tx o) /\ dev_of (to_mac o) = dev_of m.
  Proof.
    intros [Hrg Hcf] H. unfold send in H. destruct (m_state m) as [s|n c|]; try discriminate.
    destruct (prepare_buffer _ _ _ _ _ _ _ _) as [[[s' fcnt] frame]| |]; try discriminate.
    cbn [with_state m_region m_cfg m_max_power m_gain] in H. unfold create_tx_config in H.
    destruct (region_select (m_region m) (cf_data_rate (m_cfg m)) false draws) as [[[tc rg'] rest']| |] eqn:Es; try discriminate.
    destruct (tx_power_adjust _ 0) as [p0|]; try discriminate.
    destruct (adjust_power _ _ _) as [pw| |] eqn:Ea; try discriminate.
    destruct (rx_windows _ tc) as [[w1 w2]| |]; try discriminate. injection H as <-.
    cbn [to_tx to_mac]. unfold dev_of, with_region. cbn [m_region m_max_power fst snd].
    destruct Hcf as [C1 _]. destruct (uplink_dr (m_region m) (cf_data_rate (m_cfg m))) as [x|] eqn:Eu; [|congruence].
    destruct (region_select_ok (m_region m) _ x false draws Hrg (datarate_index_of_get _ _ _ (uplink_dr_defined _ _ _ Eu))) as [_ R].
    destruct (R _ _ _ Es) as [_ [_ [R3 _]]]. split; [|rewrite R3; reflexivity].
    exists tc. cbn [fst snd tx_rf tx_pw]. split; [exact (region_select_legal _ _ _ _ _ _ _ Hrg Es)|]. split; [reflexivity|].
    apply (adjust_power_le _ _ _ _ _ Ea). apply N.le_min_r.
  Qed.

  Theorem join_tx_ok m c draws o : mac_ok m ->
    join_otaa mac_fn m c draws = Val o ->
    tx_ok (dev_of m) (to_tx o) /\ dev_of (to_mac o) = dev_of m.
  Proof.
    intros [Hrg Hcf] H. unfold join_otaa in H. destruct draws as [|d rest]; [discriminate|].
    destruct (build_join_request _ _ _ _ _ _) as [[buf len]|er]; [|discriminate].
    cbn [with_state m_region m_cfg m_max_power m_gain] in H. unfold create_tx_config in H.
    destruct (region_select (m_region m) (cf_data_rate (m_cfg m)) true rest) as [[[tc rg'] rest']| |] eqn:Es; try discriminate.
    destruct (tx_power_adjust _ 0) as [p0|]; try discriminate.
    destruct (adjust_power _ _ _) as [pw| |] eqn:Ea; try discriminate.
    destruct (rx_windows _ tc) as [[w1 w2]| |]; try discriminate. injection H as <-.
    cbn [to_tx to_mac]. unfold dev_of, with_region. cbn [m_region m_max_power fst snd].
    destruct Hcf as [C1 _]. destruct (uplink_dr (m_region m) (cf_data_rate (m_cfg m))) as [x|] eqn:Eu; [|congruence].
    destruct (region_select_ok (m_region m) _ x true rest Hrg (datarate_index_of_get _ _ _ (uplink_dr_defined _ _ _ Eu))) as [_ R].
    destruct (R _ _ _ Es) as [_ [_ [R3 _]]]. split; [|rewrite R3; reflexivity].
    exists tc. cbn [fst snd tx_rf tx_pw]. split; [exact (region_select_legal _ _ _ _ _ _ _ Hrg Es)|]. split; [reflexivity|].
    apply (adjust_power_le _ _ _ _ _ Ea). apply N.le_refl.
  Qed.
End Hist2.

(* ------------------------------------------------------------------ nb_device: every frame handed to the radio along every event sequence *)
Definition ncall_ok (dv : rid * N) (c : ncall) : Prop :=
  match c with NcTx c _ => tx_ok dv c | NcFault (NcTx c _) => tx_ok dv c | _ => True end.
Definition trace_ok (dv : rid * N) (e : nenv) : Prop := Forall (ncall_ok dv) (n_trace e).

Lemma radio_call_ok dv e w e1 ok : ncall_radio e w = (e1, ok) -> ncall_ok dv w -> trace_ok dv e -> trace_ok dv e1.
Proof.
  unfold ncall_radio, trace_ok. destruct (nfaulty e);
    intros H; injection H as <- _; cbn [n_trace]; intros W T; constructor; try assumption.
  destruct w; try exact I; exact W.
Qed.

Section NbHist.
  Variable enc mac_fn : list N -> list N -> list N.
  Hypothesis enc_len : forall k b, length (enc k b) = 16%nat.
  Hypothesis mac_len : forall k b, length (mac_fn k b) = 16%nat.

  Lemma idle_tx_hist dv m e join o ans st' m' e' r :
    idle_tx m e join o ans = (st', m', e', r) -> tx_ok dv (to_tx o) -> trace_ok dv e -> dev_of m' = dev_of m /\ trace_ok dv e'.
  Proof.
    unfold idle_tx. intros H TX T. destruct (ncall_radio e (NcTx (to_tx o) (to_frame o))) as [e1 ok] eqn:Ec.
    pose proof (radio_call_ok dv _ _ _ _ Ec TX T) as T1.
    assert (CON : forall dflt,
              (if join then (NIdle, m, e1, dflt)
               else let '(m2, r2) := mac_rx2_complete m in
                    match r2 with RSessionExpired => (NIdle, m2, e1, NrSessionExpired) | _ => (NIdle, m2, e1, dflt) end) = (st', m', e', r) ->
              dev_of m' = dev_of m /\ trace_ok dv e').
    { intros dflt HH. destruct join; [injection HH as _ <- <- _; split; [reflexivity|exact T1]|].
      pose proof (mac_rx2_complete_dev m) as D2. destruct (mac_rx2_complete m) as [m2 r2]. cbn [fst] in D2.
      destruct r2; injection HH as _ <- <- _; split; assumption. }
    destruct ok; cbn [negb] in H; [|exact (CON _ H)].
    destruct ans; try exact (CON _ H).
    - injection H as _ <- <- _. split; [reflexivity|exact T1].
    - unfold rxwindow1 in H. injection H as _ <- <- _. split; [reflexivity|exact T1].
  Qed.

  Theorem nb_step_transmissions_legal st m e ev ans st' m' e' r :
    handle_event enc mac_fn st m e ev ans = (st', m', e', r) -> mac_ok m -> trace_ok (dev_of m) e ->
    dev_of m' = dev_of m /\ trace_ok (dev_of m) e'.
  Proof.
    intros H Hok T.
    destruct st as [|j rx1 rx2|j rx1 rx2 w|j rx1 rx2 w rf]; cbn [handle_event] in H.
    - destruct ev as [cr dr|data fport confirmed draws| |]; try (injection H as _ <- <- _; split; [reflexivity|exact T]).
      + destruct (join_otaa mac_fn m cr dr) as [o| |] eqn:JO; try (injection H as _ <- <- _; split; [reflexivity|exact T]).
        destruct (join_tx_ok mac_fn _ _ _ _ Hok JO) as [TX D].
        destruct (idle_tx_hist (dev_of m) _ _ _ _ _ _ _ _ _ H TX T) as [D1 T1]. split; [congruence|exact T1].
      + destruct (send enc mac_fn m data fport confirmed draws) as [[o|]| |] eqn:SD; try (injection H as _ <- <- _; split; [reflexivity|exact T]).
        destruct (send_tx_ok enc mac_fn _ _ _ _ _ _ Hok SD) as [TX D].
        destruct (idle_tx_hist (dev_of m) _ _ _ _ _ _ _ _ _ H TX T) as [D1 T1]. split; [congruence|exact T1].
    - destruct ev as [cr dr|data fport confirmed draws| |]; try (injection H as _ <- <- _; split; [reflexivity|exact T]).
      destruct (ncall_radio e NcPhy) as [e1 ok] eqn:Ec. pose proof (radio_call_ok (dev_of m) _ _ _ _ Ec I T) as T1.
      destruct ok; cbn [negb] in H; [|injection H as _ <- <- _; split; [reflexivity|exact T1]].
      destruct ans; try (injection H as _ <- <- _; split; [reflexivity|exact T1]).
    - destruct ev as [cr dr|data fport confirmed draws| |]; try (injection H as _ <- <- _; split; [reflexivity|exact T]).
      destruct (ncall_radio e _) as [e1 ok] eqn:Ec. pose proof (radio_call_ok (dev_of m) _ _ _ _ Ec I T) as T1.
      destruct ok; cbn [negb] in H; [|injection H as _ <- <- _; split; [reflexivity|exact T1]].
      destruct w as [t|t].
      + destruct (_ <? _); injection H as _ <- <- _; split; try reflexivity; exact T1.
      + injection H as _ <- <- _; split; [reflexivity|exact T1].
    - destruct ev as [cr dr|data fport confirmed draws| |]; try (injection H as _ <- <- _; split; [reflexivity|exact T]).
      + destruct (ncall_radio e NcPhy) as [e1 ok] eqn:Ec. pose proof (radio_call_ok (dev_of m) _ _ _ _ Ec I T) as T1.
        destruct ok; cbn [negb] in H; [|injection H as _ <- <- _; split; [reflexivity|exact T1]].
        destruct ans; try (injection H as _ <- <- _; split; [reflexivity|exact T1]).
        destruct (Nat.leb 256 (length packet)); [injection H as _ <- <- _; split; [reflexivity|exact T1]|].
        destruct (mac_handle_rx enc mac_fn m packet 5 (rf_max_payload rf) false) as [[o|]| |] eqn:E;
          try (injection H as _ <- <- _; split; [reflexivity|exact T1]).
        pose proof (mac_handle_rx_dev enc mac_fn _ _ _ _ _ _ E) as D.
        destruct (mo_resp o); injection H as _ <- <- _; (split; [exact D|exact T1]).
      + destruct (ncall_radio e NcCancelRx) as [e1 ok] eqn:Ec. pose proof (radio_call_ok (dev_of m) _ _ _ _ Ec I T) as T1.
        destruct ok; cbn [negb] in H; [|injection H as _ <- <- _; split; [reflexivity|exact T1]].
        destruct w as [t|t].
        * destruct (_ <? _); injection H as _ <- <- _; split; try reflexivity; exact T1.
        * pose proof (mac_rx2_complete_dev m) as D2. destruct (mac_rx2_complete m) as [m2 r2]. cbn [fst] in D2.
          injection H as _ <- <- _. split; [exact D2|exact T1].
  Qed.

  (* any sequence of events (requests of the application, radio events with any answer, timeouts), a fault at any radio call *)
  Fixpoint nb_run (st : nstate) (m : mac) (e : nenv) (evs : list (nevent * ranswer)) : nstate * mac * nenv :=
    match evs with
    | [] => (st, m, e)
    | (ev, ans) :: rest => let '(st', m', e', _) := handle_event enc mac_fn st m e ev ans in nb_run st' m' e' rest
    end.

  Theorem nb_every_transmission_legal : forall evs st m e, mac_ok m -> trace_ok (dev_of m) e ->
    let '(st', m', e') := nb_run st m e evs in
    trace_ok (dev_of m) e' /\ mac_ok m' /\ dev_of m' = dev_of m.
  Proof.
    induction evs as [|[ev ans] rest IH]; intros st m e Hok T; cbn [nb_run]; [split; [exact T|split; [exact Hok|reflexivity]]|].
    destruct (handle_event enc mac_fn st m e ev ans) as [[[st1 m1] e1] r1] eqn:H.
    destruct (nb_step_transmissions_legal _ _ _ _ _ _ _ _ _ H Hok T) as [D1 T1].
    destruct (NbNoPanic.nb_event_never_panics enc mac_fn enc_len mac_len _ _ _ _ _ _ _ _ _ H Hok) as [Hok1 _].
    rewrite <- D1 in T1. specialize (IH st1 m1 e1 Hok1 T1).
    destruct (nb_run st1 m1 e1 rest) as [[st2 m2] e2]. destruct IH as [A [B C]]. rewrite D1 in A, C. split; [exact A|split; [exact B|exact C]].
  Qed.
End NbHist.
