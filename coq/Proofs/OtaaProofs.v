(* Proofs/OtaaProofs.v -- OTAA: JoinRequest contents, join only on an authentic JoinAccept, the session it defines, CFList. *)
From Coq Require Import NArith ZArith List Bool Lia Arith ZifyBool ZifyNat ZifyN.
From LoraV Require Import Base.Bytes Crypto.AES Model.Frame Spec.L2Frame Gen.RegionTables Model.Region Model.Mac
  Proofs.BytesProofs Proofs.FrameProofs Proofs.JoinProofs.
Import ListNotations.
Ltac Zify.zify_post_hook ::= Z.to_euclidean_division_equations.
Local Open Scope nat_scope.

(* ---------------------------------------------------------------- CFList type 0 on a dynamic plan *)
Definition cfl_entry (r : rid) (old : option channel) (f : N) : option channel :=
  if (f =? 0)%N then None
  else if frequency_valid r f then Some {| ch_freq := f; ch_drs := 0x50%N; ch_dl := None |} else old.

Lemma set_nth_opt_length l i v : length (set_nth_opt l i v) = length l.
Proof. revert i; induction l as [|x l IH]; intros [|i]; cbn [set_nth_opt length]; auto. Qed.

Lemma set_nth_opt_nth l i v k : i < length l ->
  nth_error (set_nth_opt l i v) k = if Nat.eqb k i then Some v else nth_error l k.
Proof.
  revert i k; induction l as [|x l IH]; intros i k Hi; [cbn in Hi; lia|].
  destruct i as [|i], k as [|k]; cbn [set_nth_opt nth_error Nat.eqb]; auto.
  apply IH. cbn in Hi. lia.
Qed.

Lemma dyn_cflist_spec r : forall fs chs idx, idx + length fs <= length chs ->
  exists chs', dyn_cflist r chs idx fs = Val chs' /\ length chs' = length chs /\
    forall k, nth_error chs' k =
      if Nat.leb idx k && Nat.ltb k (idx + length fs)
      then option_map (fun old => cfl_entry r old (nth (k - idx) fs 0%N)) (nth_error chs k)
      else nth_error chs k.
Proof.
  induction fs as [|f fs IH]; intros chs idx Hlen.
  - exists chs. split; [reflexivity|]. split; [reflexivity|]. intros k.
    destruct (Nat.leb idx k && Nat.ltb k (idx + length (@nil N))) eqn:E; [|reflexivity]. cbn [length] in E. lia.
  - cbn [length] in Hlen. cbn [dyn_cflist].
    destruct (Nat.ltb idx (length chs)) eqn:E; [|apply Nat.ltb_ge in E; lia]. apply Nat.ltb_lt in E.
    set (chs1 := if (f =? 0)%N then set_nth_opt chs idx None
                 else if frequency_valid r f then set_nth_opt chs idx (Some {| ch_freq := f; ch_drs := 80%N; ch_dl := None |}) else chs).
    assert (Hl1 : length chs1 = length chs).
    { subst chs1. destruct (f =? 0)%N; [apply set_nth_opt_length|]. destruct (frequency_valid r f); [apply set_nth_opt_length|reflexivity]. }
    assert (Hn1 : forall k, nth_error chs1 k = if Nat.eqb k idx then option_map (fun old => cfl_entry r old f) (nth_error chs k) else nth_error chs k).
    { intros k. subst chs1. unfold cfl_entry.
      destruct (nth_error chs idx) as [old|] eqn:Eo; [|apply nth_error_None in Eo; lia].
      destruct (f =? 0)%N.
      - rewrite set_nth_opt_nth by exact E. destruct (Nat.eqb_spec k idx) as [->|]; [rewrite Eo|]; reflexivity.
      - destruct (frequency_valid r f).
        + rewrite set_nth_opt_nth by exact E. destruct (Nat.eqb_spec k idx) as [->|]; [rewrite Eo|]; reflexivity.
        + destruct (Nat.eqb_spec k idx) as [->|]; [rewrite Eo|]; reflexivity. }
    destruct (IH chs1 (S idx)) as [chs' [H1 [H2 H3]]]; [lia|].
    exists chs'. split; [exact H1|]. split; [lia|]. intros k. rewrite H3, !Hn1. cbn [length].
    destruct (Nat.eqb_spec k idx) as [->|Hne].
    + replace (Nat.leb (S idx) idx) with false by (symmetry; apply Nat.leb_gt; lia). cbn [andb].
      replace (Nat.leb idx idx && Nat.ltb idx (idx + S (length fs))) with true
        by (symmetry; apply andb_true_iff; split; [apply Nat.leb_le|apply Nat.ltb_lt]; lia).
      rewrite Nat.sub_diag. reflexivity.
    + destruct (Nat.leb (S idx) k && Nat.ltb k (S idx + length fs)) eqn:E1.
      * replace (Nat.leb idx k && Nat.ltb k (idx + S (length fs))) with true by (symmetry; lia).
        replace (k - idx) with (S (k - S idx)) by lia. reflexivity.
      * replace (Nat.leb idx k && Nat.ltb k (idx + S (length fs))) with false by (symmetry; lia). reflexivity.
Qed.

(* region-level statement: what a JoinAccept's CFList does to the channel plan *)
Definition region_wf (g : region) : Prop :=
  match rg_plan g with
  | PDyn p => length (dp_channels p) = 16 /\ (r_num_join (rg_id g) <= 3)%N
  | PFix _ => True
  end.

Theorem cflist_applied g c : region_wf g ->
  match rg_plan g, c with
  | PDyn p, CflDyn fs => length fs = 5 ->
      exists chs', region_join_accept g c = Val {| rg_id := rg_id g; rg_plan := PDyn {| dp_channels := chs'; dp_mask := dp_mask p |} |} /\
        length chs' = 16 /\
        forall k, nth_error chs' k =
          let j := N.to_nat (r_num_join (rg_id g)) in
          if Nat.leb j k && Nat.ltb k (j + 5)
          then option_map (fun old => cfl_entry (rg_id g) old (nth (k - j) fs 0%N)) (nth_error (dp_channels p) k)
          else nth_error (dp_channels p) k
  | PFix p, CflFix m => region_join_accept g c = Val {| rg_id := rg_id g; rg_plan := PFix {| fp_mask := m; fp_jc := jc_reset (fp_jc p) |} |}
  | PFix p, _ => region_join_accept g c = Val {| rg_id := rg_id g; rg_plan := PFix {| fp_mask := mask_default; fp_jc := fp_jc p |} |}
  | _, _ => region_join_accept g c = Val g
  end.
Proof.
  intros Hwf. unfold region_wf in Hwf. unfold region_join_accept.
  destruct (rg_plan g) as [p|p] eqn:Ep; destruct c as [|fs|m]; try reflexivity.
  intros H5. destruct Hwf as [H16 Hj].
  destruct (dyn_cflist_spec (rg_id g) fs (dp_channels p) (N.to_nat (r_num_join (rg_id g)))) as [chs' [H1 [H2 H3]]]; [lia|].
  exists chs'. rewrite H1. split; [reflexivity|]. split; [lia|]. intros k. rewrite H3, H5. reflexivity.
Qed.

Section OtaaProofs.
  Variable enc dec : list N -> list N -> list N.
  Variable mac_fn : list N -> list N -> list N.
  Hypothesis dec_len : forall k b, length (dec k b) = 16.
  Hypothesis mac_len : forall k m, length (mac_fn k m) = 16.
  Hypothesis enc_dec : forall k b, length b = 16 -> enc k (dec k b) = b.
  Hypothesis enc_len : forall k b, length (enc k b) = 16.

  (* ------------------------------------------------------------ JoinRequest *)
  Theorem join_request_spec m c d rest o :
    join_otaa mac_fn m c (d :: rest) = Val o ->
    to_frame o = spec_join_request mac_fn (cr_appeui c) (cr_deveui c) (d mod 65536) (cr_appkey c) /\
    length (to_frame o) = 23 /\
    m_state (to_mac o) = Otaa (d mod 65536)%N c /\ m_cfg (to_mac o) = m_cfg m /\ to_counter o = (d mod 65536)%N.
  Proof.
    unfold join_otaa. rewrite (build_join_request_spec enc enc mac_fn enc_len mac_len) by (rewrite repeat_length; lia).
    set (X := spec_join_request mac_fn (cr_appeui c) (cr_deveui c) (d mod 65536) (cr_appkey c)).
    assert (L : length X = 23).
    { subst X. unfold spec_join_request. rewrite !app_length, !le_bytes_length, (mic4_length mac_fn mac_len). reflexivity. }
    assert (F : firstn 23 (X ++ skipn 23 (repeat 0%N 256)) = X).
    { rewrite firstn_app, L, Nat.sub_diag, firstn_O, app_nil_r. apply firstn_all2. lia. }
    rewrite F. clearbody X.
    destruct (create_tx_config _ _ _ _) as [[[[[pw0 rf] tc] rg'] rest']| |]; try discriminate.
    destruct (adjust_power _ _ _) as [pw| |]; try discriminate.
    destruct (rx_windows _ _) as [[w1 w2]| |]; try discriminate.
    intros H; injection H as <-. cbn [to_frame to_mac to_counter with_region with_state m_state m_cfg].
    repeat split; auto.
  Qed.

  Theorem join_without_draws m c : join_otaa mac_fn m c [] = OutOfDraws.
  Proof. reflexivity. Qed.

  (* ------------------------------------------------------------ acceptance = authentic JoinAccept *)
  Lemma ecb_enc_length key x : length x = 16 \/ length x = 32 -> length (ecb (enc key) x) = length x.
  Proof. intros [H|H]; unfold ecb; rewrite H; cbn [Nat.div Nat.divmod fst]; rewrite ?app_length, !enc_len; lia. Qed.

  Lemma ja_accept_iff bs key :
    ja_check_mic_and_decrypt enc mac_fn bs key = (Ok tt, spec_ja_clear enc bs key) /\ spec_ja_accepts enc mac_fn bs key = true
    \/ (exists e b, ja_check_mic_and_decrypt enc mac_fn bs key = (Err e, b)) /\ spec_ja_accepts enc mac_fn bs key = false.
  Proof.
    unfold ja_check_mic_and_decrypt, ja_decrypt_in_place, validate_join_accept_structure, check_mhdr, spec_ja_accepts.
    destruct bs as [|mhdr tl].
    - right. split; [eexists; eexists; reflexivity|reflexivity].
    - change (nthN (mhdr :: tl) 0) with mhdr.
      replace (N.land mhdr 3) with (mhdr mod 4)%N by (change 3%N with (N.ones 2); rewrite N.land_ones; reflexivity).
      replace (N.shiftr mhdr 5) with (mhdr / 32)%N by (rewrite N.shiftr_div_pow2; reflexivity).
      destruct (mhdr mod 4 =? 0)%N eqn:E1; cbn [negb andb];
        [|right; rewrite andb_false_r; cbn [andb]; split; [eexists; eexists; reflexivity|reflexivity]].
      destruct (mhdr / 32 =? 1)%N eqn:E2; cbn [negb andb];
        [|right; rewrite !andb_false_r; cbn [andb]; split; [eexists; eexists; reflexivity|reflexivity]].
      destruct (Nat.eqb (length (mhdr :: tl)) 17 || Nat.eqb (length (mhdr :: tl)) 33) eqn:E3; cbn [andb];
        [|right; split; [eexists; eexists; reflexivity|reflexivity]].
      cbn [length] in E3.
      assert (Hx : length tl = 16 \/ length tl = 32) by lia.
      cbn [skipn]. rewrite (map_blocks_ecb (enc key) tl Hx).
      unfold spec_ja_clear, ja_validate_mic, mic_of, calculate_mic.
      change (nthN (mhdr :: tl) 0) with mhdr. cbn [skipn].
      set (clear := [mhdr] ++ ecb (enc key) tl).
      assert (Hl : length clear = length (mhdr :: tl)).
      { subst clear. rewrite app_length, (ecb_enc_length key tl Hx). reflexivity. }
      rewrite Hl.
      destruct (list_eqb _ _) eqn:E4; [left|right]; split; try reflexivity. eexists; eexists; reflexivity.
  Qed.

  (* a frame that is not an authentic JoinAccept changes nothing *)
  Theorem join_rejects m nonce c bytes :
    spec_ja_accepts enc mac_fn bytes (cr_appkey c) = false ->
    exists buf, otaa_handle_rx enc mac_fn m nonce c bytes = Val (m, RNoUpdate, buf).
  Proof.
    intros Hs. destruct (ja_accept_iff bytes (cr_appkey c)) as [[_ H]|[[e [b H]] _]]; [congruence|].
    unfold otaa_handle_rx. rewrite H. eexists; reflexivity.
  Qed.

  Corollary join_rejects_mac m nonce c bytes snr mp :
    m_state m = Otaa nonce c -> spec_ja_accepts enc mac_fn bytes (cr_appkey c) = false ->
    exists buf, mac_handle_rx enc mac_fn m bytes snr mp false
                = Val (Some {| mo_mac := m; mo_resp := RNoUpdate; mo_downlink := None; mo_buf := buf |}).
  Proof.
    intros Hst Hs. unfold mac_handle_rx. rewrite Hst.
    destruct (join_rejects m nonce c bytes Hs) as [buf ->]. eexists; reflexivity.
  Qed.

  (* the join attempt ends in NoJoinAccept, still unjoined; in Class C reception nothing is accepted before the join *)
  Theorem join_window_end m nonce c : m_state m = Otaa nonce c -> mac_rx2_complete m = (m, RNoJoinAccept).
  Proof. intros H. unfold mac_rx2_complete. rewrite H. reflexivity. Qed.
  Theorem unjoined_ignores m bytes snr mp :
    (forall s, m_state m <> Joined s) -> mac_handle_rx enc mac_fn m bytes snr mp true = Val None.
  Proof. intros H. unfold mac_handle_rx. destruct (m_state m) as [s| |]; [destruct (H s); reflexivity| |]; reflexivity. Qed.

  (* ------------------------------------------------------------ the session an authentic JoinAccept defines *)
  Definition join_cfg (r : rid) (cf : configuration) (dls rxd : N) : configuration :=
    {| cf_data_rate := cf_data_rate cf;
       cf_rx1_delay := (if (2 <=? rxd)%N && (rxd <=? 15)%N then rxd * 1000 else 1000)%N;
       cf_tx_power := cf_tx_power cf;
       cf_rx1_dr_offset := (if ((dls / 16) mod 8 <=? r_max_rx1_off r)%N then (dls / 16) mod 8 else cf_rx1_dr_offset cf)%N;
       cf_rx2_data_rate := match get_datarate r (dls mod 16) with Some _ => Some (dls mod 16)%N | None => cf_rx2_data_rate cf end;
       cf_rx2_frequency := cf_rx2_frequency cf; cf_adr := cf_adr cf |}.

  Definition join_cflist (clear : list N) : cfl :=
    match ja_c_f_list clear with
    | None => CflNone
    | Some (CfDynamic fs) => CflDyn (map (fun f => (f * 100)%N) fs)
    | Some (CfFixed mk) => CflFix mk
    end.

  Theorem join_accepts m nonce c bytes rg' :
    spec_ja_accepts enc mac_fn bytes (cr_appkey c) = true ->
    let clear := spec_ja_clear enc bytes (cr_appkey c) in
    region_join_accept (m_region m) (join_cflist clear) = Val rg' ->
    otaa_handle_rx enc mac_fn m nonce c bytes
    = Val ({| m_cfg := join_cfg (rg_id (m_region m)) (m_cfg m) (ja_dl_settings clear) (ja_rx_delay clear);
              m_region := rg'; m_max_power := m_max_power m; m_gain := m_gain m;
              m_state := Joined {| ss_pending := []; ss_owed_ack := false; ss_confirmed := false;
                                   ss_nwkskey := enc (cr_appkey c) ([1%N] ++ slice clear 1 4 ++ slice clear 4 7 ++ le_bytes 2 nonce ++ repeat 0%N 7);
                                   ss_appskey := enc (cr_appkey c) ([2%N] ++ slice clear 1 4 ++ slice clear 4 7 ++ le_bytes 2 nonce ++ repeat 0%N 7);
                                   ss_devaddr := ja_dev_addr clear; ss_fcnt_up := 0; ss_fcnt_down := None; ss_adr_ack_cnt := 0 |} |},
           RJoinSuccess, clear).
  Proof.
    intros Hs clear Hrg. destruct (ja_accept_iff bytes (cr_appkey c)) as [[H _]|[_ H]]; [|congruence].
    unfold otaa_handle_rx. rewrite H. fold clear. fold (join_cflist clear). rewrite Hrg.
    unfold join_cfg, del_to_delay_ms, rx1_dr_offset_validate, session_new, derive_session_key.
    replace (N.land (N.shiftr (ja_dl_settings clear) 4) 7) with ((ja_dl_settings clear / 16) mod 8)%N
      by (rewrite N.shiftr_div_pow2; change 7%N with (N.ones 3); rewrite N.land_ones; reflexivity).
    replace (N.land (ja_dl_settings clear) 15) with (ja_dl_settings clear mod 16)%N
      by (change 15%N with (N.ones 4); rewrite N.land_ones; reflexivity).
    destruct ((ja_dl_settings clear / 16) mod 8 <=? r_max_rx1_off (rg_id (m_region m)))%N; reflexivity.
  Qed.

  (* for the JoinAccept a network builds per the specification: keys, address, counters, delay *)
  Theorem join_session_of_spec_accept m nonce c jn nid da dls rxd cfl0 rg' :
    wf_cflist cfl0 -> (jn < 2 ^ 24)%N -> (nid < 2 ^ 24)%N -> (da < 2 ^ 32)%N ->
    let key := cr_appkey c in
    let bytes := spec_join_accept dec mac_fn jn nid da dls rxd cfl0 key in
    let clear := spec_join_accept_clear mac_fn jn nid da dls rxd cfl0 key in
    region_join_accept (m_region m) (join_cflist clear) = Val rg' ->
    exists m', otaa_handle_rx enc mac_fn m nonce c bytes = Val (m', RJoinSuccess, clear) /\
      m_state m' = Joined (session_new (spec_session_key enc 1 jn nid nonce key) (spec_session_key enc 2 jn nid nonce key) da) /\
      m_cfg m' = join_cfg (rg_id (m_region m)) (m_cfg m) dls (rxd mod 16) /\ m_region m' = rg'.
  Proof.
    intros Hwf Hjn Hnid Hda key bytes clear Hrg.
    pose proof (ja_roundtrip enc dec mac_fn dec_len mac_len enc_dec jn nid da dls rxd cfl0 key Hwf) as Hrt.
    cbv zeta in Hrt. fold bytes clear in Hrt.
    destruct (ja_fields enc dec mac_fn dec_len mac_len enc_dec jn nid da dls rxd cfl0 key Hwf Hjn Hnid Hda) as [F1 [F2 [F3 [F4 F5]]]].
    fold clear in F1, F2, F3, F4, F5.
    unfold otaa_handle_rx. fold key. rewrite Hrt. fold (join_cflist clear). rewrite Hrg.
    eexists. split; [reflexivity|]. cbn [m_state m_cfg m_region].
    rewrite F3, F4, F5. split; [|split; [|reflexivity]].
    - unfold clear, key. rewrite !(derive_keys_spec enc mac_fn). reflexivity.
    - unfold join_cfg, del_to_delay_ms, rx1_dr_offset_validate.
      replace (N.land (N.shiftr dls 4) 7) with ((dls / 16) mod 8)%N
        by (rewrite N.shiftr_div_pow2; change 7%N with (N.ones 3); rewrite N.land_ones; reflexivity).
      replace (N.land dls 15) with (dls mod 16)%N by (change 15%N with (N.ones 4); rewrite N.land_ones; reflexivity).
      destruct ((dls / 16) mod 8 <=? r_max_rx1_off (rg_id (m_region m)))%N; reflexivity.
  Qed.
End OtaaProofs.

(* the initial channel plan of every region satisfies region_wf, and a JoinAccept preserves it *)
Lemma region_new_wf r : (r < 9)%N -> region_wf (region_new r).
Proof.
  intros H. assert (E : forallb (fun r => match rg_plan (region_new r) with
                                          | PDyn p => Nat.eqb (length (dp_channels p)) 16 && (r_num_join (rg_id (region_new r)) <=? 3)%N
                                          | PFix _ => true end) (map N.of_nat (seq 0 9)) = true) by (vm_compute; reflexivity).
  rewrite forallb_forall in E. specialize (E r).
  assert (Hin : In r (map N.of_nat (seq 0 9))).
  { apply in_map_iff. exists (N.to_nat r). split; [lia|]. apply in_seq. lia. }
  specialize (E Hin). unfold region_wf. destruct (rg_plan (region_new r)); [|exact I].
  apply andb_true_iff in E. destruct E as [E1 E2]. split; [apply Nat.eqb_eq, E1|apply N.leb_le, E2].
Qed.

Lemma region_join_accept_wf g c g' : region_wf g -> (match c with CflDyn fs => length fs = 5 | _ => True end) ->
  region_join_accept g c = Val g' -> region_wf g'.
Proof.
  intros Hwf Hc H. pose proof (cflist_applied g c Hwf) as S. unfold region_wf in *.
  destruct (rg_plan g) as [p|p] eqn:Ep; destruct c as [|fs|m].
  - rewrite S in H. injection H as <-. rewrite Ep. exact Hwf.
  - destruct (S Hc) as [chs' [S1 [S2 _]]]. rewrite S1 in H. injection H as <-. cbn [rg_plan rg_id]. split; [exact S2|apply Hwf].
  - rewrite S in H. injection H as <-. rewrite Ep. exact Hwf.
  - rewrite S in H. injection H as <-. exact I.
  - rewrite S in H. injection H as <-. exact I.
  - rewrite S in H. injection H as <-. exact I.
Qed.
