(* Proofs/ReachProofs.v -- every session a device can reach is representable (session_wf): the pending answers stay whole bytes
   within 15, counters stay 32-bit.  Used by C20 ("a snapshot at every step of any history") together with restore_roundtrip. *)
From Coq Require Import ZArith NArith List Bool Lia Arith ZifyBool ZifyNat ZifyN.
From LoraV Require Import Base.Bytes Crypto.AES Model.Frame Model.MacCmd Gen.CmdTables Gen.RegionTables Model.Region Model.Mac Model.Persist
  Proofs.BytesProofs Proofs.MacCmdProofs Proofs.FcntProofs Proofs.PersistProofs.
Import ListNotations.
Ltac Zify.zify_post_hook ::= Z.to_euclidean_division_equations.
Local Open Scope nat_scope.

Definition pending_ok (l : list N) : Prop := length l <= 15 /\ bytes_ok l = true.

Lemma push_answer_wf pf cmd : pending_ok (fst pf) -> 1 <= length cmd -> bytes_ok cmd = true -> pending_ok (fst (push_answer pf cmd)).
Proof.
  intros [Hl Hb] Hc Hcb. destruct pf as [p full]. unfold push_answer, fits. cbn [fst] in *.
  destruct full; [split; assumption|]. destruct (Nat.ltb _ _) eqn:E; [|split; assumption].
  apply Nat.ltb_lt in E. cbn [fst]. split; [rewrite app_length; lia|]. rewrite bytes_ok_app, Hb, Hcb. reflexivity.
Qed.

Lemma bitsN_lt8 a b c : (bitsN a b c < 8)%N.
Proof. unfold bitsN. destruct a, b, c; cbn; lia. Qed.

Lemma fold_push_wf ans : 1 <= length ans -> bytes_ok ans = true -> forall l pf, pending_ok (fst pf) ->
  pending_ok (fst (fold_left (fun acc (_ : nat) => push_answer acc ans) l pf)).
Proof.
  intros Ha Hb. induction l as [|x l IH]; intros pf H; [exact H|]. cbn [fold_left]. apply IH. apply push_answer_wf; assumption.
Qed.

Local Opaque push_answer N.shiftr N.land.

Theorem handle_cmd_pending snr h cid p nx h' : pending_ok (h_pending h) ->
  handle_cmd snr h cid p nx = Val h' -> pending_ok (h_pending h').
Proof.
  intros Hp. unfold handle_cmd. cbv zeta.
  assert (B8 : forall a b c x, bytes_ok [x; bitsN a b c] = (x <? 256)%N).
  { intros a b c x. cbn [bytes_ok forallb]. unfold byte_ok. pose proof (bitsN_lt8 a b c). destruct (x <? 256)%N; lia. }
  destruct (N.eq_dec cid 6) as [->|N6].
  { intros H. injection H as <-. cbn [h_pending]. apply push_answer_wf; [exact Hp|cbn; lia|].
    cbn [bytes_ok forallb]. unfold byte_ok.
    destruct ((snr <? -32) || (31 <? snr))%Z; [reflexivity|].
    assert (N.shiftr (Z.to_N ((snr * 4) mod 256)) 2 < 256)%N by (rewrite N.shiftr_div_pow2; change (2 ^ 2)%N with 4%N; lia). lia. }
  destruct (N.eq_dec cid 10) as [->|N10].
  { destruct (rg_plan (h_rg h)); [|intros H; injection H as <-; exact Hp].
    destruct (dyn_dl_update _ _ _ _) as [pl' [af ac]]. intros H. injection H as <-. cbn [h_pending].
    apply push_answer_wf; [exact Hp|cbn; lia|rewrite B8; reflexivity]. }
  destruct (N.eq_dec cid 8) as [->|N8].
  { intros H. injection H as <-. cbn [h_pending]. apply push_answer_wf; [exact Hp|cbn; lia|reflexivity]. }
  destruct (N.eq_dec cid 5) as [->|N5].
  { intros H. injection H as <-. cbn [h_pending]. apply push_answer_wf; [exact Hp|cbn; lia|rewrite B8; reflexivity]. }
  destruct (N.eq_dec cid 7) as [->|N7].
  { destruct (rg_plan (h_rg h)); [|intros H; injection H as <-; exact Hp].
    destruct (dyn_new_channel _ _ _ _ _) as [[pl' [af ad]]| |]; try (intros H; discriminate).
    intros H. injection H as <-. cbn [h_pending]. apply push_answer_wf; [exact Hp|cbn; lia|rewrite B8; reflexivity]. }
  destruct (N.eq_dec cid 3) as [->|N3].
  2: { assert (Hd : handle_cmd snr h cid p nx = Val h).
       { unfold handle_cmd. cbv zeta.
         destruct cid as [|[[[[|[]|]|[[]|[]|]|]|[[[]|[]|]|[[]|[]|]|]|]|[[[|[]|]|[[]|[]|]|]|[[[]|[]|]|[[]|[]|]|]|]|]]; try reflexivity; exfalso; lia. }
       unfold handle_cmd in Hd. cbv zeta in Hd. rewrite Hd. intros H. injection H as <-. exact Hp. }
  destruct (region_mask_update _ _ _ _ _) as [mo| |]; try (intros H; discriminate).
  destruct (match mo with Some m' => (m', h_known h) | None => (h_mask h, false) end) as [msk known].
  destruct nx; [intros H; injection H as <-; exact Hp|].
  destruct (region_mask_validate _ _ _) as [vok| |]; try (intros H; discriminate).
  match goal with |- context [fold_left _ _ (h_pf h)] => idtac end.
  destruct (known && vok); destruct (if (N.shiftr (nthN p 0) 4 =? 15)%N then _ else _); destruct (if (N.land (nthN p 0) 15 =? 15)%N then _ else _);
    intros H; injection H as <-; cbn [h_pending]; (apply fold_push_wf; [cbn; lia|rewrite B8; reflexivity|first [exact Hp | apply push_answer_wf; [exact Hp|cbn; lia|rewrite B8; reflexivity]]]).
Qed.

Theorem handle_cmds_pending snr : forall items h h', pending_ok (h_pending h) -> handle_cmds snr h items = Val h' -> pending_ok (h_pending h').
Proof.
  induction items as [|it rest IH]; intros h h' Hp H; [injection H as <-; exact Hp|].
  destruct it as [cid p| |]; cbn [handle_cmds] in H; try (injection H as <-; exact Hp).
  destruct (handle_cmd snr h cid p _) as [h1| |] eqn:E; try discriminate.
  exact (IH h1 h' (handle_cmd_pending _ _ _ _ _ _ Hp E) H).
Qed.

Theorem handle_downlink_macs_pending snr cf rg pending bytes cf' rg' pend' : pending_ok pending ->
  handle_downlink_macs snr cf rg pending bytes = Val (cf', rg', pend') -> pending_ok pend'.
Proof.
  intros Hp. unfold handle_downlink_macs.
  destruct (handle_cmds snr _ _) as [h| |] eqn:E; try (intros H; discriminate). intros H. injection H as _ _ <-.
  apply (handle_cmds_pending snr _ _ _) with (2 := E). exact Hp.
Qed.

Local Transparent push_answer N.shiftr N.land.

(* clear_mac_commands(true): what is retained is made of whole commands taken from the queue *)
Lemma retain_acks_wf pending : pending_ok pending -> pending_ok (retain_acks pending).
Proof.
  intros [Hl Hb]. unfold retain_acks.
  destruct (parse_all_total_and_shaped ul_mac_table pending) as [Hs _].
  destruct (shaped_prefix _ _ Hs) as [rest Hr].
  set (g := fun it => match it with IOk cid p => if ((cid =? 10) || (cid =? 5) || (cid =? 8))%N then cid :: p else [] | _ => [] end).
  assert (G : forall items data, well_shaped items data ->
              length (flat_map g items) <= length (raw_of items) /\ (bytes_ok (raw_of items) = true -> bytes_ok (flat_map g items) = true)).
  { induction 1 as [r|e r|cid p items r H IH]; try (split; [cbn; lia|reflexivity]).
    cbn [flat_map raw_of]. rewrite !app_length. destruct IH as [I1 I2]. split.
    - unfold g at 1. destruct ((cid =? 10) || (cid =? 5) || (cid =? 8))%N; cbn [length]; rewrite ?app_length; lia.
    - intros Hb0. change (cid :: p ++ raw_of items) with ((cid :: p) ++ raw_of items) in Hb0. rewrite bytes_ok_app in Hb0.
      apply andb_true_iff in Hb0. destruct Hb0 as [B1 B2]. rewrite bytes_ok_app, (I2 B2), andb_true_r.
      unfold g. destruct ((cid =? 10) || (cid =? 5) || (cid =? 8))%N; [exact B1|reflexivity]. }
  destruct (G _ _ Hs) as [G1 G2]. fold g.
  assert (Hraw : length (raw_of (parse_all ul_mac_table pending)) <= length pending /\ bytes_ok (raw_of (parse_all ul_mac_table pending)) = true).
  { rewrite Hr in Hl, Hb. rewrite app_length in Hl. rewrite bytes_ok_app in Hb. apply andb_true_iff in Hb.
    split; [rewrite Hr at 2; rewrite app_length; lia|tauto]. }
  split; [lia|apply G2; tauto].
Qed.

(* ------------------------------------------------------------------ session_wf is kept by every session operation *)
Lemma session_new_wf nwk app addr : length nwk = 16 -> bytes_ok nwk = true -> length app = 16 -> bytes_ok app = true -> (addr < 2 ^ 32)%N ->
  session_wf (session_new nwk app addr).
Proof. intros. unfold session_wf, session_new. cbn. repeat split; try assumption; lia. Qed.

Lemma rx2_complete_wf s cf r : session_wf s -> session_wf (fst (fst (rx2_complete_session s cf r))).
Proof.
  intros [P1 [P2 [K1 [K2 [A1 [A2 [D [U [C F]]]]]]]]]. unfold rx2_complete_session.
  destruct (ss_fcnt_up s =? 4294967295)%N eqn:E; [repeat split; assumption|].
  change (2 ^ 32)%N with 4294967296%N in *.
  destruct (cf_adr cf).
  - destruct ((c_adr_ack_limit + c_adr_ack_delay <=? _)%N && _); [destruct (next_lower_datarate r (cf_data_rate cf))|];
      cbn [fst]; unfold session_wf; cbn [ss_pending ss_nwkskey ss_appskey ss_devaddr ss_fcnt_up ss_adr_ack_cnt ss_fcnt_down];
      change (2 ^ 32)%N with 4294967296%N; repeat split; try assumption; lia.
  - cbn [fst]. unfold session_wf. cbn [ss_pending ss_nwkskey ss_appskey ss_devaddr ss_fcnt_up ss_adr_ack_cnt ss_fcnt_down].
    change (2 ^ 32)%N with 4294967296%N. repeat split; try assumption; lia.
Qed.

Section Reach.
  Variable enc : list N -> list N -> list N.
  Variable mac_fn : list N -> list N -> list N.

  Lemma prepare_buffer_wf s cf r data fport confirmed s' fcnt frame : session_wf s ->
    prepare_buffer enc mac_fn s cf r data fport confirmed = Val (s', fcnt, frame) -> session_wf s'.
  Proof.
    intros [P1 [P2 [K1 [K2 [A1 [A2 [D [U [C F]]]]]]]]]. unfold prepare_buffer. cbv zeta.
    destruct ((fport =? 0)%N && _); [discriminate|]. destruct (build_data _ _ _ _ _ _) as [[buf len]|e]; [|discriminate].
    destruct (Nat.ltb len 256); [|discriminate]. intros H. injection H as <- _ _.
    destruct (retain_acks_wf (ss_pending s) (conj P1 P2)) as [R1 R2].
    unfold session_wf. cbn [ss_pending ss_nwkskey ss_appskey ss_devaddr ss_fcnt_up ss_adr_ack_cnt ss_fcnt_down]. repeat split; assumption.
  Qed.

  (* a received frame is a string of bytes *)
  Lemma handle_rx_session_wf s cf rg bytes mp snr im o : session_wf s -> bytes_ok bytes = true ->
    handle_rx_session enc mac_fn s cf rg bytes mp snr im = Val o -> session_wf (ro_session o).
  Proof.
    intros Hwf Hbytes. pose proof Hwf as [P1 [P2 [K1 [K2 [A1 [A2 [D [U [C F]]]]]]]]]. unfold handle_rx_session. cbv zeta.
    destruct (validate bytes) as [lay|e]; [|intros H; injection H as <-; exact Hwf].
    destruct (Nat.ltb _ (length bytes)).
    { destruct im; [intros H; injection H as <-; exact Hwf|].
      pose proof (rx2_complete_wf s cf (rg_id rg) Hwf) as R. destruct (rx2_complete_session s cf (rg_id rg)) as [[s1 cf1] resp]. cbn [fst] in R.
      intros H. injection H as <-. exact R. }
    destruct (next_fcnt_down (ss_fcnt_down s) (v_fcnt bytes)) as [fcnt|] eqn:En; [|intros H; injection H as <-; exact Hwf].
    destruct (negb _); [intros H; injection H as <-; exact Hwf|].
    destruct (decrypt_in_place _ _ _ _ _) as [[lay'|e] buf]; [|intros H; discriminate].
    assert (Hw : (v_fcnt bytes < 65536)%N).
    { unfold v_fcnt, nthN. assert (Hb : forall i, (nth i bytes 0 < 256)%N).
      { intros i. destruct (nth_in_or_default i bytes 0%N) as [Hin| ->]; [|lia].
        unfold bytes_ok in Hbytes. rewrite forallb_forall in Hbytes. specialize (Hbytes _ Hin). unfold byte_ok in Hbytes. lia. }
      pose proof (Hb 6). pose proof (Hb 7). lia. }
    assert (Hf : (fcnt < 2 ^ 32)%N).
    { change (2 ^ 32)%N with 4294967296%N in *. destruct (ss_fcnt_down s) as [last|].
      - apply (nfd_spec last (v_fcnt bytes) fcnt F Hw) in En. lia.
      - rewrite nfd_first in En. injection En as <-. lia. }
    set (pend0 := if im then ss_pending s else []).
    assert (Hp0 : pending_ok pend0) by (subst pend0; destruct im; [split; assumption|split; [cbn; lia|reflexivity]]).
    assert (Hstep : forall step1 cf1 rg1 pend1, step1 = Val (cf1, rg1, pend1) ->
              step1 = (if im then Val (cf, rg, pend0) else handle_downlink_macs snr cf rg pend0 (v_f_opts buf lay')) -> pending_ok pend1).
    { intros step1 cf1 rg1 pend1 E1 E2. rewrite E2 in E1. destruct im; [injection E1 as _ _ <-; exact Hp0|].
      exact (handle_downlink_macs_pending _ _ _ _ _ _ _ _ Hp0 E1). }
    destruct (if im then Val (cf, rg, pend0) else handle_downlink_macs snr cf rg pend0 (v_f_opts buf lay')) as [[[cf1 rg1] pend1]| |] eqn:E1;
      try (intros H; discriminate).
    pose proof (Hstep _ cf1 rg1 pend1 eq_refl eq_refl) as Hp1.
    assert (Hp2 : forall cf2 rg2 pend2,
              match im, v_f_port buf lay' with
              | false, Some 0%N => handle_downlink_macs snr cf1 rg1 pend1 (v_frm buf lay')
              | _, _ => Val (cf1, rg1, pend1) end = Val (cf2, rg2, pend2) -> pending_ok pend2).
    { intros cf2 rg2 pend2. destruct im; [intros H; injection H as _ _ <-; exact Hp1|].
      destruct (v_f_port buf lay') as [[|pt]|]; [|intros H; injection H as _ _ <-; exact Hp1|intros H; injection H as _ _ <-; exact Hp1].
      intros H. exact (handle_downlink_macs_pending _ _ _ _ _ _ _ _ Hp1 H). }
    destruct (match im, v_f_port buf lay' with
              | false, Some 0%N => handle_downlink_macs snr cf1 rg1 pend1 (v_frm buf lay')
              | _, _ => Val (cf1, rg1, pend1) end) as [[[cf2 rg2] pend2]| |] eqn:E2; try (intros H; discriminate).
    destruct (Hp2 cf2 rg2 pend2 eq_refl) as [Q1 Q2].
    intros H. injection H as <-. unfold session_wf. cbn [ro_session ss_pending ss_nwkskey ss_appskey ss_devaddr ss_fcnt_up ss_adr_ack_cnt ss_fcnt_down].
    change (2 ^ 32)%N with 4294967296%N in *.
    destruct (ss_fcnt_up s =? 4294967295)%N eqn:Ee; repeat split; try assumption; lia.
  Qed.
End Reach.
