(* Extract/Extract.v -- extraction of the executable models and specs to OCaml.
   Only ExtrOcamlBasic is used: bool, option, list, prod, unit, sumbool are mapped
   to OCaml's own types; positive / N / Z / nat stay Coq's inductive types.
   No Extract Constant, no further Extract Inductive. *)
From Coq Require Import ExtrOcamlBasic.
From LoraV Require Import Base.Prelude Model.Toa Spec.Airtime Model.Ldro Spec.LdroSpec.
Extraction Language OCaml.
Extraction "model.ml"
  Toa.toa_us Toa.toa_safe Toa.ldro Toa.t_sym_us Toa.bw_hz
  Toa.delay_in_symbols Toa.delay_in_symbols_safe Toa.symbols_to_ms Toa.symbols_to_ms_safe
  Airtime.airtime_us
  Ldro.ldro_outcome LdroSpec.ldro_required.
