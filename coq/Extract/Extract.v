(* Extract/Extract.v -- extraction of the executable models and specs to OCaml.
   Only ExtrOcamlBasic is used: bool, option, list, prod, unit, sumbool are mapped
   to OCaml's own types; positive / N / Z / nat stay Coq's inductive types.
   No Extract Constant, no further Extract Inductive. *)
From Coq Require Import ExtrOcamlBasic.
From LoraV Require Import Base.Prelude Model.Toa Spec.Airtime Model.Ldro Spec.LdroSpec
  Base.Bytes Crypto.AES Crypto.CMAC Model.Frame Spec.L2Frame Model.Exec Model.MacCmd Gen.CmdTables Model.MacFields Model.Region Model.Mac Model.Persist Gen.PhyTables Model.PhyCore Model.Sx126x Model.Sx127x Model.LoraDrv Model.LoraKinds Spec.ChipMon Model.AsyncDev Model.NbDev.
Extraction Language OCaml.
Extraction "model.ml"
  Toa.toa_us Toa.toa_safe Toa.ldro Toa.t_sym_us Toa.bw_hz
  Toa.delay_in_symbols Toa.delay_in_symbols_safe Toa.symbols_to_ms Toa.symbols_to_ms_safe
  Airtime.airtime_us
  Ldro.ldro_outcome LdroSpec.ldro_required
  AES.aes_encrypt AES.aes_decrypt CMAC.aes_cmac
  Exec.x_build_data Exec.x_build_join_request Exec.x_build_join_accept Exec.x_validate Exec.x_validate_mic
  Exec.x_decrypt_in_place Exec.x_check_mic_and_decrypt Exec.x_parse_phy Exec.x_parse_join_request
  Exec.x_jr_validate_mic Exec.x_ja_decrypt_in_place Exec.x_ja_check_mic_and_decrypt Exec.x_ja_validate_mic
  Exec.x_derive_session_key Exec.x_spec_data Exec.x_spec_join_request Exec.x_spec_join_accept
  Exec.x_spec_session_key Exec.x_spec_mic Exec.x_wf_wire
  Frame.v_dev_addr Frame.v_fctrl Frame.v_fcnt Frame.v_f_opts Frame.v_f_port Frame.v_frm Frame.mic_of
  Frame.fc_adr Frame.fc_adr_ack_req Frame.fc_ack Frame.fc_f_pending Frame.fc_f_opts_len
  Frame.ja_join_nonce Frame.ja_net_id Frame.ja_dev_addr Frame.ja_dl_settings Frame.ja_rx_delay Frame.ja_c_f_list
  Bytes.le_value Bytes.le_bytes
  MacCmd.chmask_new MacCmd.fixed_new MacCmd.mcstatus_new MacCmd.mcstatus_mask MacCmd.mcstatus_total MacCmd.mcstatus_items
  MacCmd.parse_all CmdTables.dl_mac_table CmdTables.ul_mac_table CmdTables.dl_dut_table CmdTables.ul_dut_table
  CmdTables.dl_mc_table CmdTables.ul_mc_table
  MacFields.cr_new MacFields.mc_set MacFields.mc_build MacFields.mc_get MacFields.to_hex_msb MacFields.from_hex_msb
  Exec.x_join_otaa Exec.x_send Exec.x_mac_handle_rx Exec.x_mac_rx2_complete Exec.x_rxc_config Exec.x_next_fcnt_down
  Mac.dl_queue_push Mac.mac_new Mac.session_new Mac.set_adr Mac.set_datarate Mac.get_rx_delay Mac.with_state Mac.with_region Region.jc_default Region.region_new
  Persist.ser_session Persist.de_session Persist.restore
  PhyCore.run PhyCore.set_nthN PhyTables.sx1261_pa_table PhyTables.sx1262_pa_table PhyTables.stm32wl_hp_pa_table
  Sx126x.init_lora_126 Sx126x.sync_word_write Sx126x.set_standby_126 Sx126x.set_sleep_126 Sx126x.ensure_ready_126 Sx126x.set_buffer_base
  Sx126x.set_tx_power_126 Sx126x.create_mod_126 Sx126x.set_mod_126 Sx126x.create_pkt_preamble_126 Sx126x.set_pkt_126 Sx126x.calibrate_image_126
  Sx126x.set_channel_126 Sx126x.set_payload_126 Sx126x.do_tx_126 Sx126x.do_rx_126 Sx126x.get_rx_payload_126 Sx126x.pkt_status_126
  Sx126x.get_rssi_126 Sx126x.do_cad_126 Sx126x.set_irq_126 Sx126x.set_cw_126 Sx126x.clear_irq_126 Sx126x.get_irq_state_126 Sx126x.process_irq_126
  Sx126x.pll_step_126 Sx126x.symb_timeout_126 Sx126x.pa_lookup
  Sx127x.init_lora_127 Sx127x.set_sync_127 Sx127x.set_standby_127 Sx127x.set_sleep_127 Sx127x.reset_127 Sx127x.set_buffer_base_127
  Sx127x.set_tx_power_127 Sx127x.create_mod_127 Sx127x.create_pkt_127 Sx127x.set_mod_127 Sx127x.set_pkt_127 Sx127x.set_channel_127
  Sx127x.set_payload_127 Sx127x.do_tx_127 Sx127x.do_rx_127 Sx127x.get_rx_payload_127 Sx127x.pkt_status_127 Sx127x.get_rssi_127
  Sx127x.do_cad_127 Sx127x.set_irq_127 Sx127x.get_irq_state_127 Sx127x.process_irq_127 Sx127x.set_cw_127 Sx127x.clear_irq_127
  Sx127x.pll_step_127 Sx127x.pll_to_freq_127
  LoraKinds.kind126 LoraKinds.kind127 LoraDrv.initial_fields LoraDrv.dec_mode LoraDrv.init LoraDrv.sleep LoraDrv.enter_standby
  LoraDrv.set_lora_sync_word LoraDrv.prepare_for_tx LoraDrv.tx LoraDrv.prepare_for_rx LoraDrv.start_rx LoraDrv.complete_rx LoraDrv.rx
  LoraDrv.get_rx_result LoraDrv.rx_switch_channel LoraDrv.listen LoraDrv.prepare_for_cad LoraDrv.cad LoraDrv.process_irq_event
  LoraDrv.wait_for_irq LoraDrv.lw_tx LoraDrv.lw_setup_rx LoraDrv.lw_low_power LoraDrv.adapter_symbols PhyCore.attempt
  ChipMon.mon_op ChipMon.power_on ChipMon.all_items ChipMon.item_tag
  Exec.x_adev_send Exec.x_adev_join Exec.x_adev_listen AsyncDev.fcnt_up_of Exec.x_nb_handle_event.
