(* Base/Tactics.v -- arithmetic automation set-up shared by proof files. *)
From Coq Require Export ZArith NArith List Bool Lia ZifyBool ZifyNat ZifyN.
From LoraV Require Export Base.Prelude.

(* lia/nia understand /, mod (floor) and quot, rem (truncating) *)
Ltac Zify.zify_post_hook ::= Z.to_euclidean_division_equations.

Lemma quot_div_nonneg a b : 0 <= a -> 0 < b -> Z.quot a b = a / b.
Proof. intros; apply Z.quot_div_nonneg; lia. Qed.

Lemma andb_true_split a b : a && b = true <-> a = true /\ b = true.
Proof. apply andb_true_iff. Qed.

Ltac split_andb :=
  repeat match goal with
  | H : _ && _ = true |- _ => apply andb_true_iff in H; destruct H
  | |- _ && _ = true => apply andb_true_iff; split
  end.
