(* Base/Bytes.v -- byte strings as list N; little/big-endian (de)composition. *)
From Coq Require Export NArith List Bool.
Export ListNotations.
Open Scope N_scope.

Definition byte_ok (b : N) : bool := b <? 256.
Definition bytes_ok (l : list N) : bool := forallb byte_ok l.

Fixpoint le_bytes (n : nat) (v : N) : list N :=
  match n with O => [] | S k => (v mod 256) :: le_bytes k (v / 256) end.
Fixpoint le_value (l : list N) : N :=
  match l with [] => 0 | b :: r => b + 256 * le_value r end.
Definition be_bytes (n : nat) (v : N) : list N := rev (le_bytes n v).
Definition be_value (l : list N) : N := le_value (rev l).

Definition slice (l : list N) (a b : nat) : list N := firstn (b - a) (skipn a l).
Definition nthN (l : list N) (i : nat) : N := nth i l 0.

Fixpoint list_eqb (a b : list N) : bool :=
  match a, b with
  | [], [] => true
  | x :: a', y :: b' => (x =? y) && list_eqb a' b'
  | _, _ => false
  end.

Definition lenN (l : list N) : N := N.of_nat (length l).
