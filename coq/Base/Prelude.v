(* Base/Prelude.v -- shared imports and small numeric helpers.  Models use Z for
   Rust integers (with explicit wrap / range checks) and N for bytes. *)
From Coq Require Export ZArith NArith List Bool Lia.
Export ListNotations.
Open Scope Z_scope.

Definition u8_max  : Z := 255.
Definition u16_max : Z := 65535.
Definition u32_max : Z := 4294967295.
Definition i32_min : Z := -2147483648.
Definition i32_max : Z := 2147483647.

Definition in_u8  (x : Z) : bool := (0 <=? x) && (x <=? u8_max).
Definition in_u16 (x : Z) : bool := (0 <=? x) && (x <=? u16_max).
Definition in_u32 (x : Z) : bool := (0 <=? x) && (x <=? u32_max).
Definition in_i32 (x : Z) : bool := (i32_min <=? x) && (x <=? i32_max).
Definition in_i8  (x : Z) : bool := (-128 <=? x) && (x <=? 127).

Definition wrap_u8  (x : Z) : Z := x mod 256.
Definition wrap_u16 (x : Z) : Z := x mod 65536.
Definition wrap_u32 (x : Z) : Z := x mod 4294967296.
Definition wrap_i8  (x : Z) : Z := (x + 128) mod 256 - 128.
Definition wrap_i16 (x : Z) : Z := (x + 32768) mod 65536 - 32768.
Definition wrap_i32 (x : Z) : Z := (x + 2147483648) mod 4294967296 - 2147483648.

(* ceil(a/b) for b > 0 in exact integer arithmetic (floor division underneath). *)
Definition cdiv (a b : Z) : Z := - ((- a) / b).
