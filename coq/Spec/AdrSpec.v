(* Spec/AdrSpec.v -- LoRaWAN 1.0.x uplink header bits and ADR back-off (L2 1.0.4 section 4.3.1.1 ADR, 4.3.1.2 ACK),
   as an abstract state machine over (adr_on, since_dl, ack_owed, dr):
     * every data uplink: ADR bit = adr_on; ACK bit = ack_owed (then cleared); ADRACKReq = adr_on /\ since_dl >= ADR_ACK_LIMIT (64)
       /\ a lower region-defined data rate exists;
     * an uplink concluded without an accepted downlink (adr_on): since_dl += 1, and when since_dl reaches
       ADR_ACK_LIMIT + k * ADR_ACK_DELAY (96, 128, ...) the data rate steps to the next lower region-defined rate (if any);
     * any accepted downlink: since_dl := 0; a confirmed one sets ack_owed. *)
From Coq Require Import NArith List Bool.
Import ListNotations.
Open Scope N_scope.

Record adr_state := { a_on : bool; a_since : N; a_ack : bool; a_dr : N }.

Section Adr.
  Variable defined : N -> bool.          (* region-defined data rates *)

  (* the next lower defined data rate: greatest d < dr with defined d *)
  Definition is_next_lower (dr : N) (o : option N) : Prop :=
    match o with
    | Some d => d < dr /\ defined d = true /\ forall e, d < e -> e < dr -> defined e = false
    | None => forall e, e < dr -> defined e = false
    end.

  Definition spec_bits (a : adr_state) (lower_exists : bool) : bool * bool * bool :=   (* ADR, ADRACKReq, ACK *)
    (a_on a, a_on a && (64 <=? a_since a) && lower_exists, a_ack a).

  Definition backoff_point (since : N) : bool := (96 <=? since) && ((since - 64) mod 32 =? 0).

  Definition spec_uplink_timeout (a : adr_state) (next_lower : option N) : adr_state :=
    if a_on a then
      let since := N.min 0xFFFFFFFF (a_since a + 1) in
      {| a_on := true; a_since := since; a_ack := a_ack a;
         a_dr := if backoff_point since then match next_lower with Some d => d | None => a_dr a end else a_dr a |}
    else a.

  Definition spec_downlink_accepted (a : adr_state) (confirmed : bool) : adr_state :=
    {| a_on := a_on a; a_since := 0; a_ack := if confirmed then true else a_ack a; a_dr := a_dr a |}.
End Adr.
