(* Spec/LdroSpec.v -- LDRO is mandated exactly when the symbol time 2^SF / BW is at least
   16.38 ms (SX1276 DS 4.1.1.6, SX1261/2 DS 6.1.1.4: "symbol time >= 16.38 ms"), i.e.
   2^SF * 10^6 >= 16384 * BW[Hz] in exact arithmetic (16.384 ms = SF11 at 125 kHz). *)
From LoraV Require Import Base.Prelude.
Definition ldro_required (sf hz : Z) : bool := 16384 * hz <=? 2 ^ sf * 1000000.
