(* Spec/ChipMon.v -- the chip's side of C14: a reading of what crossed the pins against the datasheet behaviour of the chip.
   It knows nothing of the driver: it is fed the pin-level trace only.  (vlib/phymon.py is an independent second implementation;
   the C14 check compares the two on the traces of the real drivers.)

   SX126x (DS.SX1261-2 rev 2.1 ch. 9, 13): SetSleep 0x84 (bit 2 of the argument = warm start, otherwise the configuration is lost);
     a sleeping chip is woken by the falling edge of NSS and accepts no command before BUSY falls, so the transaction that wakes it
     must be a harmless one (GetStatus 0xC0); SetStandby 0x80, SetFs 0xC1, SetTx 0x83, SetRx 0x82 (timeout 0xFFFFFF = continuous),
     SetRxDutyCycle 0x94 (the chip alternates RX and sleep by itself: anything but reading status needs the wake-up first),
     SetCad 0xC5, SetTxContinuousWave 0xD1; NRESET loses everything and ends in standby; TxDone, RxDone (single / duty cycle),
     timeout and CadDone return the chip to standby by itself.
   SX127x (DS SX1276-7-8-9 rev 7 ch. 4.1.6, 6.4): RegOpMode (0x01) bits 2..0 = sleep, standby, fstx, tx, fsrx, rxcontinuous, rxsingle, cad,
     bit 7 = LoRa mode; registers stay accessible in sleep, the FIFO does not; TxDone / RxSingle done or timeout / CadDone return
     to standby; reset loses everything. *)
From Coq Require Import ZArith NArith List Bool.
From LoraV Require Import Base.Bytes Model.PhyCore.
Import ListNotations.
Local Open Scope N_scope.

Inductive cmode := CSleep | CStby | CFs | CTx | CRx1 | CRxc | CDuty | CCad.
Definition cmode_eqb (a b : cmode) : bool :=
  match a, b with
  | CSleep, CSleep | CStby, CStby | CFs, CFs | CTx, CTx | CRx1, CRx1 | CRxc, CRxc | CDuty, CDuty | CCad, CCad => true
  | _, _ => false end.

(* what a transmission / reception depends on *)
Inductive item :=
  (* SX126x *) IPktType | ISync | IRegulator | ITcxo | IBases | IMod | IPkt | IIrq | IFreq | ITxParams | IPaConfig | ICadParams
  (* SX127x *) | ILoraMode | IFreqMid | IFreqLsb | IMod2 | IMod3 | IPreMsb | IPre | IPayLen | IInvIq | IInvIq2 | IIrqMask | IDioMap | ITxBase | IRxBase.
Definition item_tag (i : item) : nat :=
  match i with
  | IPktType => 0 | ISync => 1 | IRegulator => 2 | ITcxo => 3 | IBases => 4 | IMod => 5 | IPkt => 6 | IIrq => 7 | IFreq => 8 | ITxParams => 9
  | IPaConfig => 10 | ICadParams => 11 | ILoraMode => 12 | IFreqMid => 13 | IFreqLsb => 14 | IMod2 => 15 | IMod3 => 16 | IPreMsb => 17 | IPre => 18
  | IPayLen => 19 | IInvIq => 20 | IInvIq2 => 21 | IIrqMask => 22 | IDioMap => 23 | ITxBase => 24 | IRxBase => 25 end%nat.
Definition item_eqb (a b : item) : bool := Nat.eqb (item_tag a) (item_tag b).
Definition all_items : list item :=
  [IPktType; ISync; IRegulator; ITcxo; IBases; IMod; IPkt; IIrq; IFreq; ITxParams; IPaConfig; ICadParams; ILoraMode; IFreqMid; IFreqLsb; IMod2; IMod3;
   IPreMsb; IPre; IPayLen; IInvIq; IInvIq2; IIrqMask; IDioMap; ITxBase; IRxBase].

(* the board: chip family, whether a TCXO / the DC-DC regulator has to be set up; whether the current API operation is listen()
   (a carrier-sense reception that needs no packet set-up) *)
Record mctx := { x_fam : chipkind; x_tcxo : bool; x_dcdc : bool; x_listen : bool;
                 x_lora : bool   (* SX127x: LoRa-mode selection counts among the things a start depends on (the check: always) *) }.

Record mon := {
  cm : cmode;                  (* the mode the chip is in *)
  awake : bool;                (* RxDutyCycle only: false when the chip may be in its sleep phase *)
  valid : item -> bool;        (* programmed since the configuration was last lost *)
  bad_asleep : bool;           (* a command reached a sleeping chip that had not been woken *)
  bad_start : bool             (* a transmission / reception / CAD was started with something it depends on not programmed *)
}.
Definition upd (v : item -> bool) (i : item) (b : bool) : item -> bool := fun j => if item_eqb j i then b else v j.
Definition none_valid : item -> bool := fun _ => false.
Definition with_mode (m : mon) (c : cmode) : mon := {| cm := c; awake := awake m; valid := valid m; bad_asleep := bad_asleep m; bad_start := bad_start m |}.
Definition with_awake (m : mon) (a : bool) : mon := {| cm := cm m; awake := a; valid := valid m; bad_asleep := bad_asleep m; bad_start := bad_start m |}.
Definition with_valid (m : mon) (v : item -> bool) : mon := {| cm := cm m; awake := awake m; valid := v; bad_asleep := bad_asleep m; bad_start := bad_start m |}.
Definition flag_asleep (m : mon) : mon := {| cm := cm m; awake := awake m; valid := valid m; bad_asleep := true; bad_start := bad_start m |}.
Definition flag_start (m : mon) : mon := {| cm := cm m; awake := awake m; valid := valid m; bad_asleep := bad_asleep m; bad_start := true |}.
Definition add_item (m : mon) (i : item) : mon := with_valid m (upd (valid m) i true).
Definition power_on : mon := {| cm := CStby; awake := true; valid := none_valid; bad_asleep := false; bad_start := false |}.

Inductive startkind := StTx | StRx | StCad.
Definition need (x : mctx) (k : startkind) : list item :=
  (match x_fam x with
   | K126 =>
     match k with
     | StTx => [IPktType; ISync; IBases; IMod; IPkt; IIrq; IFreq; ITxParams; IPaConfig]
     | StRx => if x_listen x then [IPktType; IMod; IFreq] else [IPktType; ISync; IBases; IMod; IPkt; IIrq; IFreq]
     | StCad => [IPktType; ISync; IBases; IMod; IIrq; IFreq; ICadParams]
     end ++ (if x_dcdc x then [IRegulator] else [])
   | K127 =>
     match k with
     | StTx => [ISync; ITxBase; IMod; IMod2; IPre; IPayLen; IInvIq; IIrqMask; IDioMap; IFreq; IFreqMid; IFreqLsb; IPaConfig]
     | StRx => if x_listen x then [IMod; IFreq; IFreqMid; IFreqLsb]
               else [ISync; IRxBase; IMod; IMod2; IPre; IInvIq; IIrqMask; IDioMap; IFreq; IFreqMid; IFreqLsb]
     | StCad => [ISync; IMod; IMod2; IIrqMask; IDioMap; IFreq; IFreqMid; IFreqLsb]
     end ++ (if x_lora x then [ILoraMode] else [])
   end) ++ (if x_tcxo x then [ITcxo] else []).
Definition start (x : mctx) (m : mon) (k : startkind) : mon :=
  if forallb (valid m) (need x k) then m else flag_start m.

(* time passes with no interrupt: a duty-cycled reception may have entered its sleep phase *)
Definition time_passes (m : mon) : mon := match cm m with CDuty => with_awake m false | _ => m end.

Definition readonly126 (op : N) : bool :=
  existsb (N.eqb op) [0x12; 0x02; 0x13; 0x14; 0x15; 0x1D; 0x1E; 0x17; 0x11; 0x10; 0xC0].
Definition item126 (op : N) : option item :=
  if op =? 0x96 then Some IRegulator else if op =? 0x97 then Some ITcxo else if op =? 0x8F then Some IBases else if op =? 0x8B then Some IMod
  else if op =? 0x8C then Some IPkt else if op =? 0x08 then Some IIrq else if op =? 0x86 then Some IFreq else if op =? 0x8E then Some ITxParams
  else if op =? 0x95 then Some IPaConfig else if op =? 0x88 then Some ICadParams else None.

(* a command that reaches a chip able to take it *)
Definition spi126_cmd (x : mctx) (m : mon) (w r : list N) : mon :=
  let op := nthN w 0 in
  if op =? 0x84 then
    let warm := Nat.ltb 1 (length w) && negb (N.land (nthN w 1) 4 =? 0) in
    with_mode (if warm then m else with_valid m none_valid) CSleep
  else if op =? 0x80 then with_mode m CStby
  else if op =? 0xC1 then with_mode m CFs
  else if (op =? 0x83) || (op =? 0xD1) then with_mode (start x m StTx) CTx
  else if op =? 0x82 then
    with_mode (start x m StRx) (if (nthN w 1 =? 0xff) && (nthN w 2 =? 0xff) && (nthN w 3 =? 0xff) && Nat.leb 4 (length w) then CRxc else CRx1)
  else if op =? 0x94 then with_awake (with_mode (start x m StRx) CDuty) true
  else if op =? 0xC5 then with_mode (start x m StCad) CCad
  else if op =? 0x8A then with_valid m (upd (upd (upd (valid m) IMod false) IPkt false) IPktType true)
  else if (op =? 0x0D) && Nat.leb 5 (length w) && (nthN w 1 =? 0x07) && (nthN w 2 =? 0x40) then add_item m ISync
  else match item126 op with
       | Some i => add_item m i
       | None =>
         if (op =? 0x12) && Nat.leb 3 (length r) then
           let flags := nthN r 1 * 256 + nthN r 2 in
           let has b := negb (N.land flags b =? 0) in
           match cm m with
           | CTx => if has 0x201 then with_mode m CStby else m
           | CRx1 | CDuty => if has 0x202 then with_mode m CStby else m
           | CCad => if has 0x080 then with_mode m CStby else m
           | _ => m
           end
         else m
       end.
Definition spi126 (x : mctx) (m : mon) (w r : list N) : mon :=
  let op := nthN w 0 in
  match cm m with
  | CSleep => if op =? 0xC0 then with_mode m CStby else flag_asleep m
  | _ =>
    if cmode_eqb (cm m) CDuty && negb (awake m) && (op =? 0xC0) then with_awake m true
    else if cmode_eqb (cm m) CDuty && negb (awake m) && negb (readonly126 op) then flag_asleep m
    else spi126_cmd x m w r
  end.

Definition item127 (a : N) : option item :=
  if a =? 0x39 then Some ISync else if a =? 0x06 then Some IFreq else if a =? 0x07 then Some IFreqMid else if a =? 0x08 then Some IFreqLsb
  else if a =? 0x1D then Some IMod else if a =? 0x1E then Some IMod2 else if a =? 0x26 then Some IMod3 else if a =? 0x20 then Some IPreMsb
  else if a =? 0x21 then Some IPre else if a =? 0x22 then Some IPayLen else if a =? 0x33 then Some IInvIq else if a =? 0x3B then Some IInvIq2
  else if a =? 0x11 then Some IIrqMask else if a =? 0x40 then Some IDioMap else if a =? 0x0E then Some ITxBase else if a =? 0x0F then Some IRxBase
  else if a =? 0x09 then Some IPaConfig else if (a =? 0x4B) || (a =? 0x58) then Some ITcxo else None.
Definition opmode127 (v : N) : cmode :=
  match N.land v 7 with 0 => CSleep | 1 => CStby | 2 => CFs | 3 => CTx | 4 => CFs | 5 => CRxc | 6 => CRx1 | _ => CCad end.

(* one written register value *)
Definition wr127 (x : mctx) (m : mon) (a v : N) : mon :=
  if a =? 0x01 then
    let new := opmode127 v in
    (* LongRangeMode "can be modified only in Sleep mode. A write operation on other device modes is ignored" *)
    let m1 := if cmode_eqb (cm m) CSleep || cmode_eqb new CSleep then with_valid m (upd (valid m) ILoraMode (negb (N.land v 0x80 =? 0))) else m in
    let m2 := match new with CTx => start x m1 StTx | CRxc | CRx1 => start x m1 StRx | CCad => start x m1 StCad | _ => m1 end in
    with_mode m2 new
  else match item127 a with Some i => add_item m i | None => m end.
Fixpoint wrs127 (x : mctx) (m : mon) (a : N) (vals : list N) : mon :=
  match vals with
  | [] => m
  | v :: rest => wrs127 x (wr127 x m a v) (if a =? 0 then 0 else a + 1) rest
  end.
Definition spi127 (x : mctx) (m : mon) (w r : list N) : mon :=
  let addr := N.land (nthN w 0) 0x7f in
  let wr := negb (N.land (nthN w 0) 0x80 =? 0) in
  if (addr =? 0) && cmode_eqb (cm m) CSleep then flag_asleep m
  else if negb wr then
    if (addr =? 0x12) && Nat.leb 1 (length r) then
      let f := nthN r 0 in
      let has b := negb (N.land f b =? 0) in
      match cm m with
      | CTx => if has 0x08 then with_mode m CStby else m
      | CRx1 => if has 0xC0 then with_mode m CStby else m
      | CCad => if has 0x04 then with_mode m CStby else m
      | _ => m
      end
    else m
  else if addr =? 0 then m
  else wrs127 x m addr (tl w).

Fixpoint seg_written (s : list tseg) : list N := match s with [] => [] | TW b :: r => b ++ seg_written r | TR _ :: r => seg_written r end.
Fixpoint seg_read (s : list tseg) : list N := match s with [] => [] | TR b :: r => b ++ seg_read r | TW _ :: r => seg_read r end.

Definition mon_event (x : mctx) (m : mon) (e : tev) : mon :=
  match e with
  | TSpiFault | TIvFault _ | TDelay _ => m
  | TIv IvReset => {| cm := CStby; awake := true; valid := none_valid; bad_asleep := bad_asleep m; bad_start := bad_start m |}
  | TIv IvIrq => with_awake m true
  | TIv _ => m
  | TIrqPending => time_passes m
  | TSpi segs =>
    let w := seg_written segs in
    match w with
    | [] => m
    | _ => match x_fam x with K126 => spi126 x m w (seg_read segs) | K127 => spi127 x m w (seg_read segs) end
    end
  end.
(* the trace of one API operation: time has passed since the previous one *)
Definition mon_op (x : mctx) (m : mon) (tr : list tev) : mon := fold_left (mon_event x) tr (time_passes m).
