(* Spec/Airtime.v -- the Semtech LoRa modem airtime formula (SX1276/77/78/79
   datasheet 4.1.1.7; AN1200.13), in exact integer arithmetic.

     n_payload = 8 + max( ceil( (8 PL - 4 SF + 28 + 16 CRC - 20 IH) / (4 (SF - 2 DE)) ) * (CR + 4), 0 )
     T_packet  = (n_preamble + 4.25 + n_payload) * T_sym

   with CRC = 1 (LoRaWAN uplinks; the library has no CRC-less variant),
   IH = 1 for implicit header, DE = 1 when low-data-rate optimisation is on
   (symbol time >= 16.384 ms), CR + 4 = the coding-rate denominator 5..8.
   "With the same symbol time": T_sym is the library's documented microsecond
   truncation  floor(2^SF * 10^6 / BW_Hz);  the result is truncated to the
   microsecond.  Written with floor division (Z.div) and the exact ceiling
   [cdiv]; shares no definition with Model/Toa.v except the bandwidth table. *)
From LoraV Require Import Base.Prelude.

Section Airtime.
  Variable hz : Z.                (* bandwidth in Hz *)
  Variable sf : Z.                (* spreading factor 5..12 *)
  Variable crd : Z.               (* coding-rate denominator 5..8  (= CR + 4) *)

  Definition tsym : Z := (2 ^ sf * 1000000) / hz.
  Definition de : Z := if 16384 <=? tsym then 1 else 0.

  Definition n_payload (pl : Z) (explicit : bool) : Z :=
    let ih := if explicit then 0 else 1 in
    8 + Z.max (cdiv (8 * pl - 4 * sf + 28 + 16 - 20 * ih) (4 * (sf - 2 * de)) * crd) 0.

  (* preamble None: payload part only (header+payload symbols) *)
  Definition airtime_us (pre : option Z) (explicit : bool) (pl : Z) : Z :=
    match pre with
    | None => n_payload pl explicit * tsym
    | Some p => ((4 * p + 17 + 4 * n_payload pl explicit) * tsym) / 4
    end.
End Airtime.
