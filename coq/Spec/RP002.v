(* Spec/RP002.v -- regional RX window rules (LoRaWAN Regional Parameters RP002-1.0.x), written as rules, not tables:
     EU868, EU433 (2.2.7 / 2.4.7):  RX1 DR = max(DR - RX1DROffset, 0)                  uplink DR0..5, offset 0..5; RX2 default DR0
     US915 (2.5.7):                 RX1 DR = min(13, max(8, 10 + DR - RX1DROffset))    uplink DR0..4, offset 0..3; RX2 default DR8
     AU915 (2.6.7):                 RX1 DR = min(13, max(8, 8 + DR - RX1DROffset))     uplink DR0..6, offset 0..5; RX2 default DR8
     AS923 (2.8.7), IN865 (2.10.7): RX1 DR = max(DR - RX1DROffset, 0)                  uplink DR0..5, offset 0..5 (the negative
                                    effective offsets 6, 7 and the higher uplink rates are left undecided here); RX2 default DR2
   RX1 = RECEIVE_DELAY1 (negotiated, default 1 s; join 5 s), RX2 = RX1 + 1 s.
   Region ids as in Gen/RegionTables.v. *)
From Coq Require Import NArith List Bool.
Import ListNotations.
Open Scope N_scope.

Definition rp_in_scope (r dr off : N) : bool :=
  match r with
  | 8 => (dr <=? 4) && (off <=? 3)
  | 4 => (dr <=? 6) && (off <=? 5)
  | _ => (dr <=? 5) && (off <=? 5)
  end.

Definition rp_rx1_dr (r dr off : N) : N :=
  match r with
  | 8 => N.min 13 (N.max 8 (10 + dr - off))
  | 4 => N.min 13 (N.max 8 (8 + dr - off))
  | _ => dr - off                       (* truncated subtraction = max(dr - off, 0) *)
  end.

Definition rp_rx2_dr (r : N) : N :=
  match r with
  | 8 | 4 => 8
  | 5 | 6 => 0
  | _ => 2
  end.
