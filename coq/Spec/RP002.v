(* Spec/RP002.v -- regional RX window rules (LoRaWAN Regional Parameters RP002-1.0.x), written as rules, not tables:
     EU868, EU433 (2.2.7 / 2.4.7):  RX1 DR = max(DR - RX1DROffset, 0)                  uplink DR0..5, offset 0..5; RX2 default DR0
     US915 (2.5.7):                 RX1 DR = min(13, max(8, 10 + DR - RX1DROffset))    uplink DR0..4, offset 0..3; RX2 default DR8
     AU915 (2.6.7):                 RX1 DR = min(13, max(8, 8 + DR - RX1DROffset))     uplink DR0..6, offset 0..5; RX2 default DR8
     AS923 (2.8.7), IN865 (2.10.7): RX1 DR = max(DR - RX1DROffset, 0)                  uplink DR0..5, offset 0..5 (the negative
                                    effective offsets 6, 7 and the higher uplink rates are left undecided here); RX2 default DR2
   RX1 = RECEIVE_DELAY1 (negotiated, default 1 s; join 5 s), RX2 = RX1 + 1 s.
   Region ids as in Gen/RegionTables.v. *)
From Coq Require Import NArith List Bool.
Import ListNotations.
Open Scope N_scope.

Definition rp_in_scope (r dr off : N) : bool :=
  match r with
  | 8 => (dr <=? 4) && (off <=? 3)
  | 4 => (dr <=? 6) && (off <=? 5)
  | _ => (dr <=? 5) && (off <=? 5)
  end.

Definition rp_rx1_dr (r dr off : N) : N :=
  match r with
  | 8 => N.min 13 (N.max 8 (10 + dr - off))
  | 4 => N.min 13 (N.max 8 (8 + dr - off))
  | _ => dr - off                       (* truncated subtraction = max(dr - off, 0) *)
  end.

Definition rp_rx2_dr (r : N) : N :=
  match r with
  | 8 | 4 => 8
  | 5 | 6 => 0
  | _ => 2
  end.

(* RX2 default frequency (RP002 2.x.7): EU868 869.525 MHz, EU433 434.665 MHz, US915 / AU915 923.3 MHz, IN865 866.55 MHz,
   AS923-n: 923.2 MHz + AS923_FREQ_OFFSET_HZ with the group offsets 0 / -1.80 / -6.60 / -5.90 MHz *)
Definition rp_rx2_freq (r : N) : N :=
  match r with
  | 0 => 923200000 | 1 => 923200000 - 1800000 | 2 => 923200000 - 6600000 | 3 => 923200000 - 5900000
  | 4 => 923300000 | 5 => 869525000 | 6 => 434665000 | 7 => 866550000 | _ => 923300000
  end.

(* band limits, maximum EIRP (dBm, EU433: 12.15 truncated), highest TXPower index, largest RX1DROffset, default join channels -- RP002 *)
Definition rp_band (r : N) : N * N :=
  match r with
  | 0 | 1 | 2 | 4 => (915000000, 928000000) | 3 => (917000000, 920000000) | 5 => (863000000, 870000000)
  | 6 => (433050000, 434790000) | 7 => (865000000, 867000000) | _ => (902000000, 928000000)
  end.
Definition rp_max_eirp (r : N) : N := match r with 0 | 1 | 2 | 3 | 5 => 16 | 6 => 12 | _ => 30 end.
Definition rp_max_power_index (r : N) : N := match r with 4 | 8 => 14 | 6 => 5 | 7 => 10 | _ => 7 end.
Definition rp_max_rx1_offset (r : N) : N := match r with 0 | 1 | 2 | 3 | 7 => 7 | 8 => 3 | _ => 5 end.
Definition rp_join_channels (r : N) : list N :=
  match r with
  | 0 => [923200000; 923400000] | 1 => [923200000 - 1800000; 923400000 - 1800000] | 2 => [923200000 - 6600000; 923400000 - 6600000]
  | 3 => [923200000 - 5900000; 923400000 - 5900000] | 5 => [868100000; 868300000; 868500000] | 6 => [433175000; 433375000; 433575000]
  | 7 => [865062500; 865402500; 865985000] | _ => []
  end.

(* the LoRa data rates: (spreading factor, bandwidth index 7 = 125 kHz / 8 = 250 kHz / 9 = 500 kHz, maximum MACPayload size M) per region,
   RP002 "maximum payload size" tables for end-devices that never operate behind a repeater and without dwell-time limitation; None = RFU,
   FSK or LR-FHSS *)
Definition rp_datarate (r dr : N) : option (N * N * N) :=
  match r with
  | 8 => match dr with 0 => Some (10, 7, 19) | 1 => Some (9, 7, 61) | 2 => Some (8, 7, 133) | 3 => Some (7, 7, 250) | 4 => Some (8, 9, 250)
                     | 8 => Some (12, 9, 61) | 9 => Some (11, 9, 137) | 10 => Some (10, 9, 250) | 11 => Some (9, 9, 250)
                     | 12 => Some (8, 9, 250) | 13 => Some (7, 9, 250) | _ => None end
  | 4 => match dr with 0 => Some (12, 7, 59) | 1 => Some (11, 7, 59) | 2 => Some (10, 7, 59) | 3 => Some (9, 7, 123) | 4 => Some (8, 7, 250)
                     | 5 => Some (7, 7, 250) | 6 => Some (8, 9, 250)
                     | 8 => Some (12, 9, 61) | 9 => Some (11, 9, 137) | 10 => Some (10, 9, 250) | 11 => Some (9, 9, 250)
                     | 12 => Some (8, 9, 250) | 13 => Some (7, 9, 250) | _ => None end
  | 5 | 6 | 7 => match dr with 0 => Some (12, 7, 59) | 1 => Some (11, 7, 59) | 2 => Some (10, 7, 59) | 3 => Some (9, 7, 123) | 4 => Some (8, 7, 250)
                             | 5 => Some (7, 7, 250) | 6 => if r =? 7 then None else Some (7, 8, 250) | _ => None end
  | _ => match dr with 0 => Some (12, 7, 59) | 1 => Some (11, 7, 59) | 2 => Some (10, 7, 123) | 3 => Some (9, 7, 123) | 4 => Some (8, 7, 250)
                     | 5 => Some (7, 7, 250) | 6 => Some (7, 8, 250) | _ => None end
  end.

(* fixed channel plans (RP002 2.5.2 / 2.6.2): 64 uplink channels of 125 kHz from f0 in steps of 200 kHz, 8 uplink channels of 500 kHz from f1
   in steps of 1.6 MHz, 8 downlink channels of 500 kHz from 923.3 MHz in steps of 600 kHz.  US915: f0 = 902.3, f1 = 903.0 MHz; AU915: 915.2, 915.9 *)
Definition rp_uplink_channels (r : N) : list N :=
  let '(f0, f1) := match r with 8 => (902300000, 903000000) | 4 => (915200000, 915900000) | _ => (0, 0) end in
  match r with
  | 4 | 8 => map (fun i => f0 + 200000 * N.of_nat i) (seq 0 64) ++ map (fun i => f1 + 1600000 * N.of_nat i) (seq 0 8)
  | _ => []
  end.
Definition rp_downlink_channels (r : N) : list N :=
  match r with 4 | 8 => map (fun i => 923300000 + 600000 * N.of_nat i) (seq 0 8) | _ => [] end.
(* the join data rates of fixed plans: on a 125 kHz channel / on a 500 kHz channel (US915: DR0 / DR4, AU915: DR2 / DR6) *)
Definition rp_join_dr (r : N) : N * N := match r with 8 => (0, 4) | 4 => (2, 6) | _ => (0, 0) end.

