(* Spec/PhySpec.v -- what the registers mean, from the Semtech datasheets (SX1261/2 rev 2.2, SX1276/77/78/79 rev 7, SX1272/73 rev 4)
   and ST's STM32WL characterisation; written without reference to the driver's tables. *)
From Coq Require Import ZArith NArith List Bool.
Import ListNotations.
Open Scope Z_scope.

(* SX126x: F_RF = RfFreq * F_XTAL / 2^25, F_XTAL = 32 MHz; SX127x: F_RF = Frf * F_XOSC / 2^19 *)
Definition sx126x_hz_times_2p25 (steps : Z) : Z := steps * 32000000.      (* = F_RF * 2^25 *)
Definition sx127x_hz_times_2p19 (frf : Z) : Z := frf * 32000000.          (* = F_RF * 2^19 *)

(* SX126x SetLoRaSymbNumTimeout: the programmed timeout in symbols is mant * 2^(2*exp + 1) (register SynchTimeout = exp | mant << 3) *)
Definition sx126x_timeout_symbols (mant exp : Z) : Z := mant * 2 ^ (2 * exp + 1).
(* SX127x: RegSymbTimeout (10 bits) counts symbols directly *)

(* ---- output power.  SX126x datasheet table 13-21: optimal settings; below an anchor SetTxParams lowers the output one dB per step *)
(* (deviceSel low-power?, paDutyCycle, hpMax) -> (output at the anchor [dBm], SetTxParams value at the anchor) *)
Definition sx126x_anchor (low_power : bool) (duty hp : Z) : option (Z * Z) :=
  if low_power then
    match duty, hp with
    | 6, 0 => Some (15, 14) | 4, 0 => Some (14, 14) | 1, 0 => Some (10, 13)
    | _, _ => None end
  else
    match duty, hp with
    | 4, 7 => Some (22, 22) | 3, 5 => Some (20, 22) | 2, 3 => Some (17, 22) | 2, 2 => Some (14, 22)
    | _, _ => None end.
(* ST's table for the STM32WL high-power PA (STM32CubeWL radio_driver.c): identical except that with (2, 2) SetTxParams is the output *)
Definition stm32wl_hp_anchor (duty hp : Z) : option (Z * Z) :=
  match duty, hp with 2, 2 => Some (14, 14) | _, _ => sx126x_anchor false duty hp end.
Definition out_dbm (anchor : option (Z * Z)) (txparam : Z) : option Z :=
  match anchor with Some (out, atx) => Some (out - (atx - txparam)) | None => None end.
(* legal SetTxParams range: -17..+14 (low-power PA), -9..+22 (high-power PA) *)
Definition txparam_legal (low_power : bool) (t : Z) : bool := if low_power then (-17 <=? t) && (t <=? 14) else (-9 <=? t) && (t <=? 22).

(* SX1276 RegPaConfig = PaSelect(7) | MaxPower(6:4) | OutputPower(3:0), RegPaDac 0x87 = +20 dBm option; output in TENTHS of a dBm *)
Definition sx1276_out_tenths (paconfig padac : Z) : Z :=
  let op := paconfig mod 16 in let mx := (paconfig / 16) mod 8 in
  if 128 <=? paconfig then (if padac =? 135 then 10 * (5 + op) else 10 * (2 + op))        (* Pout = 17 - (15 - OP), +3 dB with PaDac *)
  else 108 + 6 * mx - 10 * (15 - op).                                                 (* Pmax = 10.8 + 0.6 MaxPower; Pout = Pmax - (15 - OP) *)
(* SX1272 RegPaConfig = PaSelect(7) | OutputPower(3:0): RFO Pout = -1 + OP, PA_BOOST 2 + OP, 5 + OP with PaDac 0x87 *)
Definition sx1272_out_dbm (paconfig padac : Z) : Z :=
  let op := paconfig mod 16 in
  if 128 <=? paconfig then (if padac =? 135 then 5 + op else 2 + op) else op - 1.

(* ---- status conversions (datasheet): SX126x RssiPkt = -raw/2 dBm, SnrPkt = raw(signed)/4 dB;
   SX127x SNR = raw(signed)/4 dB, packet RSSI = offset + 16/15 raw (+ SNR when negative) *)
