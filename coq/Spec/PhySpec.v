(* Spec/PhySpec.v -- what the registers mean, from the Semtech datasheets (SX1261/2 rev 2.2, SX1276/77/78/79 rev 7, SX1272/73 rev 4)
   and ST's STM32WL characterisation; written without reference to the driver's tables. *)
From Coq Require Import ZArith NArith List Bool.
Import ListNotations.
Open Scope Z_scope.

(* SX126x: F_RF = RfFreq * F_XTAL / 2^25, F_XTAL = 32 MHz; SX127x: F_RF = Frf * F_XOSC / 2^19 *)
Definition sx126x_hz_times_2p25 (steps : Z) : Z := steps * 32000000.      (* = F_RF * 2^25 *)
Definition sx127x_hz_times_2p19 (frf : Z) : Z := frf * 32000000.          (* = F_RF * 2^19 *)

(* SX126x SetLoRaSymbNumTimeout: the programmed timeout in symbols is mant * 2^(2*exp + 1) (register SynchTimeout = exp | mant << 3) *)
Definition sx126x_timeout_symbols (mant exp : Z) : Z := mant * 2 ^ (2 * exp + 1).
(* SX127x: RegSymbTimeout (10 bits) counts symbols directly *)

(* ---- output power.  SX126x datasheet table 13-21: optimal settings; below an anchor SetTxParams lowers the output one dB per step *)
(* (deviceSel low-power?, paDutyCycle, hpMax) -> (output at the anchor [dBm], SetTxParams value at the anchor) *)
Definition sx126x_anchor (low_power : bool) (duty hp : Z) : option (Z * Z) :=
  if low_power then
    match duty, hp with
    | 6, 0 => Some (15, 14) | 4, 0 => Some (14, 14) | 1, 0 => Some (10, 13)
    | _, _ => None end
  else
    match duty, hp with
    | 4, 7 => Some (22, 22) | 3, 5 => Some (20, 22) | 2, 3 => Some (17, 22) | 2, 2 => Some (14, 22)
    | _, _ => None end.
(* ST's table for the STM32WL high-power PA (STM32CubeWL radio_driver.c): identical except that with (2, 2) SetTxParams is the output *)
Definition stm32wl_hp_anchor (duty hp : Z) : option (Z * Z) :=
  match duty, hp with 2, 2 => Some (14, 14) | _, _ => sx126x_anchor false duty hp end.
Definition out_dbm (anchor : option (Z * Z)) (txparam : Z) : option Z :=
  match anchor with Some (out, atx) => Some (out - (atx - txparam)) | None => None end.
(* legal SetTxParams range: -17..+14 (low-power PA), -9..+22 (high-power PA) *)
Definition txparam_legal (low_power : bool) (t : Z) : bool := if low_power then (-17 <=? t) && (t <=? 14) else (-9 <=? t) && (t <=? 22).

(* SX1276 RegPaConfig = PaSelect(7) | MaxPower(6:4) | OutputPower(3:0), RegPaDac 0x87 = +20 dBm option; output in TENTHS of a dBm *)
Definition sx1276_out_tenths (paconfig padac : Z) : Z :=
  let op := paconfig mod 16 in let mx := (paconfig / 16) mod 8 in
  if 128 <=? paconfig then (if padac =? 135 then 10 * (5 + op) else 10 * (2 + op))        (* Pout = 17 - (15 - OP), +3 dB with PaDac *)
  else 108 + 6 * mx - 10 * (15 - op).                                                 (* Pmax = 10.8 + 0.6 MaxPower; Pout = Pmax - (15 - OP) *)
(* SX1272 RegPaConfig = PaSelect(7) | OutputPower(3:0): RFO Pout = -1 + OP, PA_BOOST 2 + OP, 5 + OP with PaDac 0x87 *)
Definition sx1272_out_dbm (paconfig padac : Z) : Z :=
  let op := paconfig mod 16 in
  if 128 <=? paconfig then (if padac =? 135 then 5 + op else 2 + op) else op - 1.

(* ---- status conversions (datasheet): SX126x RssiPkt = -raw/2 dBm, SnrPkt = raw(signed)/4 dB;
   SX127x SNR = raw(signed)/4 dB, packet RSSI = offset + 16/15 raw (+ SNR when negative) *)

(* ================================================================= SPI command formats (SX1261/2 datasheet chapter 13) *)
Open Scope N_scope.
Definition ds_bw_code (bw : N) : option N :=      (* bandwidth index 0..9 = 7.81 .. 500 kHz -> LoRa BW parameter *)
  nth (N.to_nat bw) [Some 0x00; Some 0x08; Some 0x01; Some 0x09; Some 0x02; Some 0x0A; Some 0x03; Some 0x04; Some 0x05; Some 0x06] None.
Definition ds_sf_code (sf : N) : option N := if sf <? 8 then Some (sf + 5) else None.        (* SF5..SF12 *)
Definition ds_cr_code (cr : N) : option N := if cr <? 4 then Some (cr + 1) else None.        (* 4/5..4/8 *)
Definition ds_SetSleep (warm : bool) : list N := [0x84; if warm then 4 else 0].
Definition ds_SetStandbyRC : list N := [0x80; 0].
Definition ds_SetRfFrequency (word : N) : list N := [0x86; (word / 16777216) mod 256; (word / 65536) mod 256; (word / 256) mod 256; word mod 256].
Definition ds_SetModulationParams (sf bw cr ldro : N) : option (list N) :=
  match ds_sf_code sf, ds_bw_code bw, ds_cr_code cr with Some s, Some b, Some c => Some [0x8B; s; b; c; ldro] | _, _, _ => None end.
Definition ds_SetPacketParams (preamble : N) (implicit : bool) (len : N) (crc iq : bool) : list N :=
  [0x8C; (preamble / 256) mod 256; preamble mod 256; if implicit then 1 else 0; len; if crc then 1 else 0; if iq then 1 else 0].
Definition ds_SetBufferBaseAddress (txb rxb : N) : list N := [0x8F; txb; rxb].
Definition ds_WriteBuffer (offset : N) : list N := [0x0E; offset].
Definition ds_SetTx (t : N) : list N := [0x83; (t / 65536) mod 256; (t / 256) mod 256; t mod 256].
Definition ds_SetRx (t : N) : list N := [0x82; (t / 65536) mod 256; (t / 256) mod 256; t mod 256].
Definition ds_SetRxDutyCycle (rx sl : N) : list N :=
  [0x94; (rx / 65536) mod 256; (rx / 256) mod 256; rx mod 256; (sl / 65536) mod 256; (sl / 256) mod 256; sl mod 256].
Definition ds_StopTimerOnPreamble (on : bool) : list N := [0x9F; if on then 1 else 0].
Definition ds_SetLoRaSymbNumTimeout (v : N) : list N := [0xA0; v].
Definition ds_SetCadParams (symb peak dmin exit timeout : N) : list N :=
  [0x88; symb; peak; dmin; exit; (timeout / 65536) mod 256; (timeout / 256) mod 256; timeout mod 256].
Definition ds_SetCad : list N := [0xC5].
Definition ds_SetTxContinuousWave : list N := [0xD1].
Definition ds_SetPaConfig (duty hp devsel : N) : list N := [0x95; duty; hp; devsel; 1].
Definition ds_SetTxParams (power ramp : N) : list N := [0x8E; power; ramp].
Definition ds_ClearIrqStatus (mask : N) : list N := [0x02; (mask / 256) mod 256; mask mod 256].
Definition ds_SetDioIrqParams (irq d1 d2 d3 : N) : list N :=
  [0x08; (irq / 256) mod 256; irq mod 256; (d1 / 256) mod 256; d1 mod 256; (d2 / 256) mod 256; d2 mod 256; (d3 / 256) mod 256; d3 mod 256].
Definition ds_CalibrateImage (f : N) : list N :=      (* table 9-2: 430-440, 470-510, 779-787, 863-870, 902-928 MHz *)
  if 900000000 <? f then [0x98; 0xE1; 0xE9] else if 850000000 <? f then [0x98; 0xD7; 0xDB] else if 770000000 <? f then [0x98; 0xC1; 0xC5]
  else if 460000000 <? f then [0x98; 0x75; 0x81] else if 425000000 <? f then [0x98; 0x6B; 0x6F] else [0x98; 0; 0].
(* IRQ bits (table 13-29) *)
Definition ds_irq_TxDone := 1. Definition ds_irq_RxDone := 2. Definition ds_irq_CadDone := 128. Definition ds_irq_CadDetected := 256. Definition ds_irq_Timeout := 512.
(* errata 15.1 / 15.4: bit 2 of register 0x0889 is 0 for BW 500 kHz and 1 otherwise; bit 2 of 0x0736 is 0 with inverted IQ and 1 otherwise; other bits kept *)
Definition ds_txmod (bw500 : bool) (old : N) : N := if bw500 then N.land old 0xFB else N.lor old 4.
Definition ds_iqpol (inverted : bool) (old : N) : N := if inverted then N.land old 0xFB else N.lor old 4.

(* ================================================================= SX1276 LoRa registers (datasheet chapter 6) -- field views *)
Definition f_bits (v hi lo : N) : N := (v / 2 ^ lo) mod 2 ^ (hi - lo + 1).
(* RegModemConfig1 0x1D: Bw 7:4, CodingRate 3:1, ImplicitHeaderModeOn 0; RegModemConfig2 0x1E: SF 7:4, TxContinuousMode 3, RxPayloadCrcOn 2,
   SymbTimeout(9:8) 1:0; RegModemConfig3 0x26: LowDataRateOptimize 3, AgcAutoOn 2 *)
