(* Spec/L2Frame.v -- LoRaWAN L2 1.0.x frame layout and cryptography, declaratively
   (LoRaWAN 1.0.4 sections 4.2 MHDR, 4.3 MACPayload/FHDR/FCtrl, 4.3.3 encryption, 4.4 MIC,
   6.2.3 JoinRequest, 6.2.4 JoinAccept, 6.2.5 key derivation).
     PHYPayload = MHDR | FHDR | [FPort | FRMPayload] | MIC            (data)
     FHDR       = DevAddr(4, LE) | FCtrl | FCnt(2, LE) | FOpts(0..15)
     FCtrl      = ADR(7) ADRACKReq/RFU(6) ACK(5) RFU/FPending(4) FOptsLen(3..0)
     A_i        = 0x01 | 4 x 0x00 | Dir | DevAddr | FCnt(4, LE) | 0x00 | i        S = S_1 | .. | S_k
     B_0        = 0x49 | 4 x 0x00 | Dir | DevAddr | FCnt(4, LE) | 0x00 | len(msg)
     MIC        = aes128_cmac(NwkSKey, B_0 | msg)[0..3]
     K          = NwkSKey if FPort = 0 else AppSKey;  FRMPayload is XORed with S truncated
   Shares only the frame-description record with Model/Frame.v. *)
From LoraV Require Import Base.Bytes Crypto.AES Model.Frame.

Section L2.
  Variable enc dec : list N -> list N -> list N.
  Variable mac : list N -> list N -> list N.

  Definition dir_of (t : ftype) : N := if is_uplink t then 0 else 1.
  (* MType(7..5) = 010 / 011 / 100 / 101, RFU(4..2) = 0, Major(1..0) = 0 *)
  Definition spec_mhdr (t : ftype) : N :=
    32 * (2 + (if is_confirmed t then 2 else 0) + (if is_uplink t then 0 else 1)).

  Definition block_A (dir addr fcnt i : N) : list N :=
    [0x01; 0; 0; 0; 0; dir] ++ le_bytes 4 addr ++ le_bytes 4 fcnt ++ [0; i].
  Definition block_B0 (dir addr fcnt len : N) : list N :=
    [0x49; 0; 0; 0; 0; dir] ++ le_bytes 4 addr ++ le_bytes 4 fcnt ++ [0; len].

  Definition keystream (key : list N) (dir addr fcnt : N) (k : nat) : list N :=
    flat_map (fun i => enc key (block_A dir addr fcnt (N.of_nat i))) (seq 1 k).
  Definition nblocks (n : nat) : nat := Nat.div (n + 15) 16.
  Definition frm_crypt (key : list N) (dir addr fcnt : N) (pld : list N) : list N :=
    xor_list pld (keystream key dir addr fcnt (nblocks (length pld))).

  Definition spec_fctrl (d : data_frame) : N :=
    (if df_adr d then 128 else 0)
    + (if df_adr_ack_req d && is_uplink (df_type d) then 64 else 0)
    + (if df_ack d then 32 else 0)
    + (if df_f_pending d && negb (is_uplink (df_type d)) then 16 else 0)
    + lenN (df_f_opts d).

  (* Port and encrypted FRMPayload, or None when the description is forbidden *)
  Definition spec_port_payload (d : data_frame) (nwk : list N) (app : option (list N)) : option (list N) :=
    let dir := dir_of (df_type d) in
    match df_payload d with
    | PNone => Some []
    | PData port data =>
      match app with
      | None => None
      | Some k => Some (port :: frm_crypt k dir (df_addr d) (df_fcnt d) data)
      end
    | PMac cmds =>
      match df_f_opts d with
      | [] => Some (0 :: frm_crypt nwk dir (df_addr d) (df_fcnt d) cmds)
      | _ => None
      end
    end.

  Definition spec_msg (d : data_frame) (pp : list N) : list N :=
    [spec_mhdr (df_type d)] ++ le_bytes 4 (df_addr d) ++ [spec_fctrl d]
    ++ le_bytes 2 (df_fcnt d mod 65536) ++ df_f_opts d ++ pp.

  Definition spec_data (d : data_frame) (nwk : list N) (app : option (list N)) : option (list N) :=
    if Nat.ltb 15 (length (df_f_opts d)) then None else
    match spec_port_payload d nwk app with
    | None => None
    | Some pp =>
      let msg := spec_msg d pp in
      Some (msg ++ firstn 4 (mac nwk (block_B0 (dir_of (df_type d)) (df_addr d) (df_fcnt d) (lenN msg) ++ msg)))
    end.

  (* which error a forbidden / unbuildable description gets (the library's documented order) *)
  Definition spec_data_error (d : data_frame) (app : option (list N)) : error :=
    if Nat.ltb 15 (length (df_f_opts d)) then FOptsTooLong else
    match df_payload d, app, df_f_opts d with
    | PData _ _, None, _ => MissingKey
    | PMac _, _, _ :: _ => FOptsWithFPortZero
    | _, _, _ => BufferTooShort
    end.

  (* JoinRequest = MHDR(0x00) | JoinEUI(8, LE) | DevEUI(8, LE) | DevNonce(2, LE) | MIC ;
     MIC = cmac(AppKey, MHDR | JoinEUI | DevEUI | DevNonce)[0..3] *)
  Definition spec_join_request (join_eui dev_eui dev_nonce : N) (appkey : list N) : list N :=
    let msg := [0] ++ le_bytes 8 join_eui ++ le_bytes 8 dev_eui ++ le_bytes 2 dev_nonce in
    msg ++ firstn 4 (mac appkey msg).

  (* JoinAccept = MHDR(0x20) | aes128_decrypt(AppKey, JoinNonce | NetID | DevAddr | DLSettings | RxDelay | [CFList] | MIC),
     MIC = cmac(AppKey, MHDR | JoinNonce | ... | [CFList])[0..3], ECB over 16-byte blocks *)
  Definition spec_cflist (c : option cflist) : list N :=
    match c with
    | None => []
    | Some (CfDynamic freqs) => flat_map (le_bytes 3) freqs ++ [0]
    | Some (CfFixed mask) => mask ++ [0; 0; 0; 0; 0; 0] ++ [1]
    end.
  Definition spec_join_accept_clear (join_nonce net_id dev_addr dl_settings rx_delay : N) (c : option cflist)
             (appkey : list N) : list N :=
    let msg := [32] ++ le_bytes 3 join_nonce ++ le_bytes 3 net_id ++ le_bytes 4 dev_addr
               ++ [dl_settings; rx_delay mod 16] ++ spec_cflist c in
    msg ++ firstn 4 (mac appkey msg).
  Definition ecb (f : list N -> list N) (l : list N) : list N :=
    match Nat.div (length l) 16 with
    | 1%nat => f (firstn 16 l)
    | 2%nat => f (firstn 16 l) ++ f (firstn 16 (skipn 16 l))
    | _ => l
    end.
  Definition spec_join_accept (join_nonce net_id dev_addr dl_settings rx_delay : N) (c : option cflist)
             (appkey : list N) : list N :=
    let clear := spec_join_accept_clear join_nonce net_id dev_addr dl_settings rx_delay c appkey in
    [32] ++ ecb (dec appkey) (skipn 1 clear).

  (* session keys: aes128_encrypt(AppKey, 0x01|0x02 | JoinNonce | NetID | DevNonce | pad16) *)
  Definition spec_session_key (first join_nonce net_id dev_nonce : N) (appkey : list N) : list N :=
    enc appkey ([first] ++ le_bytes 3 join_nonce ++ le_bytes 3 net_id ++ le_bytes 2 dev_nonce ++ [0;0;0;0;0;0;0]).


  (* a received JoinAccept is authentic for AppKey iff it has one of the two legal sizes, MHDR = JoinAccept / major 0, and after
     AES-ENCRYPTING the body in ECB (the network used decrypt) its last four bytes are cmac(AppKey, everything before)[0..3] *)
  Definition spec_ja_clear (bs key : list N) : list N := [nthN bs 0] ++ ecb (enc key) (skipn 1 bs).
  Definition spec_ja_accepts (bs key : list N) : bool :=
    (Nat.eqb (length bs) 17 || Nat.eqb (length bs) 33)
    && (nthN bs 0 mod 4 =? 0) && (nthN bs 0 / 32 =? 1)
    && list_eqb (skipn (length bs - 4) (spec_ja_clear bs key))
                (firstn 4 (mac key (firstn (length bs - 4) (spec_ja_clear bs key)))).

  (* ---------------------------------------------------------------- decoding side *)
  (* structural well-formedness of a received data frame *)
  Definition wf_wire (bs : list N) : bool :=
    Nat.leb 12 (length bs)
    && (nthN bs 0 mod 4 =? 0)
    && (2 <=? nthN bs 0 / 32) && (nthN bs 0 / 32 <=? 5)
    && Nat.leb (8 + N.to_nat (nthN bs 5 mod 16) + 4) (length bs).

  Definition wire_dir (bs : list N) : N := (nthN bs 0 / 32) mod 2.
  Definition wire_fopts_len (bs : list N) : nat := N.to_nat (nthN bs 5 mod 16).
  Definition wire_body (bs : list N) : list N := firstn (length bs - 4) bs.
  Definition wire_mic (bs : list N) : list N := skipn (length bs - 4) bs.
  Definition wire_addr_bytes (bs : list N) : list N := slice bs 1 5.

  (* the MIC an independent implementation computes for counter n and the frame's own direction *)
  Definition spec_mic (bs key : list N) (n : N) : list N :=
    firstn 4 (mac key ([0x49; 0; 0; 0; 0; wire_dir bs] ++ wire_addr_bytes bs ++ le_bytes 4 n
                        ++ [0; lenN (wire_body bs) mod 256] ++ wire_body bs)).
End L2.
