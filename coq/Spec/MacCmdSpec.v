(* Spec/MacCmdSpec.v -- the MAC commands of LoRaWAN 1.0.x (section 5): CID and payload length in bytes, as requests come from the
   network (downlink) and as the device answers or asks (uplink).  Written from the specification, not from the code. *)
From Coq Require Import NArith List.
Import ListNotations.
Open Scope N_scope.

(* CID, downlink payload length, uplink payload length *)
Definition lw_mac_commands : list (N * nat * nat) :=
  [(0x02, 2%nat, 0%nat)   (* LinkCheckAns: Margin, GwCnt          | LinkCheckReq *) ;
   (0x03, 4%nat, 1%nat)   (* LinkADRReq: DataRate_TXPower, ChMask(2), Redundancy | LinkADRAns: Status *) ;
   (0x04, 1%nat, 0%nat)   (* DutyCycleReq: DutyCyclePL           | DutyCycleAns *) ;
   (0x05, 4%nat, 1%nat)   (* RXParamSetupReq: DLSettings, Frequency(3) | RXParamSetupAns: Status *) ;
   (0x06, 0%nat, 2%nat)   (* DevStatusReq                        | DevStatusAns: Battery, RadioStatus *) ;
   (0x07, 5%nat, 1%nat)   (* NewChannelReq: ChIndex, Frequency(3), DRRange | NewChannelAns: Status *) ;
   (0x08, 1%nat, 0%nat)   (* RXTimingSetupReq: RxTimingSettings  | RXTimingSetupAns *) ;
   (0x09, 1%nat, 0%nat)   (* TXParamSetupReq: EIRP_DwellTime     | TXParamSetupAns *) ;
   (0x0A, 4%nat, 1%nat)   (* DlChannelReq: ChIndex, Frequency(3) | DlChannelAns: Status *) ;
   (0x0D, 5%nat, 0%nat)   (* DeviceTimeAns: seconds(4), fraction | DeviceTimeReq *) ].
