(* driver.ml -- line protocol front-end for the extracted Coq models (trusted glue).
   stdin: one case per line  "<op> <arg> ..." ; stdout: one canonical result per line.
   Integers are decimal, byte strings lower-case hex ("-" = empty), booleans 0/1,
   options "none" or the value. *)
open Model

let rec pos_of_int n =
  if n = 1 then XH
  else if n land 1 = 0 then XO (pos_of_int (n lsr 1))
  else XI (pos_of_int (n lsr 1))
let z_of_int n = if n = 0 then Z0 else if n > 0 then Zpos (pos_of_int n) else Zneg (pos_of_int (-n))
let n_of_int n = if n = 0 then N0 else Npos (pos_of_int n)
let rec int_of_pos = function XH -> 1 | XO p -> 2 * int_of_pos p | XI p -> 2 * int_of_pos p + 1
let int_of_z = function Z0 -> 0 | Zpos p -> int_of_pos p | Zneg p -> - (int_of_pos p)
let int_of_n = function N0 -> 0 | Npos p -> int_of_pos p

let bytes_of_hex s =
  if s = "-" then [] else
  let n = String.length s / 2 in
  List.init n (fun i -> n_of_int (int_of_string ("0x" ^ String.sub s (2 * i) 2)))
let hex_of_bytes l =
  if l = [] then "-" else String.concat "" (List.map (fun b -> Printf.sprintf "%02x" (int_of_n b)) l)
let zbytes_of_hex s = List.map (fun b -> z_of_int (int_of_n b)) (bytes_of_hex s)
let hex_of_zbytes l =
  if l = [] then "-" else String.concat "" (List.map (fun b -> Printf.sprintf "%02x" (int_of_z b)) l)

let bool_of_tok s = s <> "0"
let tok_of_bool b = if b then "1" else "0"
let zi s = z_of_int (int_of_string s)
let opt_z s = if s = "none" then None else Some (zi s)

(* digest shared with the Rust harness: h' = (h * 1000003 + v + 1) mod (2^40 - 87) *)
let dg_mod = (1 lsl 40) - 87
let dg_step h v = ((h * 1000003) mod dg_mod + v + 1) mod dg_mod

let handlers : (string, string list -> string) Hashtbl.t = Hashtbl.create 64
let register name f = Hashtbl.replace handlers name f

let toa_one sf bw cr pre hdr len =
  if not (toa_safe sf bw cr pre hdr len) then -1
  else int_of_z (toa_us sf bw cr pre hdr len)

let () =
  register "toa" (function
    | [sf; bw; cr; pre; hdr; len] ->
      let v = toa_one (zi sf) (zi bw) (zi cr) (opt_z pre) (bool_of_tok hdr) (zi len) in
      if v < 0 then "PANIC" else string_of_int v
    | _ -> "BADARGS");
  register "toa_spec" (function
    | [sf; bw; cr; pre; hdr; len] ->
      string_of_int (int_of_z (airtime_us (bw_hz (zi bw)) (zi sf) (zi cr) (opt_z pre) (bool_of_tok hdr) (zi len)))
    | _ -> "BADARGS");
  (* digest over len = 0..255 *)
  register "toa_sweep" (function
    | [sf; bw; cr; pre; hdr] ->
      let h = ref 0 and panics = ref 0 in
      for len = 0 to 255 do
        let v = toa_one (zi sf) (zi bw) (zi cr) (opt_z pre) (bool_of_tok hdr) (z_of_int len) in
        if v < 0 then incr panics;
        h := dg_step !h v
      done;
      Printf.sprintf "%d %d" !h !panics
    | _ -> "BADARGS");
  register "ldro_toa" (function
    | [sf; bw] -> tok_of_bool (ldro (zi sf) (zi bw))
    | _ -> "BADARGS");
  register "delay_in_symbols" (function
    | [sf; bw; ms] ->
      if delay_in_symbols_safe (zi sf) (zi bw) (zi ms) then string_of_int (int_of_z (delay_in_symbols (zi sf) (zi bw) (zi ms)))
      else "PANIC"
    | _ -> "BADARGS");
  register "symbols_to_ms" (function
    | [sf; bw; n] ->
      if symbols_to_ms_safe (zi sf) (zi bw) (zi n) then string_of_int (int_of_z (symbols_to_ms (zi sf) (zi bw) (zi n)))
      else "PANIC"
    | _ -> "BADARGS")


let rec nat_of_int n = if n <= 0 then O else S (nat_of_int (n - 1))
let rec int_of_nat = function O -> 0 | S n -> 1 + int_of_nat n
let ni s = n_of_int (int_of_string s)
let err_name = function
  | TooShort -> "TooShort" | UnsupportedMajorVersion -> "UnsupportedMajorVersion"
  | UnsupportedMessageType -> "UnsupportedMessageType" | UnexpectedMessageType -> "UnexpectedMessageType"
  | NotADataFrame -> "NotADataFrame" | InvalidLength -> "InvalidLength" | TruncatedFhdr -> "TruncatedFhdr"
  | MissingKey -> "MissingKey" | InvalidMic -> "InvalidMic" | BufferTooShort -> "BufferTooShort"
  | FOptsTooLong -> "FOptsTooLong" | FOptsWithFPortZero -> "FOptsWithFPortZero"
let ftype_of_int = function 0 -> UnconfirmedUp | 1 -> UnconfirmedDown | 2 -> ConfirmedUp | _ -> ConfirmedDown
let int_of_ftype = function UnconfirmedUp -> 0 | UnconfirmedDown -> 1 | ConfirmedUp -> 2 | ConfirmedDown -> 3
let canary n = List.init n (fun _ -> n_of_int 0xAA)
let opt_key s = if s = "none" then None else Some (bytes_of_hex s)
(* 64-bit identifiers do not fit OCaml's 63-bit int: parse decimal strings into N by Horner *)
let n_of_dec (s : string) : n =
  let ten = n_of_int 10 in
  let acc = ref N0 in
  String.iter (fun c -> acc := N.add (N.mul !acc ten) (n_of_int (Char.code c - 48))) s; !acc
let rec dec_of_n (v : n) : string =
  match v with
  | N0 -> "0"
  | _ ->
    let ten = n_of_int 10 in
    let rec go v acc = match v with N0 -> acc | _ -> go (N.div v ten) (string_of_int (int_of_n (N.modulo v ten)) ^ acc) in
    go v ""

let parse_payload pl =
  if pl = "none" then PNone
  else if String.length pl >= 5 && String.sub pl 0 5 = "data:" then begin
    let rest = String.sub pl 5 (String.length pl - 5) in
    let i = String.index rest ':' in
    PData (ni (String.sub rest 0 i), bytes_of_hex (String.sub rest (i + 1) (String.length rest - i - 1)))
  end else PMac (bytes_of_hex (String.sub pl 4 (String.length pl - 4)))

let mk_frame a =
  match a with
  | ft :: addr :: flags :: fcnt :: fopts :: pl :: nwk :: app :: rest ->
    let f = int_of_string flags in
    ({ df_type = ftype_of_int (int_of_string ft); df_addr = n_of_dec addr;
       df_adr = f land 8 <> 0; df_adr_ack_req = f land 4 <> 0; df_ack = f land 2 <> 0; df_f_pending = f land 1 <> 0;
       df_fcnt = n_of_dec fcnt; df_f_opts = bytes_of_hex fopts; df_payload = parse_payload pl },
     bytes_of_hex nwk, opt_key app, rest)
  | _ -> failwith "frame args"

let parse_cflist s =
  if s = "none" then None
  else if String.sub s 0 4 = "dyn:" then
    Some (CfDynamic (List.map n_of_dec (String.split_on_char ',' (String.sub s 4 (String.length s - 4)))))
  else Some (CfFixed (bytes_of_hex (String.sub s 4 (String.length s - 4))))
let cflist_str = function
  | None -> "none"
  | Some (CfDynamic f) -> "dyn:" ^ String.concat "," (List.map dec_of_n f)
  | Some (CfFixed m) -> "fix:" ^ hex_of_bytes m

let built r buf =
  match r with
  | Ok (b, n) -> Printf.sprintf "OK %d %s" (int_of_nat n) (hex_of_bytes b)
  | Err e -> Printf.sprintf "ERR %s %s" (err_name e) (hex_of_bytes buf)

let describe_data bs (l : layout) frm =
  let fc = v_fctrl bs in
  let up = (match l.l_type with UnconfirmedUp | ConfirmedUp -> true | _ -> false) in
  Printf.sprintf "type=%d addr=%s fctrl=%d adr=%s adrackreq=%s ack=%s fpending=%s foptslen=%d fcnt=%d fopts=%s fport=%s frm=%s mic=%s"
    (int_of_ftype l.l_type) (dec_of_n (v_dev_addr bs)) (int_of_n fc)
    (tok_of_bool (fc_adr fc)) (tok_of_bool (fc_adr_ack_req fc up)) (tok_of_bool (fc_ack fc)) (tok_of_bool (fc_f_pending fc up))
    (int_of_n (fc_f_opts_len fc)) (int_of_n (v_fcnt bs)) (hex_of_bytes (v_f_opts bs l))
    (match v_f_port bs l with None -> "none" | Some p -> string_of_int (int_of_n p))
    frm (hex_of_bytes (mic_of bs))

let () =
  register "build_data" (fun a ->
    match a with
    | _variant :: rest ->
      let (d, nwk, app, r) = mk_frame rest in
      let buf = canary (int_of_string (List.hd r)) in
      built (x_build_data d nwk app buf) buf
    | _ -> "BADARGS");
  register "spec_data" (fun a ->
    match a with
    | _variant :: rest ->
      let (d, nwk, app, _) = mk_frame rest in
      (match x_spec_data d nwk app with None -> "FORBIDDEN" | Some f -> "OK " ^ hex_of_bytes f)
    | _ -> "BADARGS");
  register "build_jr" (function
    | [_variant; je; de; dn; key; buflen] ->
      let buf = canary (int_of_string buflen) in
      built (x_build_join_request (n_of_dec je) (n_of_dec de) (n_of_dec dn) (bytes_of_hex key) buf) buf
    | _ -> "BADARGS");
  register "spec_jr" (function
    | [_variant; je; de; dn; key; _] ->
      "OK " ^ hex_of_bytes (x_spec_join_request (n_of_dec je) (n_of_dec de) (n_of_dec dn) (bytes_of_hex key))
    | _ -> "BADARGS");
  register "build_ja" (function
    | [jn; nid; da; dls; rxd; cfl; key; buflen] ->
      let buf = canary (int_of_string buflen) in
      built (x_build_join_accept (n_of_dec jn) (n_of_dec nid) (n_of_dec da) (ni dls) (ni rxd) (parse_cflist cfl) (bytes_of_hex key) buf) buf
    | _ -> "BADARGS");
  register "spec_ja" (function
    | [jn; nid; da; dls; rxd; cfl; key; _] ->
      "OK " ^ hex_of_bytes (x_spec_join_accept (n_of_dec jn) (n_of_dec nid) (n_of_dec da) (ni dls) (ni rxd) (parse_cflist cfl) (bytes_of_hex key))
    | _ -> "BADARGS");
  register "parse_phy" (function
    | [b] -> (match x_parse_phy (bytes_of_hex b) with
              | Ok N0 -> "JR" | Ok (Npos XH) -> "JA" | Ok _ -> "DATA" | Err e -> "ERR " ^ err_name e)
    | _ -> "BADARGS");
  register "parse_data" (function
    | [mode; b; nwk; app; fcnt] ->
      let bs = bytes_of_hex b in
      let fc = n_of_dec fcnt in
      (match mode with
       | "parse" ->
         (match x_validate bs with
          | Err e -> "ERR " ^ err_name e
          | Ok l -> describe_data bs l ("enc:" ^ hex_of_bytes (v_frm bs l)))
       | "mic" ->
         (match x_validate bs with
          | Err e -> "ERR " ^ err_name e
          | Ok _ -> "MIC " ^ tok_of_bool (x_validate_mic bs (bytes_of_hex nwk) fc))
       | "decrypt" | "check" ->
         let (r, buf) =
           if mode = "decrypt" then x_decrypt_in_place bs (opt_key nwk) (opt_key app) fc
           else x_check_mic_and_decrypt bs (bytes_of_hex nwk) (opt_key app) fc in
         let s = (match r with
           | Err e -> "ERR " ^ err_name e
           | Ok l ->
             let frm = v_frm buf l in
             let f = (match v_f_port buf l with
               | None -> "none:-"
               | Some N0 -> "mac:" ^ hex_of_bytes frm
               | Some _ -> "data:" ^ hex_of_bytes frm) in
             "OK " ^ describe_data buf l f) in
         s ^ " buf=" ^ hex_of_bytes buf
       | _ -> "BADARGS")
    | _ -> "BADARGS");
  register "spec_mic" (function
    | [b; nwk; fcnt] ->
      let bs = bytes_of_hex b in
      if x_wf_wire bs then
        "MIC " ^ tok_of_bool (hex_of_bytes (x_spec_mic bs (bytes_of_hex nwk) (n_of_dec fcnt)) = hex_of_bytes (mic_of bs))
      else "MALFORMED"
    | _ -> "BADARGS");
  register "parse_jr" (function
    | [b; key] ->
      let bs = bytes_of_hex b in
      (match x_parse_join_request bs with
       | Err e -> "ERR " ^ err_name e
       | Ok _ ->
         let sl a b = le_value (List.filteri (fun i _ -> i >= a && i < b) bs) in
         Printf.sprintf "OK joineui=%s deveui=%s devnonce=%s mic=%s micok=%s"
           (dec_of_n (sl 1 9)) (dec_of_n (sl 9 17)) (dec_of_n (sl 17 19)) (hex_of_bytes (mic_of bs))
           (tok_of_bool (x_jr_validate_mic bs (bytes_of_hex key))))
    | _ -> "BADARGS");
  register "ja_decrypt" (function
    | [mode; b; key; dn] ->
      let bs = bytes_of_hex b and k = bytes_of_hex key in
      let (r, buf) = if mode = "check" then x_ja_check_mic_and_decrypt bs k else x_ja_decrypt_in_place bs k in
      let s = (match r with
        | Err e -> "ERR " ^ err_name e
        | Ok _ ->
          let dls = int_of_n (ja_dl_settings buf) in
          Printf.sprintf "OK micok=%s joinnonce=%s netid=%s devaddr=%s dls=%d rx1off=%d rx2dr=%d rxdelay=%d cflist=%s mic=%s nwkskey=%s appskey=%s"
            (tok_of_bool (x_ja_validate_mic buf k)) (dec_of_n (ja_join_nonce buf)) (dec_of_n (ja_net_id buf))
            (dec_of_n (ja_dev_addr buf)) dls ((dls lsr 4) land 7) (dls land 15) (int_of_n (ja_rx_delay buf))
            (cflist_str (ja_c_f_list buf)) (hex_of_bytes (mic_of buf))
            (hex_of_bytes (x_derive_session_key buf (n_of_int 1) (n_of_dec dn) k))
            (hex_of_bytes (x_derive_session_key buf (n_of_int 2) (n_of_dec dn) k))) in
      s ^ " buf=" ^ hex_of_bytes buf
    | _ -> "BADARGS");
  register "aes" (function
    | [m; key; blk] ->
      hex_of_bytes ((if m = "enc" then aes_encrypt else aes_decrypt) (bytes_of_hex key) (bytes_of_hex blk))
    | _ -> "BADARGS");
  register "cmac" (function
    | [_v; key; b0; data] ->
      let full = aes_cmac (bytes_of_hex key) (bytes_of_hex b0 @ bytes_of_hex data) in
      hex_of_bytes (List.filteri (fun i _ -> i < 4) full)
    | _ -> "BADARGS")


let table_of = function
  | "dl_mac" -> dl_mac_table | "ul_mac" -> ul_mac_table | "dl_dut" -> dl_dut_table
  | "ul_dut" -> ul_dut_table | "dl_mc" -> dl_mc_table | "ul_mc" -> ul_mc_table
  | _ -> failwith "set"
let item_str = function
  | IOk (cid, p) -> Printf.sprintf "%d:%s" (int_of_n cid) (hex_of_bytes p)
  | IErr (UnknownCid c) -> Printf.sprintf "E:U%d" (int_of_n c)
  | IErr (Truncated c) -> Printf.sprintf "E:T%d" (int_of_n c)
  | IPanic -> "PANIC"
let mc_listing set data =
  let items = parse_all (table_of set) data in
  if List.exists (fun i -> i = IPanic) items then "PANIC"
  else if items = [] then "-" else String.concat "," (List.map item_str items)

let () =
  register "mc_parse" (function
    | [set; h] -> mc_listing set (bytes_of_hex h)
    | _ -> "BADARGS");
  register "mc_sweep" (function
    | [set; pre; n] ->
      let pre = bytes_of_hex pre and n = int_of_string n in
      let h = ref 0 and panics = ref 0 in
      let total = 1 lsl (8 * n) in
      for x = 0 to total - 1 do
        let tail = List.init n (fun k -> n_of_int ((x lsr (8 * (n - 1 - k))) land 0xff)) in
        let s = mc_listing set (pre @ tail) in
        if s = "PANIC" then (incr panics; h := dg_step !h (-1))
        else begin
          String.iter (fun c -> h := dg_step !h (Char.code c)) s;
          h := dg_step !h 1000
        end
      done;
      Printf.sprintf "%d %d" !h !panics
    | _ -> "BADARGS")


let set_index = function
  | "dl_mac" -> 0 | "ul_mac" -> 1 | "dl_dut" -> 2 | "ul_dut" -> 3 | "dl_mc" -> 4 | "ul_mc" -> 5 | _ -> failwith "set"
let rec dec_of_z (v : z) : string =
  match v with
  | Z0 -> "0"
  | Zpos p -> dec_of_n (Npos p)
  | Zneg p -> "-" ^ dec_of_n (Npos p)
let z_of_dec (s : string) : z =
  if String.length s > 0 && s.[0] = '-' then
    (match n_of_dec (String.sub s 1 (String.length s - 1)) with N0 -> Z0 | Npos p -> Zneg p)
  else (match n_of_dec s with N0 -> Z0 | Npos p -> Zpos p)

let () =
  (* pl_new <kind> <hex>: the public payload constructors (Model/MacCmd.v fixed_new / mcstatus_new) and the accessors of the view *)
  register "pl_new" (function
    | [kind; h] ->
      let data = bytes_of_hex h in
      let nth l k = (match List.nth_opt l k with Some x -> x | None -> N0) in
      (match kind with
       | "mcstatus" ->
         (match mcstatus_new data with
          | None -> "ERR"
          | Some v ->
            let items = mcstatus_items (nat_of_int 6) (match v with [] -> [] | _ :: r -> r) in
            let its = List.map (fun it -> Printf.sprintf "%s:%s" (dec_of_n (nth it 0)) (dec_of_n (le_value (List.tl it)))) items in
            String.trim (Printf.sprintf "OK %d %s %s %s" (List.length v) (dec_of_n (mcstatus_mask v)) (dec_of_n (mcstatus_total v)) (String.concat " " its)))
       | "linkadr" ->
         (match fixed_new (nat_of_int 4) data with
          | None -> "ERR"
          | Some v -> Printf.sprintf "OK %d %d %s %s" (int_of_n (nth v 0) lsr 4) (int_of_n (nth v 0) land 15) (hex_of_bytes [nth v 1; nth v 2]) (dec_of_n (nth v 3)))
       | "chmask2" | "chmask9" ->
         (match chmask_new (nat_of_int (if kind = "chmask2" then 2 else 9)) data with
          | None -> "ERR"
          | Some v -> "OK " ^ hex_of_bytes v)
       | "devstatus" ->
         (match fixed_new (nat_of_int 2) data with
          | None -> "ERR"
          | Some v -> let m = int_of_n (nth v 1) land 63 in Printf.sprintf "OK %s %d" (dec_of_n (nth v 0)) (if m >= 32 then m - 64 else m))
       | _ -> "BADARGS")
    | _ -> "BADARGS");
  register "mc_read" (function
    | [set; h] ->
      let data = bytes_of_hex h in
      let items = parse_all (table_of set) data in
      if List.exists (fun i -> i = IPanic) items then "PANIC" else begin
        let listing = if items = [] then "-" else String.concat "," (List.map item_str items) in
        let accs = List.filter_map (function
          | IOk (cid, p) -> Some (String.concat " " (List.map dec_of_z (mc_get (n_of_int (set_index set)) cid p)))
          | _ -> None) items in
        listing ^ " | " ^ String.concat " ; " accs
      end
    | _ -> "BADARGS");
  register "mc_build" (function
    | c :: args ->
      let c = ni c in
      (match cr_new c with
       | None -> "BADARGS"
       | Some cr0 ->
         let rec go k cr = function
           | [] -> hex_of_bytes (mc_build c cr)
           | a :: rest ->
             let i = String.index a '=' in
             let f = ni (String.sub a 0 i) and v = String.sub a (i + 1) (String.length a - i - 1) in
             let (zv, w, raw) =
               if String.length v > 0 && v.[0] = 'x' then (Z0, N0, bytes_of_hex (String.sub v 1 (String.length v - 1)))
               else (match String.index_opt v ':' with
                     | Some j -> (z_of_dec (String.sub v 0 j), n_of_dec (String.sub v (j + 1) (String.length v - j - 1)), [])
                     | None -> (z_of_dec v, N0, [])) in
             (match mc_set c f zv w raw cr with
              | SOk cr' -> go (k + 1) cr' rest
              | SErr -> Printf.sprintf "ERR %d" k
              | SPanic -> "PANIC")
         in go 0 cr0 args)
    | _ -> "BADARGS");
  register "mc_seq" (function
    | [n; ids] ->
      let n = int_of_string n in
      let ids = if ids = "-" then [] else List.map ni (String.split_on_char ',' ids) in
      let builds = List.map (fun c -> match cr_new c with Some cr -> mc_build c cr | None -> failwith "id") ids in
      let all = List.concat builds in
      let buf = canary n in
      if List.length all > n then "ERR " ^ hex_of_bytes buf
      else Printf.sprintf "OK %d %s" (List.length all)
             (hex_of_bytes (all @ List.filteri (fun i _ -> i >= List.length all) buf))
    | _ -> "BADARGS");
  register "ident" (fun a ->
    let width = function
      | "devaddr" | "mcaddr" -> 4 | "devnonce" -> 2 | "joinnonce" | "netid" -> 3 | "deveui" | "joineui" -> 8
      | _ -> failwith "type" in
    let str_of l = String.init (List.length l) (fun i -> Char.chr (int_of_n (List.nth l i))) in
    let codes s = List.init (String.length s) (fun i -> n_of_int (Char.code s.[i])) in
    match a with
    | ["parse"; t; s] when t <> "key" && t <> "keys_deveui" ->
      (match from_hex_msb (nat_of_int (width t)) (codes s) with Some v -> dec_of_n v | None -> "ERR")
    | ["parse"; "key"; s] ->
      (* hex::decode_to_slice into 16 bytes, MSB-first as stored *)
      if String.length s mod 2 = 1 || String.length s <> 32 then "ERR"
      else (match from_hex_msb (nat_of_int 16) (codes s) with Some _ -> String.lowercase_ascii s | None -> "ERR")
    | ["parse"; "keys_deveui"; s] ->
      if String.length s <> 16 then "ERR"
      else (match from_hex_msb (nat_of_int 8) (codes s) with
            | Some v -> hex_of_bytes (le_bytes (nat_of_int 8) v) | None -> "ERR")
    | ["key"; h] -> h ^ " " ^ h
    | ["keys_deveui"; h] ->
      let v = le_value (bytes_of_hex h) in
      let s = str_of (to_hex_msb (nat_of_int 8) v) in s ^ " " ^ h
    | [t; v] ->
      let w = width t in
      let v = n_of_dec v in
      let s = to_hex_msb (nat_of_int w) v in
      let back = (match from_hex_msb (nat_of_int w) s with Some x -> dec_of_n x | None -> "ERR") in
      Printf.sprintf "%s %s %s" (str_of s) back (hex_of_bytes (le_bytes (nat_of_int w) v))
    | _ -> "BADARGS")


(* ------------------------------------------------------------------ MAC histories *)
let arr_str (l : n list) = "[" ^ String.concat ", " (List.map (fun b -> Printf.sprintf "%02x" (int_of_n b)) l) ^ "]"
let optn = function None -> "-1" | Some v -> dec_of_n v
let rf_str (rf : rf_config) = Printf.sprintf "%s/%d/%d/%d" (dec_of_n rf.rf_freq) (int_of_n rf.rf_sf) (int_of_n rf.rf_bw) (int_of_n rf.rf_max_payload)
let resp_str = function
  | RNoAck -> "NoAck" | RSessionExpired -> "SessionExpired" | RDownlinkReceived f -> "DownlinkReceived(" ^ dec_of_n f ^ ")"
  | RNoJoinAccept -> "NoJoinAccept" | RJoinSuccess -> "JoinSuccess" | RNoUpdate -> "NoUpdate" | RRxComplete -> "RxComplete"
let snapshot (m : mac) =
  let c = m.m_cfg in
  let cfg = Printf.sprintf "dr=%d rx1_delay=%s pw=%s rx1off=%d rx2dr=%s rx2f=%s adr=%s"
    (int_of_n c.cf_data_rate) (dec_of_n c.cf_rx1_delay) (optn c.cf_tx_power) (int_of_n c.cf_rx1_dr_offset)
    (optn c.cf_rx2_data_rate) (optn c.cf_rx2_frequency) (tok_of_bool c.cf_adr) in
  let st = (match m.m_state with
    | Unjoined -> "unjoined" | Otaa (_, _) -> "otaa"
    | Joined s -> Printf.sprintf "joined addr=%s up=%s down=%s adrcnt=%s conf=%s owed=%s pending=%s nwk=%s app=%s"
        (dec_of_n s.ss_devaddr) (dec_of_n s.ss_fcnt_up) (optn s.ss_fcnt_down) (dec_of_n s.ss_adr_ack_cnt)
        (tok_of_bool s.ss_confirmed) (tok_of_bool s.ss_owed_ack) (arr_str s.ss_pending) (arr_str s.ss_nwkskey) (arr_str s.ss_appskey)) in
  let rg = (match m.m_region.rg_plan with
    | PDyn p ->
      let chs = List.map (function None -> "-" | Some c -> Printf.sprintf "%s/%d/%s" (dec_of_n c.ch_freq) (int_of_n c.ch_drs) (optn c.ch_dl)) p.dp_channels in
      Printf.sprintf "dyn ch=%s mask=%s" (String.concat "," chs) (arr_str p.dp_mask)
    | PFix p ->
      let j = p.fp_jc in
      Printf.sprintf "fix mask=%s jc=%s,%s,%s,%s,%s,%s" (arr_str p.fp_mask) (dec_of_n j.jc_max_retries) (dec_of_n j.jc_num_retries)
        (optn j.jc_preferred) (arr_str j.jc_avail) (optn j.jc_avail_prev) (dec_of_n j.jc_previous)) in
  cfg ^ " | " ^ st ^ " | " ^ rg
let draws_of s = if s = "-" then [] else List.map n_of_dec (String.split_on_char ',' s)
let tx_str (o : tx_out) =
  Printf.sprintf "TX pw=%s rf=%s rx1=%s rx2=%s cnt=%s frame=%s" (dec_of_z o.to_tx.tx_pw) (rf_str o.to_tx.tx_rf)
    (rf_str o.to_rx1) (rf_str o.to_rx2) (dec_of_n o.to_counter) (hex_of_bytes o.to_frame)

exception Stop of string
(* ---- JSON glue for the persistence model (C20): text <-> Persist.jv.  Trusted: a plain recursive-descent reader and a printer
   that mimics serde_json's compact output.  Integers of any size become JInt (decimal -> Z); floats / exponents / strings JOther. *)
exception Json_syntax
let key_of_string = function
  | "uplink" -> Kuplink | "confirmed" -> Kconfirmed | "nwkskey" -> Knwkskey | "appskey" -> Kappskey | "devaddr" -> Kdevaddr
  | "fcnt_up" -> Kfcnt_up | "fcnt_down" -> Kfcnt_down | "adr_ack_cnt" -> Kadr_ack_cnt | "pending_len" -> Kpending_len
  | "pending_data" -> Kpending_data | s -> Kother (n_of_int (Hashtbl.hash s land 0xFFFFFF + 1))
let string_of_key = function
  | Kuplink -> "uplink" | Kconfirmed -> "confirmed" | Knwkskey -> "nwkskey" | Kappskey -> "appskey" | Kdevaddr -> "devaddr"
  | Kfcnt_up -> "fcnt_up" | Kfcnt_down -> "fcnt_down" | Kadr_ack_cnt -> "adr_ack_cnt" | Kpending_len -> "pending_len"
  | Kpending_data -> "pending_data" | Kother _ -> "other"
let z_of_decimal (s : string) : z =
  (* s: optional '-' then digits *)
  let neg = String.length s > 0 && s.[0] = '-' in
  let digits = if neg then String.sub s 1 (String.length s - 1) else s in
  let ten = n_of_int 10 in
  let v = ref N0 in
  String.iter (fun c -> v := N.add (N.mul !v ten) (n_of_int (Char.code c - 48))) digits;
  match !v with N0 -> Z0 | Npos p -> if neg then Zneg p else Zpos p
let parse_json (s : string) : jv =
  let n = String.length s in
  let i = ref 0 in
  let peek () = if !i < n then s.[!i] else raise Json_syntax in
  let ws () = while !i < n && (s.[!i] = ' ' || s.[!i] = '\n' || s.[!i] = '\t' || s.[!i] = '\r') do incr i done in
  let expect c = if peek () = c then incr i else raise Json_syntax in
  let lit w v = if !i + String.length w <= n && String.sub s !i (String.length w) = w then (i := !i + String.length w; v) else raise Json_syntax in
  let str () =
    expect '"';
    let b = Buffer.create 16 in
    while peek () <> '"' do
      if peek () = '\\' then (incr i; Buffer.add_char b (peek ()); incr i) else (if Char.code (peek ()) < 32 then raise Json_syntax; Buffer.add_char b (peek ()); incr i)
    done; incr i; Buffer.contents b in
  let rec value () =
    ws ();
    match peek () with
    | 'n' -> lit "null" JNull
    | 't' -> lit "true" (JBool true)
    | 'f' -> lit "false" (JBool false)
    | '"' -> ignore (str ()); JOther
    | '[' ->
      incr i; ws ();
      if peek () = ']' then (incr i; JArr []) else begin
        let items = ref [value ()] in
        ws ();
        while peek () = ',' do incr i; items := value () :: !items; ws () done;
        expect ']'; JArr (List.rev !items) end
    | '{' ->
      incr i; ws ();
      if peek () = '}' then (incr i; JObj []) else begin
        let one () = ws (); let k = str () in ws (); expect ':'; let v = value () in (key_of_string k, v) in
        let items = ref [one ()] in
        ws ();
        while peek () = ',' do incr i; items := one () :: !items; ws () done;
        expect '}'; JObj (List.rev !items) end
    | c when c = '-' || (c >= '0' && c <= '9') ->
      let st = !i in
      if c = '-' then incr i;
      let d0 = !i in
      while !i < n && s.[!i] >= '0' && s.[!i] <= '9' do incr i done;
      if !i = d0 then raise Json_syntax;
      if !i - d0 > 1 && s.[d0] = '0' then raise Json_syntax;
      let is_int = not (!i < n && (s.[!i] = '.' || s.[!i] = 'e' || s.[!i] = 'E')) in
      if is_int then begin
        (* serde_json reads "-0" as the float -0.0 (to keep the sign), which no integer field accepts *)
        match z_of_decimal (String.sub s st (!i - st)) with
        | Z0 when c = '-' -> JOther
        | z -> JInt z end
      else begin
        if s.[!i] = '.' then (incr i; let f0 = !i in while !i < n && s.[!i] >= '0' && s.[!i] <= '9' do incr i done; if !i = f0 then raise Json_syntax);
        if !i < n && (s.[!i] = 'e' || s.[!i] = 'E') then begin
          incr i; if !i < n && (s.[!i] = '+' || s.[!i] = '-') then incr i;
          let e0 = !i in while !i < n && s.[!i] >= '0' && s.[!i] <= '9' do incr i done; if !i = e0 then raise Json_syntax end;
        JOther end
    | _ -> raise Json_syntax in
  let v = value () in
  ws (); if !i <> n then raise Json_syntax; v
let dec_of_z = function Z0 -> "0" | Zpos p -> dec_of_n (Npos p) | Zneg p -> "-" ^ dec_of_n (Npos p)
let rec print_json = function
  | JNull -> "null" | JBool b -> if b then "true" else "false" | JInt z -> dec_of_z z | JOther -> "\"?\""
  | JArr l -> "[" ^ String.concat "," (List.map print_json l) ^ "]"
  | JObj l -> "{" ^ String.concat "," (List.map (fun (k, v) -> "\"" ^ string_of_key k ^ "\":" ^ print_json v) l) ^ "}"
let string_of_hex h = let b = Buffer.create 64 in List.iter (fun x -> Buffer.add_char b (Char.chr (int_of_n x))) (bytes_of_hex h); Buffer.contents b

let run_mac_history (line : string) : string =
  let parts = List.map String.trim (String.split_on_char '|' line) in
  let head = List.filter (fun s -> s <> "") (String.split_on_char ' ' (List.hd parts)) in
  let r = ref 5 and p = ref 14 and g = ref 0 and bias = ref "-" in
  List.iter (fun kv -> match String.index_opt kv '=' with
    | Some i -> let k = String.sub kv 0 i and v = String.sub kv (i + 1) (String.length kv - i - 1) in
      (match k with "r" -> r := int_of_string v | "p" -> p := int_of_string v | "g" -> g := int_of_string v | "bias" -> bias := v | _ -> ())
    | None -> ()) (List.tl head);
  let m0 = mac_new (n_of_int !r) (n_of_int !p) (z_of_int !g) in
  let m0 = if !bias <> "-" && (!r = 4 || !r = 8) then begin
      let i = String.index !bias ':' in
      let sb = int_of_string (String.sub !bias 0 i) and nr = int_of_string (String.sub !bias (i + 1) (String.length !bias - i - 1)) in
      (match m0.m_region.rg_plan with
       | PFix fp -> with_region m0 { rg_id = m0.m_region.rg_id;
                                     rg_plan = PFix { fp_mask = fp.fp_mask;
                                                      fp_jc = { fp.fp_jc with jc_preferred = Some (n_of_int sb); jc_max_retries = n_of_int nr } } }
       | _ -> m0)
    end else m0 in
  let m = ref m0 in
  let out = ref [] in
  let queue : (n * n list) list ref = ref [] in
  (try
    List.iter (fun op ->
      let a = List.filter (fun s -> s <> "") (String.split_on_char ' ' op) in
      match a with
      | [] -> ()
      | "otaa" :: de :: ae :: key :: dr :: _ ->
        (match x_join_otaa !m { cr_deveui = n_of_dec de; cr_appeui = n_of_dec ae; cr_appkey = bytes_of_hex key } (draws_of dr) with
         | Val o -> m := o.to_mac; out := tx_str o :: !out
         | Panic -> raise (Stop "PANIC") | OutOfDraws -> raise (Stop "HANG"))
      | "abp" :: nwk :: app :: addr :: _ ->
        m := with_state !m (Joined (session_new (bytes_of_hex nwk) (bytes_of_hex app) (n_of_dec addr))); out := "ok" :: !out
      | "send" :: data :: port :: conf :: dr :: _ ->
        (match x_send !m (bytes_of_hex data) (ni port) (bool_of_tok conf) (draws_of dr) with
         | Val (SendOk o) -> m := o.to_mac; out := tx_str o :: !out
         | Val SendNotJoined -> out := "NotJoined" :: !out
         | Panic -> raise (Stop "PANIC") | OutOfDraws -> raise (Stop "HANG"))
      | (("rx" | "rxc") as k) :: h :: snr :: mp :: _ ->
        let bs = bytes_of_hex h in
        if List.length bs >= 256 then out := (Printf.sprintf "BufferTooSmall dl=none buf=-") :: !out else
        (match x_mac_handle_rx !m bs (zi snr) (ni mp) (k = "rxc") with
         | Val (Some o) ->
           m := o.mo_mac;
           let dl = (match o.mo_downlink with None -> "none" | Some (pt, d) -> Printf.sprintf "%d:%s" (int_of_n pt) (hex_of_bytes d)) in
           out := Printf.sprintf "%s dl=%s buf=%s" (resp_str o.mo_resp) dl (hex_of_bytes o.mo_buf) :: !out
         | Val None -> out := Printf.sprintf "Err(NotJoined) dl=none buf=%s" (hex_of_bytes bs) :: !out
         | Panic -> raise (Stop "PANIC") | OutOfDraws -> raise (Stop "HANG"))
      | (("rxk" | "rxck") as k) :: h :: snr :: mp :: _ ->
        (* the application does not collect the downlink: it stays in the queue (MacHarness: depth 8) until `drain` *)
        let bs = bytes_of_hex h in
        if List.length bs >= 256 then out := (Printf.sprintf "BufferTooSmall queued=%d buf=-" (List.length !queue)) :: !out else
        (match x_mac_handle_rx !m bs (zi snr) (ni mp) (k = "rxck") with
         | Val (Some o) ->
           m := o.mo_mac;
           queue := dl_queue_push (nat_of_int 8) !queue o.mo_downlink;
           out := Printf.sprintf "%s queued=%d buf=%s" (resp_str o.mo_resp) (List.length !queue) (hex_of_bytes o.mo_buf) :: !out
         | Val None -> out := Printf.sprintf "Err(NotJoined) queued=%d buf=%s" (List.length !queue) (hex_of_bytes bs) :: !out
         | Panic -> raise (Stop "PANIC") | OutOfDraws -> raise (Stop "HANG"))
      | "drain" :: _ ->
        out := (if !queue = [] then "none" else String.concat "," (List.map (fun (pt, d) -> Printf.sprintf "%d:%s" (int_of_n pt) (hex_of_bytes d)) !queue)) :: !out;
        queue := []
      | "rx2c" :: _ -> let (m', resp) = x_mac_rx2_complete !m in m := m'; out := resp_str resp :: !out
      | "dr" :: v :: _ -> m := set_datarate !m (ni v); out := "ok" :: !out
      | "adr" :: v :: _ -> m := set_adr !m (bool_of_tok v); out := "ok" :: !out
      | "snap" :: _ -> out := snapshot !m :: !out
      | "delays" :: _ ->
        out := Printf.sprintf "%s %s %s %s" (dec_of_n (get_rx_delay !m false false)) (dec_of_n (get_rx_delay !m false true))
                 (dec_of_n (get_rx_delay !m true false)) (dec_of_n (get_rx_delay !m true true)) :: !out
      | "rxcfg" :: _ ->
        (match x_rxc_config !m with Val rf -> out := rf_str rf :: !out | Panic -> raise (Stop "PANIC") | OutOfDraws -> raise (Stop "HANG"))
      | "patch" :: kvs ->
        (match !m.m_state with
         | Joined s0 ->
           let s = ref s0 in
           List.iter (fun kv -> let i = String.index kv '=' in
             let k = String.sub kv 0 i and v = String.sub kv (i + 1) (String.length kv - i - 1) in
             match k with
             | "up" -> s := { !s with ss_fcnt_up = n_of_dec v }
             | "down" -> s := { !s with ss_fcnt_down = (if v = "none" then None else Some (n_of_dec v)) }
             | _ -> s := { !s with ss_adr_ack_cnt = n_of_dec v }) kvs;
           m := with_state !m (Joined !s); out := "patched" :: !out
         | _ -> out := "nosession" :: !out)
      | "serde" :: _ ->
        (match !m.m_state with
         | Joined s0 -> (match restore s0 with
                         | Some s1 -> m := with_state !m (Joined s1); out := "restored" :: !out
                         | None -> out := "deser-error (model)" :: !out)
         | _ -> out := "nosession" :: !out)
      | "serjson" :: _ ->
        out := (match !m.m_state with Joined s0 -> print_json (ser_session s0) | _ -> "nosession") :: !out
      | "dejson" :: h :: _ ->
        (match (try Some (parse_json (string_of_hex h)) with Json_syntax -> None) with
         | None -> out := "rejected" :: !out
         | Some j -> (match de_session j with
                      | Some s1 -> m := with_state !m (Joined s1); out := ("accepted " ^ print_json (ser_session s1)) :: !out
                      | None -> out := "rejected" :: !out))
      | _ -> out := "BADOP" :: !out) (List.tl parts)
  with Stop s -> out := s :: !out);
  String.concat " ; " (List.rev !out)

let () =
  let opt_last s = if s = "none" then None else Some (n_of_dec s) in
  register "nfd" (function
    | [last; w] -> (match x_next_fcnt_down (opt_last last) (n_of_dec w) with Some n -> dec_of_n n | None -> "none")
    | _ -> "BADARGS");
  register "nfd_sweep" (function
    | [last] ->
      let l = opt_last last in
      let h = ref 0 and acc = ref 0 in
      for w = 0 to 65535 do
        (match x_next_fcnt_down l (n_of_int w) with
         | Some n -> incr acc; h := dg_step !h (int_of_n n)
         | None -> h := dg_step !h (-1))
      done;
      Printf.sprintf "%d %d" !h !acc
    | _ -> "BADARGS")

let chip_index = function
  | "sx1261" | "sx1262" | "stm32wl" -> 0 | "sx1276" -> 1 | "sx1272" -> 2 | "lr1110" -> 3
  | _ -> failwith "chip"

let () =
  register "ldro" (fun a ->
    match a with
    | chip :: sf :: bw :: rest ->
      let freq = (match rest with f :: _ -> zi f | [] -> z_of_int 868100000) in
      (match ldro_outcome (z_of_int (chip_index chip)) (zi sf) (zi bw) freq with
       | None -> "ERR"
       | Some (l, b) -> Printf.sprintf "%d %d" (int_of_z l) (int_of_z b))
    | _ -> "BADARGS");
  register "ldro_spec" (function
    | [sf; bw] -> tok_of_bool (ldro_required (zi sf) (bw_hz (zi bw)))
    | _ -> "BADARGS")

(* ------------------------------------------------------------------ PHY driver models (Model/PhyCore.v, Sx126x.v, Sx127x.v) *)
let hexs l = if l = [] then "-" else hex_of_bytes l
let iv_name = function IvReset -> "RESET" | IvBusy -> "BUSY" | IvIrq -> "IRQ" | IvSwRx -> "SWRX" | IvSwTx -> "SWTX" | IvSwOff -> "SWOFF"
let trace_str (t : tev list) : string =
  String.concat " " (List.map (function
    | TSpi segs -> String.concat "," (List.map (function TW b -> "w" ^ hexs b | TR d -> "r" ^ hexs d) segs)
    | TSpiFault -> "SPI!"
    | TIv c -> iv_name c
    | TIvFault c -> iv_name c ^ "!"
    | TDelay ns -> "DELAY" ^ dec_of_n ns
    | TIrqPending -> "IRQ-PENDING") t)
let dec_of_zz = function Z0 -> "0" | Zpos p -> dec_of_n (Npos p) | Zneg p -> "-" ^ dec_of_n (Npos p)
let rerr_str = function
  | ESpi -> "SPI" | EBusy -> "Busy" | EInvalidConfiguration -> "InvalidConfiguration" | EInvalidRadioMode -> "InvalidRadioMode"
  | EInvalidSyncWord -> "InvalidSyncWord" | EOpError s -> "OpError(" ^ dec_of_n s ^ ")"
  | EInvalidBaseAddress (a, b) -> "InvalidBaseAddress(" ^ dec_of_n a ^ ", " ^ dec_of_n b ^ ")"
  | EPayloadSizeUnexpected n -> "PayloadSizeUnexpected(" ^ dec_of_n n ^ ")"
  | EPayloadSizeMismatch (a, b) -> "PayloadSizeMismatch(" ^ dec_of_n a ^ ", " ^ dec_of_n b ^ ")"
  | EUnavailableSF -> "UnavailableSpreadingFactor" | EUnavailableBW -> "UnavailableBandwidth" | EInvalidBwForFreq -> "InvalidBandwidthForFrequency"
  | EInvalidSF6Explicit -> "InvalidSF6ExplicitHeaderRequest" | EInvalidPowerForFreq -> "InvalidOutputPowerForFrequency"
  | ETransmitTimeout -> "TransmitTimeout" | EReceiveTimeout -> "ReceiveTimeout" | EDutyCycleUnsupported -> "DutyCycleUnsupported"
  | ERngUnsupported -> "RngUnsupported" | EPanic -> "PANIC"
exception Phy_panic of string
(* run one operation; `show` renders an Ok value *)
let phy_step (c : chip ref) (p : 'a prog) (show : 'a -> string) : string =
  let ((c', tr), r) = run (nat_of_int 400) !c p [] in
  c := c';
  match r with
  | Some (Inl v) -> Printf.sprintf "%s :: %s" (show v) (trace_str tr)
  | Some (Inr EPanic) -> raise (Phy_panic (Printf.sprintf "PANIC :: %s" (trace_str tr)))
  | Some (Inr e) -> Printf.sprintf "Err(%s) :: %s" (rerr_str e) (trace_str tr)
  | None -> Printf.sprintf "OUT-OF-FUEL :: %s" (trace_str tr)
let unit_ok () = "Ok(())"
let irqmode_of = function "none" -> IqNone | "standby" -> IqStandby | "tx" -> IqTransmit | "rx" | "rxs" -> IqReceive | "cad" -> IqCad | _ -> IqOther
let irqstate_str = function IrqNoneYet -> "Ok(none)" | IrqPreamble -> "Ok(preamble)" | IrqDone None -> "Ok(done cad=0)" | IrqDone (Some b) -> "Ok(done cad=" ^ (if b then "1" else "0") ^ ")"
let run_phy_line (line : string) : string =
  let parts = List.map String.trim (String.split_on_char '|' line) in
  let head = List.filter (fun s -> s <> "") (String.split_on_char ' ' (List.hd parts)) in
  let get k d = List.fold_left (fun acc kv -> match String.index_opt kv '=' with
      | Some i when String.sub kv 0 i = k -> String.sub kv (i + 1) (String.length kv - i - 1) | _ -> acc) d (List.tl head) in
  let chipname = get "chip" "sx1262" in
  let is126 = not (String.length chipname >= 5 && String.sub chipname 0 5 = "sx127") in
  let regs0 = List.init 4096 (fun _ -> N0) in
  let regs = (match get "regs" "-" with "-" -> regs0 | v ->
      List.fold_left (fun r p -> match String.split_on_char ':' p with
          | [a; b] -> set_nthN r (nat_of_int ((int_of_string a) land 0xfff)) (ni b) | _ -> r) regs0 (String.split_on_char ',' v)) in
  let buf0 = (match get "buf" "-" with "-" -> [] | v -> bytes_of_hex v) in
  let buf = List.init 256 (fun i -> match List.nth_opt buf0 i with Some b -> b | None -> N0) in
  let c = ref { c_kind = (if is126 then K126 else K127); c_regs = regs; c_reads = (match get "reads" "-" with "-" -> [] | v -> bytes_of_hex v);
                c_fill = ni (get "fill" "0"); c_buf = buf; c_fifo = N0; c_events = N0;
                c_fault = (match get "fault" "-" with "-" -> None | v -> Some (ni v));
                c_drv = []; c_irq_calls = N0; c_irq_budget = n_of_int 6; c_pend = None; c_on_irq = [] } in
  let tcxo = (match get "tcxo" "-" with "-" -> None | v -> Some (ni v)) in
  let g = { g_low_power_pa = (chipname = "sx1261" || chipname = "stm32wl_lp");
            g_pa_table = (match chipname with "sx1261" | "stm32wl_lp" -> sx1261_pa_table | "stm32wl_hp" -> stm32wl_hp_pa_table | _ -> sx1262_pa_table);
            g_dio2_rfswitch = (chipname = "sx1261" || chipname = "sx1262");
            g_tcxo = tcxo; g_dcdc = bool_of_tok (get "dcdc" "0"); g_rx_boost = bool_of_tok (get "rxboost" "0") } in
  let h = { h_variant = (if chipname = "sx1272" then V1272 else V1276); h_tcxo = (tcxo <> None);
            h_tx_boost = bool_of_tok (get "txboost" "0"); h_rx_boost = bool_of_tok (get "rxboost" "0") } in
  let quirk = ref false in
  let out = ref [] in
  (try
    List.iter (fun op ->
      let a = List.filter (fun s -> s <> "") (String.split_on_char ' ' op) in
      if a <> [] then begin
      let r =
        if is126 then
        (match a with
        | ["init"; sw] -> phy_step c (init_lora_126 g (ni sw)) unit_ok
        | ["sync"; sw] -> phy_step c (sync_word_write (ni sw)) unit_ok
        | ["standby"] -> phy_step c set_standby_126 unit_ok
        | ["sleep"; w] -> phy_step c (set_sleep_126 (bool_of_tok w)) unit_ok
        | ["ready"; w] -> phy_step c (ensure_ready_126 (bool_of_tok w)) unit_ok
        | ["base"; t; r] -> phy_step c (set_buffer_base (ni t) (ni r)) unit_ok
        | ["power"; p; f; istx] -> phy_step c (set_tx_power_126 g (zi p) (if f = "-" then None else Some (ni f)) (bool_of_tok istx)) unit_ok
        | ["mod"; sf; bw; cr; f] ->
          (match create_mod_126 (ni sf) (ni bw) (ni cr) (ni f) with
           | Some e -> Printf.sprintf "CreateErr(%s) :: " (rerr_str e)
           | None ->
             let l = if ldro (z_of_int (int_of_string sf + 5)) (zi bw) then 1 else 0 in
             Printf.sprintf "ldro=%d %s" l (phy_step c (set_mod_126 (ni sf) (ni bw) (ni cr) (n_of_int l)) unit_ok))
        | ["pkt"; pre; im; len; crc; iq; sf] ->
          let pre' = create_pkt_preamble_126 (ni sf) (ni pre) in
          Printf.sprintf "pre=%s %s" (dec_of_n pre') (phy_step c (set_pkt_126 pre' (bool_of_tok im) (ni len) (bool_of_tok crc) (bool_of_tok iq)) unit_ok)
        | ["calimg"; f] -> phy_step c (calibrate_image_126 (ni f)) unit_ok
        | ["chan"; f] -> phy_step c (set_channel_126 (ni f)) unit_ok
        | ["payload"; h] -> phy_step c (set_payload_126 (bytes_of_hex h)) unit_ok
        | ["tx"] -> phy_step c do_tx_126 unit_ok
        | "rx" :: m :: rest ->
          let mode = (match m, rest with "s", [n] -> RxSingle (ni n) | "c", _ -> RxContinuous | _, [x; y] -> RxDuty (ni x, ni y) | _ -> RxContinuous) in
          phy_step c (do_rx_126 g mode) unit_ok
        | ["rxpayload"; im; _len; bl] ->
          let n = int_of_string bl in
          let canary = List.init n (fun _ -> n_of_int 0xA5) in
          let shown = ref [] in
          let r = (try phy_step c (get_rx_payload_126 (bool_of_tok im) (ni bl))
                         (fun (len, data) -> shown := data @ (List.filteri (fun i _ -> i >= List.length data) canary); "Ok(" ^ dec_of_n len ^ ")")
                   with Phy_panic s -> raise (Phy_panic s)) in
          (* result :: trace  ->  result buf=.. :: trace *)
          let i = (let rec find k = if k + 4 > String.length r then String.length r else if String.sub r k 4 = " :: " then k else find (k + 1) in find 0) in
          String.sub r 0 i ^ " buf=" ^ (if String.length r >= 2 && String.sub r 0 2 = "Ok" then hexs !shown else "*") ^ String.sub r i (String.length r - i)
        | ["status"] -> phy_step c pkt_status_126 (fun (rssi, snr) -> Printf.sprintf "Ok(rssi=%s snr=%s)" (dec_of_zz rssi) (dec_of_zz snr))
        | ["rssi"] -> phy_step c get_rssi_126 (fun v -> "Ok(" ^ dec_of_zz v ^ ")")
        | ["cad"; sf] -> phy_step c (do_cad_126 g (ni sf)) unit_ok
        | ["irq"; m] -> phy_step c (set_irq_126 (irqmode_of m)) unit_ok
        | ["cw"] -> phy_step c set_cw_126 unit_ok
        | ["clrirq"] -> phy_step c clear_irq_126 unit_ok
        | ["irqstate"; m] -> phy_step c (get_irq_state_126 (irqmode_of m)) irqstate_str
        | ["procirq"; m; clr] -> phy_step c (process_irq_126 (irqmode_of m) (m = "rxs") (bool_of_tok clr)) irqstate_str
        | _ -> "BADOP")
        else
        (match a with
        | ["init"; sw] -> phy_step c (init_lora_127 h (ni sw)) (fun q -> quirk := q; "Ok(())")
        | ["sync"; sw] -> phy_step c (set_sync_127 (ni sw)) unit_ok
        | ["standby"] -> phy_step c set_standby_127 unit_ok
        | ["sleep"; _] -> phy_step c set_sleep_127 unit_ok
        | ["ready"; _] -> "Ok(()) :: "
        | ["base"; t; r] -> phy_step c (set_buffer_base_127 (ni t) (ni r)) unit_ok
        | ["power"; p; _; istx] -> phy_step c (set_tx_power_127 h (zi p) (bool_of_tok istx)) unit_ok
        | ["mod"; sf; bw; cr; f] ->
          (match create_mod_127 h (ni sf) (ni bw) (ni cr) (ni f) with
           | Some EPanic -> raise (Phy_panic "PANIC :: ")
           | Some e -> Printf.sprintf "CreateErr(%s) :: " (rerr_str e)
           | None ->
             let l = if ldro (z_of_int (int_of_string sf + 5)) (zi bw) then 1 else 0 in
             Printf.sprintf "ldro=%d %s" l (phy_step c (set_mod_127 h !quirk (ni sf) (ni bw) (ni cr) (n_of_int l) (ni f)) unit_ok))
        | ["pkt"; pre; im; len; crc; iq; sf] ->
          (match create_pkt_127 (ni sf) (bool_of_tok im) with
           | Some e -> Printf.sprintf "CreateErr(%s) :: " (rerr_str e)
           | None -> Printf.sprintf "pre=%s %s" pre (phy_step c (set_pkt_127 h (ni pre) (bool_of_tok im) (ni len) (bool_of_tok crc) (bool_of_tok iq)) unit_ok))
        | ["calimg"; _] -> "Ok(()) :: "
        | ["chan"; f] -> phy_step c (set_channel_127 (ni f)) unit_ok
        | ["payload"; hx] -> phy_step c (set_payload_127 (bytes_of_hex hx)) unit_ok
        | ["tx"] -> phy_step c do_tx_127 unit_ok
        | "rx" :: m :: rest ->
          let mode = (match m, rest with "s", [n] -> RxSingle (ni n) | "c", _ -> RxContinuous | _, [x; y] -> RxDuty (ni x, ni y) | _ -> RxContinuous) in
          phy_step c (do_rx_127 h mode) unit_ok
        | ["rxpayload"; im; len; bl] ->
          let n = int_of_string bl in
          let canary = List.init n (fun _ -> n_of_int 0xA5) in
          let shown = ref [] in
          let r = phy_step c (get_rx_payload_127 (bool_of_tok im) (ni len) (ni bl))
                    (fun (len, data) -> shown := data @ (List.filteri (fun i _ -> i >= List.length data) canary); "Ok(" ^ dec_of_n len ^ ")") in
          let i = (let rec find k = if k + 4 > String.length r then String.length r else if String.sub r k 4 = " :: " then k else find (k + 1) in find 0) in
          String.sub r 0 i ^ " buf=" ^ (if String.length r >= 2 && String.sub r 0 2 = "Ok" then hexs !shown else "*") ^ String.sub r i (String.length r - i)
        | ["status"] -> phy_step c (pkt_status_127 h) (fun (rssi, snr) -> Printf.sprintf "Ok(rssi=%s snr=%s)" (dec_of_zz rssi) (dec_of_zz snr))
        | ["rssi"] -> phy_step c (get_rssi_127 h) (fun v -> "Ok(" ^ dec_of_zz v ^ ")")
        | ["cad"; _] -> phy_step c (do_cad_127 h) unit_ok
        | ["irq"; m] -> phy_step c (set_irq_127 (irqmode_of m)) unit_ok
        | ["cw"] -> phy_step c (set_cw_127 h) unit_ok
        | ["clrirq"] -> phy_step c clear_irq_127 unit_ok
        | ["irqstate"; m] -> phy_step c (get_irq_state_127 (irqmode_of m)) irqstate_str
        | ["procirq"; m; clr] -> phy_step c (process_irq_127 (irqmode_of m) (bool_of_tok clr)) irqstate_str
        | ["dumpregs"] ->
          (* the emulated register file 0x01..0x70 and the first 16 FIFO bytes, as the harness prints them *)
          let sub l a n = List.filteri (fun i _ -> i >= a && i < a + n) l in
          Printf.sprintf "regs=%s fifo=%s :: " (hex_of_bytes (sub !c.c_regs 1 0x70)) (hex_of_bytes (sub !c.c_buf 0 16))
        | _ -> "BADOP") in
      out := r :: !out end) (List.tl parts)
  with Phy_panic s -> out := s :: !out);
  String.concat " ; " (List.rev !out)

(* ------------------------------------------------------------------ LoRa<RK, DLY> and LorawanRadio histories (Model/LoraDrv.v) *)
let mode_str = function
  | MSleep -> "sleep" | MStandby -> "standby" | MTx -> "tx" | MRx (RxSingle n) -> "rxs" ^ dec_of_n n | MRx RxContinuous -> "rxc"
  | MRx (RxDuty (a, b)) -> "rxd" ^ dec_of_n a ^ ":" ^ dec_of_n b | MListen -> "listen" | MCad -> "cad"
let drv_state (c : chip) : string =
  let f i = (match List.nth_opt c.c_drv i with Some (x :: _) -> x <> N0 | _ -> false) in
  let m = dec_mode (match List.nth_opt c.c_drv 0 with Some v -> v | None -> []) in
  Printf.sprintf "mode=%s cold=%d cal=%d" (mode_str m) (if f 1 then 1 else 0) (if f 2 then 1 else 0)
let lora_step (c : chip ref) (p : 'a prog) (show : 'a -> string) (err_show : rerr -> string) : string =
  let ((c', tr), r) = run (nat_of_int 3000) !c p [] in
  c := c';
  let tr_s = trace_str tr in
  match r with
  | Some (Inl v) -> Printf.sprintf "%s %s :: %s" (show v) (drv_state c') tr_s
  | Some (Inr EPanic) -> raise (Phy_panic (Printf.sprintf "PANIC %s :: %s" (drv_state c') tr_s))
  | Some (Inr ECancelled) -> Printf.sprintf "%s %s :: %s" (err_show ECancelled) (drv_state c') tr_s
  | Some (Inr e) -> Printf.sprintf "%s %s :: %s" (err_show e) (drv_state c') tr_s
  | None -> Printf.sprintf "OUT-OF-FUEL %s :: %s" (drv_state c') tr_s
let plain_err e = if e = ECancelled then "CANCELLED" else "Err(" ^ rerr_str e ^ ")"
let run_lora_line (line : string) : string =
  let parts = List.map String.trim (String.split_on_char '|' line) in
  let head = List.filter (fun s -> s <> "") (String.split_on_char ' ' (List.hd parts)) in
  let lwr = (List.hd head = "lwr") in
  let get k d = List.fold_left (fun acc kv -> match String.index_opt kv '=' with
      | Some i when String.sub kv 0 i = k -> String.sub kv (i + 1) (String.length kv - i - 1) | _ -> acc) d (List.tl head) in
  let chipname = get "chip" "sx1262" in
  let is126 = not (String.length chipname >= 5 && String.sub chipname 0 5 = "sx127") in
  let regs0 = List.init 4096 (fun _ -> N0) in
  let regs = (match get "regs" "-" with "-" -> regs0 | v ->
      List.fold_left (fun r p -> match String.split_on_char ':' p with
          | [a; b] -> set_nthN r (nat_of_int ((int_of_string a) land 0xfff)) (ni b) | _ -> r) regs0 (String.split_on_char ',' v)) in
  let buf0 = (match get "buf" "-" with "-" -> [] | v -> bytes_of_hex v) in
  let buf = List.init 256 (fun i -> match List.nth_opt buf0 i with Some b -> b | None -> N0) in
  let c = ref { c_kind = (if is126 then K126 else K127); c_regs = regs; c_reads = (match get "reads" "-" with "-" -> [] | v -> bytes_of_hex v);
                c_fill = ni (get "fill" "0"); c_buf = buf; c_fifo = N0; c_events = N0;
                c_fault = (match get "fault" "-" with "-" -> None | v -> Some (ni v));
                c_drv = initial_fields (n_of_int 0x3444); c_irq_calls = N0; c_irq_budget = n_of_int 6; c_pend = None; c_on_irq = [] } in
  let tcxo = (match get "tcxo" "-" with "-" -> None | v -> Some (ni v)) in
  let g = { g_low_power_pa = (chipname = "sx1261" || chipname = "stm32wl_lp");
            g_pa_table = (match chipname with "sx1261" | "stm32wl_lp" -> sx1261_pa_table | "stm32wl_hp" -> stm32wl_hp_pa_table | _ -> sx1262_pa_table);
            g_dio2_rfswitch = (chipname = "sx1261" || chipname = "sx1262");
            g_tcxo = tcxo; g_dcdc = bool_of_tok (get "dcdc" "0"); g_rx_boost = bool_of_tok (get "rxboost" "0") } in
  let h = { h_variant = (if chipname = "sx1272" then V1272 else V1276); h_tcxo = (tcxo <> None);
            h_tx_boost = bool_of_tok (get "txboost" "0"); h_rx_boost = bool_of_tok (get "rxboost" "0") } in
  let quirk = (not is126) && chipname <> "sx1272" && (match List.nth_opt regs 0x42 with Some v -> v = n_of_int 0x12 | None -> false) in
  let k = if is126 then kind126 g else kind127 h quirk in
  let fuel = nat_of_int 40 in
  let out = ref [] in
  let rxpk = ref None in
  let default_pk = { pk_preamble = n_of_int 8; pk_implicit = false; pk_len = n_of_int 255; pk_crc = true; pk_iq = true } in
  (try
    (* LoRa::new *)
    let r0 = lora_step c (init k) (fun () -> "new Ok") (fun e -> if e = ECancelled then "new CANCELLED" else "new Err(" ^ rerr_str e ^ ")") in
    let created = String.length r0 >= 6 && String.sub r0 0 6 = "new Ok" in
    if lwr && not created then out := ["new FAILED"]
    else begin
      (* the Rust side prints only the mode after new *)
      let cut s = (let rec find i = if i + 6 > String.length s then String.length s else if String.sub s i 6 = " cold=" then i else find (i + 1) in
                   let i = find 0 in
                   let rec find2 j = if j + 4 > String.length s then String.length s else if String.sub s j 4 = " :: " then j else find2 (j + 1) in
                   let j = find2 i in String.sub s 0 i ^ String.sub s j (String.length s - j)) in
      out := [if created then cut r0 else (let rec find2 j = if j + 4 > String.length r0 then String.length r0 else if String.sub r0 j 4 = " :: " then j else find2 (j + 1) in
                                          let j = find2 0 in
                                          let rec findm i = if i + 6 > String.length r0 then String.length r0 else if String.sub r0 i 6 = " mode=" then i else findm (i + 1) in
                                          String.sub r0 0 (findm 0) ^ String.sub r0 j (String.length r0 - j))]
    end;
    if created then
    List.iter (fun op ->
      let toks = List.filter (fun s -> s <> "") (String.split_on_char ' ' op) in
      if toks <> [] then begin
        c := { !c with c_fault = None; c_pend = None; c_irq_budget = n_of_int 6; c_on_irq = [] };
        let rec pre = function
          | t :: rest when String.length t > 0 && t.[0] = '@' ->
            let i = String.index t '=' in
            let kx = String.sub t 1 (i - 1) and v = String.sub t (i + 1) (String.length t - i - 1) in
            (match kx with
             | "reads" -> c := { !c with c_reads = bytes_of_hex v }
             | "reg" -> (match String.split_on_char ':' v with
                 | [a; b] -> c := { !c with c_regs = set_nthN !c.c_regs (nat_of_int ((int_of_string a) land 0xfff)) (ni b) } | _ -> ())
             | "fault" -> c := { !c with c_fault = Some (N.add !c.c_events (ni v)) }
             | "pend" -> c := { !c with c_pend = Some (N.add !c.c_irq_calls (ni v)) }
             | "irqs" -> c := { !c with c_irq_budget = ni v }
             | "onirq" -> c := { !c with c_on_irq = List.map (fun x -> match String.split_on_char ':' x with
                 | [f; hx] -> (ni f, bytes_of_hex hx) | _ -> (ni x, [])) (String.split_on_char ',' v) }
             | _ -> ());
            pre rest
          | l -> l in
        let a = pre toks in
        let mk sf bw cr f = k.k_create_mod (ni sf) (ni bw) (ni cr) (ni f) in
        let rxshow ((len, data), (rssi, snr)) blen =
          let canary = List.init blen (fun _ -> n_of_int 0xA5) in
          let shown = data @ (List.filteri (fun i _ -> i >= List.length data) canary) in
          Printf.sprintf "Ok(%s rssi=%s snr=%s) buf=%s" (dec_of_n len) (dec_of_zz rssi) (dec_of_zz snr) (hexs shown) in
        let rxerr e = plain_err e ^ " buf=*" in
        let r =
          if not lwr then
          (match a with
           | ["init"] -> lora_step c (init k) unit_ok plain_err
           | ["sleep"; w] -> lora_step c (sleep k (bool_of_tok w)) unit_ok plain_err
           | ["standby"] -> lora_step c (enter_standby k) unit_ok plain_err
           | ["sync"; sw] -> lora_step c (set_lora_sync_word k (ni sw)) unit_ok plain_err
           | ["ptx"; sf; bw; cr; f; pw; hx] ->
             (match mk sf bw cr f with
              | Inr e -> Printf.sprintf "CreateErr(%s) %s :: " (rerr_str e) (drv_state !c)
              | Inl md -> (match k.k_create_pkt (n_of_int 8) false N0 true false md with
                  | Inr e -> Printf.sprintf "CreateErr(%s) %s :: " (rerr_str e) (drv_state !c)
                  | Inl pk -> lora_step c (prepare_for_tx k md pk (zi pw) (bytes_of_hex hx)) unit_ok plain_err))
           | ["tx"] -> lora_step c (tx k fuel) unit_ok plain_err
           | "prx" :: m :: rest ->
             let (mode, rest) = (match m, rest with
                 | "s", n :: r -> (RxSingle (ni n), r) | "c", r -> (RxContinuous, r) | _, x :: y :: r -> (RxDuty (ni x, ni y), r) | _, r -> (RxContinuous, r)) in
             (match rest with
              | sf :: bw :: cr :: f :: more ->
                (match mk sf bw cr f with
                 | Inr e -> Printf.sprintf "CreateErr(%s) %s :: " (rerr_str e) (drv_state !c)
                 | Inl md ->
                   let implicit = (match more with i :: _ -> bool_of_tok i | [] -> false) in
                   let len = (match more with _ :: l :: _ -> ni l | _ -> n_of_int 255) in
                   (match k.k_create_pkt (n_of_int 8) implicit len true true md with
                    | Inr e -> Printf.sprintf "CreateErr(%s) %s :: " (rerr_str e) (drv_state !c)
                    | Inl pk -> rxpk := Some pk; lora_step c (prepare_for_rx k mode md pk) unit_ok plain_err))
              | _ -> "BADOP")
           | ["startrx"] -> lora_step c (start_rx k) unit_ok plain_err
           | [("completerx" | "rx" | "rxresult") as w; bl] ->
             let pk = (match !rxpk with Some p -> p | None -> default_pk) in
             rxpk := Some pk;
             let blen = int_of_string bl in
             let p = (match w with "completerx" -> complete_rx k fuel pk (ni bl) | "rx" -> rx k fuel pk (ni bl) | _ -> get_rx_result k pk (ni bl)) in
             lora_step c p (fun v -> rxshow v blen) rxerr
           | ["switch"; f] -> lora_step c (rx_switch_channel k (ni f)) unit_ok plain_err
           | ["listen"; f; bw] -> lora_step c (listen k (ni f) (ni bw)) unit_ok plain_err
           | ["pcad"; sf; bw; cr; f] ->
             (match mk sf bw cr f with
              | Inr e -> Printf.sprintf "CreateErr(%s) %s :: " (rerr_str e) (drv_state !c)
              | Inl md -> lora_step c (prepare_for_cad k md) unit_ok plain_err)
           | ["cad"; sf] ->
             (match mk sf "7" "0" "868100000" with
              | Inr e -> Printf.sprintf "CreateErr(%s) %s :: " (rerr_str e) (drv_state !c)
              | Inl md -> lora_step c (cad k md) (fun b -> if b then "Ok(true)" else "Ok(false)") plain_err)
           | ["waitirq"] -> lora_step c wait_for_irq unit_ok plain_err
           | ["irq"] -> lora_step c (process_irq_event k) irqstate_str plain_err
           | ["rssi"] -> lora_step c k.k_rssi (fun v -> "Ok(" ^ dec_of_zz v ^ ")") plain_err
           | ["clrirq"] -> lora_step c k.k_clrirq unit_ok plain_err
           | _ -> "BADOP")
          else
          (let lw_err e = if e = ECancelled then "CANCELLED" else "Err(Radio(" ^ rerr_str e ^ "))" in
           match a with
           | ["tx"; sf; bw; cr; f; pw; hx] -> lora_step c (lw_tx k fuel (ni sf) (ni bw) (ni cr) (ni f) (zi pw) (bytes_of_hex hx)) (fun () -> "Ok(0)") lw_err
           | ["setuprx"; sf; bw; cr; f; ms] ->
             lora_step c (lw_setup_rx k (ni sf) (ni bw) (ni cr) (ni f) (if ms = "c" then None else Some (ni ms))) (fun pk -> rxpk := Some pk; "Ok(())") lw_err
           | ["rxsingle"; bl] ->
             (match !rxpk with
              | None -> Printf.sprintf "Err(NoRxParams) buf=* %s :: " (drv_state !c)
              | Some pk ->
                let blen = int_of_string bl in
                let r = lora_step c (attempt (rx k fuel pk (ni bl)))
                    (function
                      | Inl ((len, data), (rssi, snr)) ->
                        let canary = List.init blen (fun _ -> n_of_int 0xA5) in
                        let shown = data @ (List.filteri (fun i _ -> i >= List.length data) canary) in
                        (* RxQuality::new(rssi, snr as i8) *)
                        let snr8 = (let v = int_of_z snr in let w = ((v land 0xff) lxor 0x80) - 0x80 in w) in
                        Printf.sprintf "Ok(Rx %s rssi=%s snr=%d) buf=%s" (dec_of_n len) (dec_of_zz rssi) snr8 (hexs shown)
                      | Inr EReceiveTimeout -> "Ok(RxTimeout) buf=*"
                      | Inr e -> "Err(Radio(" ^ rerr_str e ^ ")) buf=*")
                    (fun e -> if e = ECancelled then "CANCELLED buf=*" else "Err(Radio(" ^ rerr_str e ^ ")) buf=*") in
                r)
           | ["rxcont"; bl] ->
             (match !rxpk with
              | None -> Printf.sprintf "Err(NoRxParams) buf=* %s :: " (drv_state !c)
              | Some pk ->
                let blen = int_of_string bl in
                lora_step c (rx k fuel pk (ni bl))
                  (fun ((len, data), (rssi, snr)) ->
                     let canary = List.init blen (fun _ -> n_of_int 0xA5) in
                     let shown = data @ (List.filteri (fun i _ -> i >= List.length data) canary) in
                     let snr8 = (let v = int_of_z snr in ((v land 0xff) lxor 0x80) - 0x80) in
                     Printf.sprintf "Ok(%s rssi=%s snr=%d) buf=%s" (dec_of_n len) (dec_of_zz rssi) snr8 (hexs shown))
                  (fun e -> if e = ECancelled then "CANCELLED buf=*" else "Err(Radio(" ^ rerr_str e ^ ")) buf=*"))
           | ["lowpower"] -> lora_step c (lw_low_power k) unit_ok lw_err
           | _ -> "BADOP") in
        out := r :: !out
      end) (List.tl parts)
  with Phy_panic s -> out := s :: !out);
  String.concat " ; " (List.rev !out)

(* ------------------------------------------------------------------ the chip-side monitor (Spec/ChipMon.v) on a pin-level trace *)
let parse_trace (s : string) : tev list =
  List.filter_map (fun t ->
    if t = "" then None else
    let iv = function "RESET" -> Some IvReset | "BUSY" -> Some IvBusy | "IRQ" -> Some IvIrq | "SWRX" -> Some IvSwRx | "SWTX" -> Some IvSwTx | "SWOFF" -> Some IvSwOff | _ -> None in
    if t = "IRQ-PENDING" then Some TIrqPending
    else if t = "SPI!" then Some TSpiFault
    else if String.length t > 5 && String.sub t 0 5 = "DELAY" then Some (TDelay (ni (String.sub t 5 (String.length t - 5))))
    else if t.[String.length t - 1] = '!' then (match iv (String.sub t 0 (String.length t - 1)) with Some c -> Some (TIvFault c) | None -> None)
    else (match iv t with
        | Some c -> Some (TIv c)
        | None ->
          Some (TSpi (List.map (fun sg ->
              let body = String.sub sg 1 (String.length sg - 1) in
              let b = if body = "-" then [] else bytes_of_hex body in
              if sg.[0] = 'w' then TW b else TR b) (String.split_on_char ',' t)))))
    (String.split_on_char ' ' s)
let cmode_str = function CSleep -> "sleep" | CStby -> "stby" | CFs -> "fs" | CTx -> "tx" | CRx1 -> "rx1" | CRxc -> "rxc" | CDuty -> "duty" | CCad -> "cad"
let run_chipmon_line (line : string) : string =
  let parts = List.map String.trim (String.split_on_char '|' line) in
  let head = List.filter (fun s -> s <> "") (String.split_on_char ' ' (List.hd parts)) in
  let get k d = List.fold_left (fun acc kv -> match String.index_opt kv '=' with
      | Some i when String.sub kv 0 i = k -> String.sub kv (i + 1) (String.length kv - i - 1) | _ -> acc) d (List.tl head) in
  let fam = if get "fam" "126" = "127" then K127 else K126 in
  let m = ref power_on in
  String.concat " ; " (List.map (fun op ->
      let (name, tr) = (match String.index_opt op ':' with
          | Some i -> (String.trim (String.sub op 0 i), String.sub op (i + 1) (String.length op - i - 1)) | None -> (op, "")) in
      let x = { x_fam = fam; x_tcxo = bool_of_tok (get "tcxo" "0"); x_dcdc = bool_of_tok (get "dcdc" "0"); x_listen = (name = "listen"); x_lora = true } in
      m := mon_op x !m (parse_trace tr);
      Printf.sprintf "mode=%s awake=%d asleep=%d start=%d valid=%s" (cmode_str !m.cm) (if !m.awake then 1 else 0)
        (if !m.bad_asleep then 1 else 0) (if !m.bad_start then 1 else 0)
        (String.concat "," (List.filter_map (fun i -> if !m.valid i then Some (string_of_int (int_of_nat (item_tag i))) else None) all_items)))
      (List.tl parts))

(* ------------------------------------------------------------------ async_device front-end histories (Model/AsyncDev.v) *)
let rec atev_str = function
  | ATx (c, frame) -> Printf.sprintf "tx[%s/%d/%d pw=%s %s]" (dec_of_n c.tx_rf.rf_freq) (int_of_n c.tx_rf.rf_sf) (int_of_n c.tx_rf.rf_bw) (dec_of_z c.tx_pw) (hex_of_bytes frame)
  | ASetupRx (rf, single) ->
    Printf.sprintf "setup_rx[%s/%d/%d/%d %s]" (dec_of_n rf.rf_freq) (int_of_n rf.rf_sf) (int_of_n rf.rf_bw) (int_of_n rf.rf_max_payload)
      (match single with Some ms -> "single" ^ dec_of_n ms | None -> "cont")
  | ARxSingle -> "rx_single" | ARxCont -> "rx_continuous" | ARxContPending -> "rx_continuous:pending" | ALowPower -> "low_power"
  | ATimerReset -> "timer.reset" | ATimerAt ms -> "timer.at(" ^ dec_of_n ms ^ ")"
  | AFault w -> atev_str w ^ "!ERR"
  | AScriptErr cont -> if cont then "rx_continuous!ERR" else "rx_single!ERR"
let script_of (s : string) : sev list =
  List.map (fun x -> if x = "E" then SvE else if x = "P" then SvP else if String.length x > 0 && x.[0] = 'X' then SvX (bytes_of_hex (String.sub x 1 (String.length x - 1))) else SvT)
    (String.split_on_char ',' s)
let run_adev_line (line : string) : string =
  let parts = List.map String.trim (String.split_on_char '|' line) in
  let head = List.filter (fun s -> s <> "") (String.split_on_char ' ' (List.hd parts)) in
  let r = ref 5 and lead = ref 15 and classc = ref false and fault = ref None and bias = ref "-" and session = ref None in
  List.iter (fun kv -> match String.index_opt kv '=' with
    | Some i -> let k = String.sub kv 0 i and v = String.sub kv (i + 1) (String.length kv - i - 1) in
      (match k with "r" -> r := int_of_string v | "lead" -> lead := int_of_string v | "classc" -> classc := (v <> "0")
                  | "fault" -> fault := (if v = "-" then None else
                                         (* k: call k fails; kxN: the N calls from k on fail (an outage) *)
                                         (match String.index_opt v 'x' with
                                          | Some j -> Some (n_of_dec (String.sub v 0 j), n_of_dec (String.sub v (j + 1) (String.length v - j - 1)))
                                          | None -> Some (n_of_dec v, n_of_int 1)))
                  | "bias" -> bias := v | "session" -> session := Some v | _ -> ())
    | None -> ()) (List.tl head);
  let m0 = mac_new (n_of_int !r) (n_of_int 22) (z_of_int 0) in
  let m0 = if !bias <> "-" && (!r = 4 || !r = 8) then begin
      let i = String.index !bias ':' in
      let sb = int_of_string (String.sub !bias 0 i) and nr = int_of_string (String.sub !bias (i + 1) (String.length !bias - i - 1)) in
      (match m0.m_region.rg_plan with
       | PFix fp -> with_region m0 { rg_id = m0.m_region.rg_id;
                                     rg_plan = PFix { fp_mask = fp.fp_mask;
                                                      fp_jc = { fp.fp_jc with jc_preferred = Some (n_of_int sb); jc_max_retries = n_of_int nr } } }
       | _ -> m0)
    end else m0 in
  let m0 = (match !session with
      | None -> m0
      | Some v -> (match String.split_on_char ':' v with
          | [nwk; app; addr; up] ->
            let s0 = session_new (bytes_of_hex nwk) (bytes_of_hex app) (n_of_dec addr) in
            with_state m0 (Joined { s0 with ss_fcnt_up = n_of_dec up })
          | _ -> m0)) in
  let d = ref { ad_mac = m0; ad_classc = !classc; ad_lead = n_of_int !lead } in
  let calls = ref N0 in
  let out = ref [] in
  let stop = ref false in
  let resp_of = function
    | AOk r -> resp_str r | AErr ERadioErr -> "Err(Radio)" | AErr EMacNotJoined -> "Err(Mac(NotJoined))"
    | APanic -> "PANIC" | AHang -> "HANG" | AParked -> "PARKED" in
  List.iter (fun op ->
    if not !stop then begin
      let a = List.filter (fun s -> s <> "") (String.split_on_char ' ' op) in
      let env0 script = { e_script = script; e_calls = !calls; e_fault = !fault; e_trace = [] } in
      let finish ?(join = false) (((d', e'), res) : (adev * env) * response ares) =
        d := d'; calls := e'.e_calls;
        let t = String.concat " " (List.rev_map atev_str e'.e_trace) in
        (match res with APanic | AHang -> stop := true | _ -> ());
        let rs = (match res with AErr _ when join -> "Err" | _ -> resp_of res) in
        out := Printf.sprintf "%s :: %s" rs t :: !out in
      match a with
      | [] -> ()
      | "abp" :: nwk :: app :: addr :: _ ->
        d := with_mac !d (with_state !d.ad_mac (Joined (session_new (bytes_of_hex nwk) (bytes_of_hex app) (n_of_dec addr))));
        out := "Some(Ok(JoinSuccess)) :: " :: !out
      | "join" :: de :: ae :: key :: dr :: sc :: _ ->
        finish ~join:true (x_adev_join !d (env0 (script_of sc)) { cr_deveui = n_of_dec de; cr_appeui = n_of_dec ae; cr_appkey = bytes_of_hex key } (draws_of dr))
      | "send" :: data :: port :: conf :: dr :: sc :: _ ->
        finish (x_adev_send !d (env0 (script_of sc)) (bytes_of_hex data) (ni port) (bool_of_tok conf) (draws_of dr))
      | "listen" :: sc :: _ -> finish (x_adev_listen !d (env0 (script_of sc)))
      | "dr" :: v :: _ -> d := with_mac !d (set_datarate !d.ad_mac (ni v)); out := "ok :: " :: !out
      | "adr" :: v :: _ -> d := with_mac !d (set_adr !d.ad_mac (bool_of_tok v)); out := "ok :: " :: !out
      | "fcnt" :: _ ->
        out := (match !d.ad_mac.m_state with
            | Joined s -> Printf.sprintf "Some((%s, %s)) :: " (dec_of_n s.ss_fcnt_up) (match s.ss_fcnt_down with None -> "None" | Some f -> "Some(" ^ dec_of_n f ^ ")")
            | _ -> "None :: ") :: !out
      | _ -> out := "BADOP :: " :: !out
    end) (List.tl parts);
  String.concat " ; " (List.rev !out)

(* ------------------------------------------------------------------ nb_device front-end histories (Model/NbDev.v) *)
let rec ncall_str = function
  | NcTx (c, frame) -> Printf.sprintf "tx[%s/%d/%d pw=%s %s]" (dec_of_n c.tx_rf.rf_freq) (int_of_n c.tx_rf.rf_sf) (int_of_n c.tx_rf.rf_bw) (dec_of_z c.tx_pw) (hex_of_bytes frame)
  | NcRxRequest rf -> Printf.sprintf "rx_request[%s/%d/%d/%d]" (dec_of_n rf.rf_freq) (int_of_n rf.rf_sf) (int_of_n rf.rf_bw) (int_of_n rf.rf_max_payload)
  | NcCancelRx -> "cancel_rx" | NcPhy -> "phy" | NcFault w -> ncall_str w ^ "!ERR"
let serr_str = function
  | SRadioEventWhileIdle -> "RadioEventWhileIdle" | SRadioEventWhileWaitingForRxWindow -> "RadioEventWhileWaitingForRxWindow"
  | SNewSessionWhileWaitingForRxWindow -> "NewSessionWhileWaitingForRxWindow" | SSendDataWhileWaitingForRxWindow -> "SendDataWhileWaitingForRxWindow"
  | STxRequestDuringTx -> "TxRequestDuringTx" | SNewSessionWhileWaitingForRx -> "NewSessionWhileWaitingForRx" | SSendDataWhileWaitingForRx -> "SendDataWhileWaitingForRx"
  | SBufferTooSmall -> "BufferTooSmall" | SUnexpectedRadioResponse -> "UnexpectedRadioResponse"
let nresp_str = function
  | NrNoUpdate -> "NoUpdate" | NrTimeoutRequest t -> "TimeoutRequest(" ^ dec_of_n t ^ ")" | NrJoinSuccess -> "JoinSuccess" | NrNoJoinAccept -> "NoJoinAccept"
  | NrUplinkSending c -> "UplinkSending(" ^ dec_of_n c ^ ")" | NrDownlinkReceived f -> "DownlinkReceived(" ^ dec_of_n f ^ ")" | NrNoAck -> "NoAck"
  | NrSessionExpired -> "SessionExpired" | NrRxComplete -> "RxComplete" | NrErrRadio -> "Err(Radio)" | NrErrState e -> "Err(State(" ^ serr_str e ^ "))"
  | NrErrMacNotJoined -> "Err(Mac(NotJoined))" | NrPanic -> "PANIC" | NrHang -> "HANG"
let answer_of (s : string) : ranswer =
  match s with
  | "txing" -> RaTxing | "txdone" -> RaTxDone (n_of_int 100) | "rxing" -> RaRxing | "err" -> RaErr
  | r when String.length r >= 2 && String.sub r 0 2 = "rx" -> RaRxDone (bytes_of_hex (String.sub r 2 (String.length r - 2)))
  | _ -> RaIdle
let run_ndev_line (line : string) : string =
  let parts = List.map String.trim (String.split_on_char '|' line) in
  let head = List.filter (fun s -> s <> "") (String.split_on_char ' ' (List.hd parts)) in
  let r = ref 5 and fault = ref None and bias = ref "-" and session = ref None in
  List.iter (fun kv -> match String.index_opt kv '=' with
    | Some i -> let k = String.sub kv 0 i and v = String.sub kv (i + 1) (String.length kv - i - 1) in
      (match k with "r" -> r := int_of_string v | "fault" -> fault := (if v = "-" then None else
                                         (match String.index_opt v 'x' with
                                          | Some j -> Some (n_of_dec (String.sub v 0 j), n_of_dec (String.sub v (j + 1) (String.length v - j - 1)))
                                          | None -> Some (n_of_dec v, n_of_int 1)))
                  | "bias" -> bias := v | "session" -> session := Some v | _ -> ())
    | None -> ()) (List.tl head);
  let m0 = mac_new (n_of_int !r) (n_of_int 22) (z_of_int 0) in
  let m0 = if !bias <> "-" && (!r = 4 || !r = 8) then begin
      let i = String.index !bias ':' in
      let sb = int_of_string (String.sub !bias 0 i) and nr = int_of_string (String.sub !bias (i + 1) (String.length !bias - i - 1)) in
      (match m0.m_region.rg_plan with
       | PFix fp -> with_region m0 { rg_id = m0.m_region.rg_id;
                                     rg_plan = PFix { fp_mask = fp.fp_mask;
                                                      fp_jc = { fp.fp_jc with jc_preferred = Some (n_of_int sb); jc_max_retries = n_of_int nr } } }
       | _ -> m0)
    end else m0 in
  let m0 = (match !session with
      | None -> m0
      | Some v -> (match String.split_on_char ':' v with
          | [nwk; app; addr; up] ->
            let s0 = session_new (bytes_of_hex nwk) (bytes_of_hex app) (n_of_dec addr) in
            with_state m0 (Joined { s0 with ss_fcnt_up = n_of_dec up })
          | _ -> m0)) in
  let st = ref NIdle and m = ref m0 and calls = ref N0 in
  let out = ref [] and stop = ref false in
  List.iter (fun op ->
    if not !stop then begin
      let a = List.filter (fun s -> s <> "") (String.split_on_char ' ' op) in
      let go ev ans =
        let (((st', m'), e'), resp) = x_nb_handle_event !st !m { n_calls = !calls; n_fault = !fault; n_trace = [] } ev ans in
        st := st'; m := m'; calls := e'.n_calls;
        (match resp with NrPanic | NrHang -> stop := true | _ -> ());
        out := Printf.sprintf "%s :: %s" (nresp_str resp) (String.concat " " (List.rev_map ncall_str e'.n_trace)) :: !out in
      match a with
      | [] -> ()
      | "abp" :: nwk :: app :: addr :: _ ->
        m := with_state !m (Joined (session_new (bytes_of_hex nwk) (bytes_of_hex app) (n_of_dec addr))); out := "JoinSuccess :: " :: !out
      | "join" :: de :: ae :: key :: dr :: resp :: _ ->
        go (NJoin ({ cr_deveui = n_of_dec de; cr_appeui = n_of_dec ae; cr_appkey = bytes_of_hex key }, draws_of dr)) (answer_of resp)
      | "send" :: data :: port :: conf :: dr :: resp :: _ -> go (NSend (bytes_of_hex data, ni port, bool_of_tok conf, draws_of dr)) (answer_of resp)
      | "phy" :: resp :: _ -> go NPhy (answer_of resp)
      | "timeout" :: _ -> go NTimeout RaIdle
      | "dr" :: v :: _ -> m := set_datarate !m (ni v); out := "ok :: " :: !out
      | "adr" :: v :: _ -> m := set_adr !m (bool_of_tok v); out := "ok :: " :: !out
      | "fcnt" :: _ ->
        out := (match !m.m_state with
            | Joined s -> Printf.sprintf "Some((%s, %s)) :: " (dec_of_n s.ss_fcnt_up) (match s.ss_fcnt_down with None -> "None" | Some f -> "Some(" ^ dec_of_n f ^ ")")
            | _ -> "None :: ") :: !out
      | _ -> out := "BADOP :: " :: !out
    end) (List.tl parts);
  String.concat " ; " (List.rev !out)

let () =
  (try
    while true do
      let line = input_line stdin in
      let toks = List.filter (fun s -> s <> "") (String.split_on_char ' ' (String.trim line)) in
      let out =
        match toks with
        | [] -> ""
        | "mac" :: _ -> (try run_mac_history line with e -> "DRIVER-EXN " ^ Printexc.to_string e)
        | "phy" :: _ -> (try run_phy_line line with e -> "DRIVER-EXN " ^ Printexc.to_string e)
        | "ndev" :: _ -> (try run_ndev_line line with e -> "DRIVER-EXN " ^ Printexc.to_string e)
        | "adev" :: _ -> (try run_adev_line line with e -> "DRIVER-EXN " ^ Printexc.to_string e)
        | "chipmon" :: _ -> (try run_chipmon_line line with e -> "DRIVER-EXN " ^ Printexc.to_string e)
        | ("lora" | "lwr") :: _ -> (try run_lora_line line with e -> "DRIVER-EXN " ^ Printexc.to_string e)
        | op :: args ->
          (match Hashtbl.find_opt handlers op with
           | Some f -> (try f args with e -> "DRIVER-EXN " ^ Printexc.to_string e)
           | None -> "UNKNOWN-OP " ^ op)
      in
      print_string out; print_char '\n'
    done
  with End_of_file -> ());
  flush stdout
