(* driver.ml -- line protocol front-end for the extracted Coq models (trusted glue).
   stdin: one case per line  "<op> <arg> ..." ; stdout: one canonical result per line.
   Integers are decimal, byte strings lower-case hex ("-" = empty), booleans 0/1,
   options "none" or the value. *)
open Model

let rec pos_of_int n =
  if n = 1 then XH
  else if n land 1 = 0 then XO (pos_of_int (n lsr 1))
  else XI (pos_of_int (n lsr 1))
let z_of_int n = if n = 0 then Z0 else if n > 0 then Zpos (pos_of_int n) else Zneg (pos_of_int (-n))
let n_of_int n = if n = 0 then N0 else Npos (pos_of_int n)
let rec int_of_pos = function XH -> 1 | XO p -> 2 * int_of_pos p | XI p -> 2 * int_of_pos p + 1
let int_of_z = function Z0 -> 0 | Zpos p -> int_of_pos p | Zneg p -> - (int_of_pos p)
let int_of_n = function N0 -> 0 | Npos p -> int_of_pos p

let bytes_of_hex s =
  if s = "-" then [] else
  let n = String.length s / 2 in
  List.init n (fun i -> n_of_int (int_of_string ("0x" ^ String.sub s (2 * i) 2)))
let hex_of_bytes l =
  if l = [] then "-" else String.concat "" (List.map (fun b -> Printf.sprintf "%02x" (int_of_n b)) l)
let zbytes_of_hex s = List.map (fun b -> z_of_int (int_of_n b)) (bytes_of_hex s)
let hex_of_zbytes l =
  if l = [] then "-" else String.concat "" (List.map (fun b -> Printf.sprintf "%02x" (int_of_z b)) l)

let bool_of_tok s = s <> "0"
let tok_of_bool b = if b then "1" else "0"
let zi s = z_of_int (int_of_string s)
let opt_z s = if s = "none" then None else Some (zi s)

(* digest shared with the Rust harness: h' = (h * 1000003 + v + 1) mod (2^40 - 87) *)
let dg_mod = (1 lsl 40) - 87
let dg_step h v = ((h * 1000003) mod dg_mod + v + 1) mod dg_mod

let handlers : (string, string list -> string) Hashtbl.t = Hashtbl.create 64
let register name f = Hashtbl.replace handlers name f

let toa_one sf bw cr pre hdr len =
  if not (toa_safe sf bw cr pre hdr len) then -1
  else int_of_z (toa_us sf bw cr pre hdr len)

let () =
  register "toa" (function
    | [sf; bw; cr; pre; hdr; len] ->
      let v = toa_one (zi sf) (zi bw) (zi cr) (opt_z pre) (bool_of_tok hdr) (zi len) in
      if v < 0 then "PANIC" else string_of_int v
    | _ -> "BADARGS");
  register "toa_spec" (function
    | [sf; bw; cr; pre; hdr; len] ->
      string_of_int (int_of_z (airtime_us (bw_hz (zi bw)) (zi sf) (zi cr) (opt_z pre) (bool_of_tok hdr) (zi len)))
    | _ -> "BADARGS");
  (* digest over len = 0..255 *)
  register "toa_sweep" (function
    | [sf; bw; cr; pre; hdr] ->
      let h = ref 0 and panics = ref 0 in
      for len = 0 to 255 do
        let v = toa_one (zi sf) (zi bw) (zi cr) (opt_z pre) (bool_of_tok hdr) (z_of_int len) in
        if v < 0 then incr panics;
        h := dg_step !h v
      done;
      Printf.sprintf "%d %d" !h !panics
    | _ -> "BADARGS");
  register "ldro_toa" (function
    | [sf; bw] -> tok_of_bool (ldro (zi sf) (zi bw))
    | _ -> "BADARGS");
  register "delay_in_symbols" (function
    | [sf; bw; ms] ->
      if delay_in_symbols_safe (zi sf) (zi bw) (zi ms) then string_of_int (int_of_z (delay_in_symbols (zi sf) (zi bw) (zi ms)))
      else "PANIC"
    | _ -> "BADARGS");
  register "symbols_to_ms" (function
    | [sf; bw; n] ->
      if symbols_to_ms_safe (zi sf) (zi bw) (zi n) then string_of_int (int_of_z (symbols_to_ms (zi sf) (zi bw) (zi n)))
      else "PANIC"
    | _ -> "BADARGS")

let chip_index = function
  | "sx1261" | "sx1262" | "stm32wl" -> 0 | "sx1276" -> 1 | "sx1272" -> 2 | "lr1110" -> 3
  | _ -> failwith "chip"

let () =
  register "ldro" (fun a ->
    match a with
    | chip :: sf :: bw :: rest ->
      let freq = (match rest with f :: _ -> zi f | [] -> z_of_int 868100000) in
      (match ldro_outcome (z_of_int (chip_index chip)) (zi sf) (zi bw) freq with
       | None -> "ERR"
       | Some (l, b) -> Printf.sprintf "%d %d" (int_of_z l) (int_of_z b))
    | _ -> "BADARGS");
  register "ldro_spec" (function
    | [sf; bw] -> tok_of_bool (ldro_required (zi sf) (bw_hz (zi bw)))
    | _ -> "BADARGS")

let () =
  (try
    while true do
      let line = input_line stdin in
      let toks = List.filter (fun s -> s <> "") (String.split_on_char ' ' (String.trim line)) in
      let out =
        match toks with
        | [] -> ""
        | op :: args ->
          (match Hashtbl.find_opt handlers op with
           | Some f -> (try f args with e -> "DRIVER-EXN " ^ Printexc.to_string e)
           | None -> "UNKNOWN-OP " ^ op)
      in
      print_string out; print_char '\n'
    done
  with End_of_file -> ());
  flush stdout
