"""Shared correspondence stage for MAC-level histories."""
from . import core, refdev


def first_diff(case, impl, model):
    ops = [p.strip() for p in case.split("|")][1:]
    io, mo = impl.split(" ; "), model.split(" ; ")
    for k in range(max(len(io), len(mo))):
        a = io[k] if k < len(io) else "<missing>"
        b = mo[k] if k < len(mo) else "<missing>"
        if a != b:
            return {"at_op": k, "op": ops[k][:300] if k < len(ops) else "?", "impl_at_op": a[:600], "model_at_op": b[:600]}
    return {}


def make_judge(kinds=None, extra=None):
    """judge(case, impl, model): reference-device oracle restricted to the violation kinds of the property,
    then an optional property-specific extra oracle."""
    def judge(case, impl, model):
        if not case.startswith("mac "):
            return extra(case, impl, model) if extra else None
        v = refdev.judge_history(case, impl, kinds)
        if v is None and extra:
            v = extra(case, impl, model)
        if v is not None:
            v.update(first_diff(case, impl, model))
            v.setdefault("spec_output", "see kind")
        return v
    return judge


def _judge_one(args):
    l, o, kinds, extra = args
    try:
        v = refdev.judge_history(l, o, kinds)
        if v is None and extra:
            v = extra(l, o, None)
    except Exception as e:       # an oracle that cannot read an unexpected output must not end the run: recorded, not judged
        return {"__oracle_error__": repr(e)[:200]}
    return v


def oracle_pass(rep, lines, kinds=None, extra=None, known=None, maxrep=3):
    """always-on run of the independent oracle over the implementation's outputs (not only on disagreements);
    the python-side decoding (pure-python AES / CMAC) is spread over the cores when the oracle functions can be shipped to workers"""
    import pickle
    last = getattr(rep, "last_run", None)
    io = last[1] if last is not None and last[0] is lines else core.run_lines(core.harness_bin(), lines)
    try:
        pickle.dumps(extra)
        verdicts = core.pmap(_judge_one, [(l, o, kinds, extra) for l, o in zip(lines, io)])
    except Exception:
        verdicts = [_judge_one((l, o, kinds, extra)) for l, o in zip(lines, io)]
    n = 0
    for l, o, v in zip(lines, io, verdicts):
        if v is None:
            continue
        if "__oracle_error__" in v:
            rep.cov.setdefault("oracle_errors", []).append({"case": l[:300], "error": v["__oracle_error__"]})
            continue
        if known and known(l, o, v):
            continue
        n += 1
        if n <= maxrep:
            v.update({"case": l, "impl_output": o[:3000]})
            rep.violation(v, concrete=True)
    rep.cov["oracle_histories_checked"] = rep.cov.get("oracle_histories_checked", 0) + len(lines)
    return io
