"""Shared machinery of the /verif checks (build, run, compare, report).

A check = (1) rebuild and re-check the Coq theorems of the property (full .vo build,
Print Assumptions against an allow-list, forbidden-word scan); (2) rebuild the
extracted OCaml model and the Rust harness from /repo's working tree; (3) run model
and implementation on the same generated cases and compare; (4) on any breakage,
search for a concrete failing input and report; (5) write evidence/<id>.json.
"""
import fcntl, glob, hashlib, json, os, re, subprocess, sys, time
from concurrent.futures import ThreadPoolExecutor

VERIF = os.path.dirname(os.path.dirname(os.path.abspath(__file__)))
REPO = "/repo"
BUILD = os.path.join(VERIF, ".build")
COQ = os.path.join(VERIF, "coq")
NCPU = 16
GUARD_CFG = "lora_rs_verif"

MASK = (1 << 64) - 1


class Rng:
    """SplitMix64; every random choice of a check derives from VERIF_SEED through one of these."""

    def __init__(self, seed):
        self.s = seed & MASK

    def next(self):
        self.s = (self.s + 0x9E3779B97F4A7C15) & MASK
        z = self.s
        z = ((z ^ (z >> 30)) * 0xBF58476D1CE4E5B9) & MASK
        z = ((z ^ (z >> 27)) * 0x94D049BB133111EB) & MASK
        return z ^ (z >> 31)

    def below(self, n):
        return self.next() % n

    def range(self, lo, hi):
        return lo + self.below(hi - lo + 1)

    def choice(self, xs):
        return xs[self.below(len(xs))]

    def bytes(self, n):
        out = bytearray()
        while len(out) < n:
            out += self.next().to_bytes(8, "little")
        return bytes(out[:n])

    def hex(self, n):
        return hexs(self.bytes(n))

    def chance(self, num, den):
        return self.below(den) < num

    def sample(self, xs, k):
        xs = list(xs)
        out = []
        while xs and len(out) < k:
            out.append(xs.pop(self.below(len(xs))))
        return out

    def fork(self, label):
        h = hashlib.sha256(("%d/%s" % (self.s, label)).encode()).digest()
        return Rng(int.from_bytes(h[:8], "little"))


def hexs(b):
    return b.hex() if len(b) else "-"


def unhex(s):
    return b"" if s == "-" else bytes.fromhex(s)


class Lock:
    def __init__(self, name="build"):
        os.makedirs(BUILD, exist_ok=True)
        self.path = os.path.join(BUILD, name + ".lock")

    def __enter__(self):
        self.f = open(self.path, "w")
        fcntl.flock(self.f, fcntl.LOCK_EX)

    def __exit__(self, *a):
        fcntl.flock(self.f, fcntl.LOCK_UN)
        self.f.close()


def sh(cmd, cwd=None, timeout=3600, env=None, input=None):
    e = dict(os.environ)
    e.update({"CARGO_NET_OFFLINE": "true"})
    if env:
        e.update(env)
    try:
        p = subprocess.run(cmd, cwd=cwd, shell=isinstance(cmd, str), stdout=subprocess.PIPE,
                           stderr=subprocess.STDOUT, timeout=timeout, env=e, input=input)
        return p.returncode, p.stdout.decode("utf-8", "replace")
    except subprocess.TimeoutExpired as ex:
        return 124, (ex.stdout or b"").decode("utf-8", "replace") + "\n[timeout after %ss]" % timeout


# ----------------------------------------------------------------------------- Coq

FORBIDDEN = re.compile(
    r"\b(Admitted|admit|Axiom|Axioms|Parameter|Parameters|Conjecture|Admit\s+Obligations|"
    r"Unset\s+Guard\s+Checking|Unset\s+Positivity\s+Checking|Unset\s+Universe\s+Checking|"
    r"bypass_check|type-in-type|impredicative-set|native_compute)\b")
TOPLEVEL_VAR = re.compile(r"^(Variable|Variables|Hypothesis|Hypotheses|Context)\b")


def strip_comments(src):
    out, depth, i = [], 0, 0
    while i < len(src):
        if src.startswith("(*", i):
            depth += 1
            i += 2
        elif src.startswith("*)", i) and depth:
            depth -= 1
            i += 2
        else:
            if depth == 0:
                out.append(src[i])
            elif src[i] == "\n":
                out.append("\n")
            i += 1
    return "".join(out)


def coq_sources():
    fs = []
    for d in ("Base", "Crypto", "Model", "Spec", "Proofs", "Props", "Gen"):
        fs += sorted(glob.glob(os.path.join(COQ, d, "*.v")))
    return fs


def forbidden_scan():
    """No Admitted/admit/Axiom/Parameter/..., no Variable/Hypothesis outside a Section."""
    bad = []
    for f in coq_sources() + glob.glob(os.path.join(COQ, "Extract", "*.v")):
        src = strip_comments(open(f).read())
        depth = 0
        for ln, line in enumerate(src.split("\n"), 1):
            m = FORBIDDEN.search(line)
            if m:
                bad.append("%s:%d: %s" % (os.path.relpath(f, VERIF), ln, m.group(0)))
            s = line.strip()
            if re.match(r"^Section\b", s):
                depth += 1
            elif re.match(r"^End\b", s) and depth:
                depth -= 1
            elif depth == 0 and TOPLEVEL_VAR.match(s):
                bad.append("%s:%d: %s outside a Section" % (os.path.relpath(f, VERIF), ln, s.split()[0]))
    return bad


def coq_makefile():
    files = [os.path.relpath(f, COQ) for f in coq_sources()]
    proj = "-Q . LoraV\n" + "\n".join(files) + "\n"
    pp = os.path.join(COQ, "_CoqProject")
    old = open(pp).read() if os.path.exists(pp) else ""
    if old != proj or not os.path.exists(os.path.join(COQ, "Makefile")):
        open(pp, "w").write(proj)
        rc, out = sh("coq_makefile -f _CoqProject -o Makefile", cwd=COQ, timeout=120)
        if rc:
            raise RuntimeError("coq_makefile failed:\n" + out)


def coq_build(targets, timeout=3000):
    """Full .vo build (never -vos) of the given targets, e.g. ['Props/C16.vo']."""
    coq_makefile()
    rc, out = sh(["timeout", str(timeout), "make", "-j%d" % NCPU] + targets, cwd=COQ, timeout=timeout + 30)
    return rc == 0, out


def coq_assumptions(prop_id, theorems):
    """Print Assumptions for every property theorem, from a file re-compiled on every run."""
    d = os.path.join(BUILD, "assume")
    os.makedirs(d, exist_ok=True)
    vf = os.path.join(d, "A_%s.v" % prop_id)
    body = ["From LoraV Require Import Props.%s." % prop_id]
    for t in theorems:
        body.append('Goal True. idtac "@@BEGIN %s". Abort.' % t)
        body.append("Print Assumptions %s." % t)
        body.append('Goal True. idtac "@@END %s". Abort.' % t)
    open(vf, "w").write("\n".join(body) + "\n")
    rc, out = sh(["timeout", "600", "coqc", "-noglob", "-Q", COQ, "LoraV", vf], cwd=d, timeout=630)
    res = {}
    if rc != 0:
        return False, {"_error": out}
    for t in theorems:
        m = re.search(r"@@BEGIN %s\n(.*?)@@END %s" % (re.escape(t), re.escape(t)), out, re.S)
        txt = m.group(1).strip() if m else "<missing>"
        if txt.startswith("Closed under the global context"):
            res[t] = []
        else:
            axs = re.findall(r"^([A-Za-z_][\w.']*)\s*:", txt, re.M)
            res[t] = axs if axs else ["<unparsed> " + txt[:200]]
    return True, res


def count_theorems(prop_id):
    src = strip_comments(open(os.path.join(COQ, "Props", prop_id + ".v")).read())
    return re.findall(r"^\s*(?:Theorem|Lemma|Corollary|Example)\s+([\w']+)", src, re.M)


# -------------------------------------------------------------- model + harness builds

def build_model():
    """Extract the models to OCaml and build the driver.  Returns (ok, log)."""
    gen = os.path.join(BUILD, "ocaml")
    os.makedirs(gen, exist_ok=True)
    ext = os.path.join(COQ, "Extract", "Extract.v")
    # everything Extract.v imports must be compiled and up to date (models and specs only: no proof files)
    mods = re.findall(r"\b((?:Base|Crypto|Model|Spec|Gen)\.\w+)", strip_comments(open(ext).read()).split("Extraction Language")[0])
    ok, out0 = coq_build(sorted({m.replace(".", "/") + ".vo" for m in mods}))
    if not ok:
        return False, out0
    # extraction depends on the compiled models; re-run it when anything it reads changed
    stamp = os.path.join(gen, "stamp")
    deps = [ext, os.path.join(VERIF, "ocaml", "driver.ml")] + glob.glob(os.path.join(COQ, "*", "*.vo"))
    newest = max(os.path.getmtime(f) for f in deps if os.path.exists(f))
    drv = os.path.join(gen, "driver")
    if os.path.exists(drv) and os.path.exists(stamp) and os.path.getmtime(stamp) >= newest:
        return True, "driver up to date"
    rc, out = sh(["timeout", "900", "coqc", "-noglob", "-Q", COQ, "LoraV", "-o", os.path.join(gen, "Extract.vo"), ext],
                 cwd=gen, timeout=930)
    if rc:
        return False, out
    rc, out2 = sh("cp %s/ocaml/driver.ml . && ocamlfind ocamlopt -w -a -inline 200 model.mli model.ml driver.ml -o driver"
                  % VERIF, cwd=gen, timeout=900)
    if rc:
        return False, out + out2
    open(stamp, "w").write(str(time.time()))
    return True, out + out2


def model_bin():
    return os.path.join(BUILD, "ocaml", "driver")


def build_harness(features=None):
    hd = os.path.join(VERIF, "harness")
    rc, out = sh("cp %s/Cargo.lock %s/Cargo.lock.repo 2>/dev/null; cargo build --release --offline 2>&1" % (REPO, hd),
                 cwd=hd, timeout=1800,
                 env={"RUSTFLAGS": "--cfg %s" % GUARD_CFG})
    return rc == 0, out


def harness_bin():
    return os.path.join(BUILD, "harness", "release", "vph")


# -------------------------------------------------------------------- running cases

def run_lines(binary, lines, nshard=NCPU, timeout=3000, env=None):
    """Feed case lines to a line-protocol binary in parallel shards; returns output lines.
    A shard that dies (abort, stack overflow, hang) is re-run line by line so the culprit
    line gets the outcome CRASH/HANG instead of losing the shard."""
    if not lines:
        return []
    n = max(1, min(nshard, (len(lines) + 63) // 64))
    size = (len(lines) + n - 1) // n
    chunks = [lines[i:i + size] for i in range(0, len(lines), size)]

    def one(chunk, tmo=timeout):
        data = ("\n".join(chunk) + "\n").encode()
        e = dict(os.environ)
        if env:
            e.update(env)
        try:
            p = subprocess.run([binary], input=data, stdout=subprocess.PIPE, stderr=subprocess.PIPE, timeout=tmo, env=e)
            outl = p.stdout.decode("utf-8", "replace").split("\n")
            if outl and outl[-1] == "":
                outl.pop()
            if p.returncode == 0 and len(outl) == len(chunk):
                return outl
        except subprocess.TimeoutExpired:
            pass
        if len(chunk) == 1:
            try:
                p = subprocess.run([binary], input=data, stdout=subprocess.PIPE, stderr=subprocess.PIPE, timeout=20, env=e)
                return ["CRASH rc=%d" % p.returncode]
            except subprocess.TimeoutExpired:
                return ["HANG"]
        # bisect
        mid = len(chunk) // 2
        return one(chunk[:mid], 120) + one(chunk[mid:], 120)

    with ThreadPoolExecutor(max_workers=n) as ex:
        outs = list(ex.map(one, chunks))
    res = []
    for o in outs:
        res += o
    return res


# ------------------------------------------------------------------ known findings

def load_known(prop_id):
    """known_findings.txt: 'known: property=Cxx id=<slug> <text>' / 'fixed: property=Cxx <commit> <text>'."""
    path = os.path.join(VERIF, "known_findings.txt")
    known = {}
    if os.path.exists(path):
        for line in open(path):
            line = line.strip()
            m = re.match(r"known:\s+property=(\S+)\s+id=(\S+)\s+(.*)", line)
            if m and m.group(1) == prop_id:
                known[m.group(2)] = m.group(3)
    return known


# ------------------------------------------------------------------------ reporting

class Report:
    def __init__(self, prop_id, tier, seed, level="proof"):
        self.prop_id, self.tier, self.seed, self.level = prop_id, tier, seed, level
        self.t0 = time.time()
        self.violations = []      # (replay_path, suffix)
        self.known_lines = []
        self.cov = {}
        self.assumptions = []
        self.log = []

    def note(self, s):
        print(s, flush=True)

    def replay_path(self, tag):
        d = os.path.join(VERIF, "replays")
        os.makedirs(d, exist_ok=True)
        h = hashlib.sha256(tag.encode()).hexdigest()[:12]
        return os.path.join(d, "%s-%s.json" % (self.prop_id, h))

    def violation(self, payload, concrete=True):
        """payload: dict describing the failing input (concrete) or the broken theorem/correspondence."""
        payload = dict(payload)
        payload["property"] = self.prop_id
        payload["concrete_failing_input"] = bool(concrete)
        path = self.replay_path(json.dumps(payload, sort_keys=True))
        payload["replay_cmd"] = "cd /verif && ./check --replay %s" % path
        json.dump(payload, open(path, "w"), indent=1, sort_keys=True)
        self.violations.append((path, "" if concrete else " no-failing-input-found"))

    def known(self, text):
        self.known_lines.append(text)

    def finish(self):
        wall = time.time() - self.t0
        ev = {
            "property_id": self.prop_id, "tier": self.tier, "seed": self.seed, "level": self.level,
            "coverage": self.cov, "assumptions": self.assumptions, "wall_s": round(wall, 2),
            "violations": len(self.violations),
        }
        evdir = os.environ.get("VERIF_EVIDENCE_DIR") or os.path.join(VERIF, "evidence")     # seeded-change trials write elsewhere
        os.makedirs(evdir, exist_ok=True)
        json.dump(ev, open(os.path.join(evdir, self.prop_id + ".json"), "w"), indent=1)
        for k in self.known_lines:
            print("KNOWN-FINDING: property=%s %s" % (self.prop_id, k))
        seen = set()
        for path, suffix in self.violations[:20]:
            if path in seen:
                continue
            seen.add(path)
            print("VIOLATION property=%s replay=%s%s" % (self.prop_id, path, suffix))
        if self.violations:
            print("[%s] FAILED in %.1fs" % (self.prop_id, wall))
            return 1
        print("[%s] ok in %.1fs" % (self.prop_id, wall))
        return 0


TRUSTED_BASE = [
    "Coq 8.16.1 kernel (coqc, full .vo build; vm_compute used for finite sweeps and known-answer tests; no native_compute)",
    "hand-written Gallina models under coq/Model (tied to /repo by the correspondence run of this check, a differential test)",
    "hand-written specifications under coq/Spec (LoRaWAN L2 1.0.x, RP002, Semtech datasheet formulas)",
    "extraction with ExtrOcamlBasic only (bool/option/list/prod/unit/sumbool mapped to OCaml; no Extract Constant; N/Z/positive stay inductive), ocamlopt 4.13.1, ocaml/driver.ml",
    "Rust harness /verif/harness (path dependency on /repo crates, catch_unwind classification, scripted radio/RNG/timer), python case generators and comparison in /verif/vlib",
]


TRANSLATOR_NOTES = []


def regenerate_tables():
    """the translators: coq/Gen/*.v are regenerated from /repo's current source on every run (a file is rewritten only when its text
    changes, so unchanged sources cost no rebuild).  Returns [(translator, message)] for sources a translator cannot read."""
    bad = []
    for t in ("cmdtables", "regiontables", "phytables"):
        args = []
        if t == "regiontables":
            # second reading of the same tables: the compiled code, asked through the cfg(lora_rs_verif) hooks (`vph regiontables`).
            # The two readings must agree; when the source text is not readable by the textual translator (tables built by
            # const fns, loops, ...) the compiled reading alone regenerates the file.
            okh, _ = build_harness()
            if okh:
                try:
                    p = subprocess.run([harness_bin()], input="".join("regiontables %d\n" % r for r in range(9)),
                                       capture_output=True, text=True, timeout=300)
                    dump = os.path.join(BUILD, "regiontables.dump")
                    open(dump, "w").write(p.stdout)
                    args = ["--dump", dump]
                except (OSError, subprocess.SubprocessError):
                    pass
        rc, out = sh([sys.executable, os.path.join(VERIF, "tools", "rs2v", t + ".py")] + args, cwd=VERIF, timeout=120)
        if rc != 0:
            bad.append((t, out))
        elif "note:" in out:
            TRANSLATOR_NOTES.append(out.strip()[-400:])
    return bad


GEN_OF = {"cmdtables": "Gen/CmdTables", "regiontables": "Gen/RegionTables", "phytables": "Gen/PhyTables"}


def coq_closure(target):
    """the .v files (without extension) a target's compilation depends on, read from coqdep's output; None when unknown"""
    try:
        deps = {}
        for l in open(os.path.join(COQ, ".Makefile.d")):
            m = re.match(r'(\S+)\.vo .*?: (.*)$', l)
            if m:
                deps[m.group(1)] = [x[:-3] for x in m.group(2).split() if x.endswith(".vo")]
        if target not in deps:
            return None
        seen, st = set(), [target]
        while st:
            x = st.pop()
            if x not in seen:
                seen.add(x)
                st += deps.get(x, [])
        return seen
    except OSError:
        return None


def proof_stage(rep, prop_id, theorems, allowed_axioms=(), extra_targets=()):
    """Build Props/<id>.vo, scan, Print Assumptions.  Returns True iff all obligations discharged.
    On failure records a no-failing-input violation naming what no longer checks (callers may
    first run their search and record a concrete one)."""
    with Lock():
        bad = forbidden_scan()
        tfail = regenerate_tables()
        ok, log = coq_build(["Props/%s.vo" % prop_id] + list(extra_targets))
    names = count_theorems(prop_id)
    rep.cov["obligations"] = len(names)
    rep.cov["theorems"] = names
    rep.cov["checker_cmd"] = ("cd /verif/coq && make -j16 Props/%s.vo  (coqc 8.16.1, full .vo) ; "
                              "coqc .build/assume/A_%s.v (Print Assumptions of each theorem)" % (prop_id, prop_id))
    rep.cov["trusted_base"] = list(TRUSTED_BASE)
    failed = []
    rep.cov["translators"] = "tools/rs2v/{cmdtables,regiontables,phytables}.py regenerated coq/Gen from /repo's working tree before the build"
    if TRANSLATOR_NOTES:
        rep.cov["translator_notes"] = list(TRANSLATOR_NOTES)
    clo = coq_closure("Props/%s" % prop_id)
    for t in tfail:
        if clo is not None and GEN_OF.get(t[0]) not in clo:
            # this property's theorems do not rest on the table that translator generates
            rep.cov.setdefault("translator_notes", []).append("%s could not read its source; Props/%s does not depend on %s" % (t[0], prop_id, GEN_OF.get(t[0])))
            continue
        failed.append({"kind": "translator-rejected-source", "tie": "T:" + t[0], "error": t[1][-600:]})
    if bad:
        failed.append({"kind": "forbidden-construct", "where": bad})
    if not ok:
        m = re.findall(r'File "([^"]+)", line (\d+).*?\n(Error:.*?)(?:\n\n|\Z)', log, re.S)
        failed.append({"kind": "coq-build-failed", "target": "Props/%s.vo" % prop_id,
                       "errors": [{"file": a, "line": int(b), "msg": c[:600]} for a, b, c in m][:5] or log[-1500:]})
        rep.cov["discharged"] = 0
    else:
        with Lock("assume"):
            ok2, res = coq_assumptions(prop_id, theorems)
        if not ok2:
            failed.append({"kind": "print-assumptions-failed", "log": res.get("_error", "")[-1500:]})
            rep.cov["discharged"] = 0
        else:
            axs = sorted({a for t in res for a in res[t]})
            rep.cov["axioms"] = axs
            notallowed = [a for a in axs if a not in allowed_axioms]
            if notallowed:
                failed.append({"kind": "unexpected-axioms", "axioms": notallowed})
            rep.cov["discharged"] = len(names) if not notallowed else 0
            rep.assumptions.append("Print Assumptions: " + ("Closed under the global context" if not axs else ", ".join(axs)))
            if rep.tier == "thorough":
                # independent re-check of the compiled files of this property and everything they depend on
                rc, out = sh("coqchk -o -silent -Q . LoraV LoraV.Props.%s" % prop_id, cwd=COQ, timeout=1500)
                m = re.search(r"\* Axioms:\s*(.*?)\n\s*\n", out, re.S)
                ax = m.group(1).strip() if m else "?"
                rep.cov["coqchk"] = {"exit": rc, "axioms": ax}
                rep.assumptions.append("coqchk -o: exit %d, axioms: %s" % (rc, ax))
                if rc != 0 or ax != "<none>":
                    failed.append({"kind": "coqchk-failed", "exit": rc, "axioms": ax, "log": out[-1200:]})
    rep._proof_failures = failed
    return not failed


def pmap(fn, *iters):
    """parallel map for python-side oracles that decode frames with the pure-python AES (fn must be a module-level function)"""
    from concurrent.futures import ProcessPoolExecutor
    n = len(iters[0])
    if n < 400:
        return [fn(*a) for a in zip(*iters)]
    with ProcessPoolExecutor(max_workers=NCPU) as ex:
        return list(ex.map(fn, *iters, chunksize=max(16, n // (NCPU * 8))))


def input_distribution(cases, outs):
    """what the generated inputs looked like: operation kinds, history lengths, outcome kinds (so that a degenerate generator shows)"""
    import collections, re as _re
    ops, outk, lens = collections.Counter(), collections.Counter(), []
    for c in cases:
        parts = [x.strip() for x in c.split("|")]
        if len(parts) > 1:
            lens.append(len(parts) - 1)
            for x in parts[1:]:
                ops[x.split(" ", 1)[0][:24] if x else "-"] += 1
        else:
            ops[c.split(" ", 1)[0][:24]] += 1
    for o in outs:
        for x in o.split(" ; "):
            w = _re.split(r"[\s(\[:=]", x.strip(), 1)[0][:24] if x.strip() else "-"
            outk[w if not w[:1].isdigit() and not w[:1] == "-" else "<value>"] += 1
    d = {"op_mix": dict(ops.most_common(14)), "outcome_mix": dict(outk.most_common(14))}
    if lens:
        lens.sort()
        d["history_length"] = {"min": lens[0], "median": lens[len(lens) // 2], "max": lens[-1]}
    return d


def diff_stage(rep, name, cases, judge, expand=None, max_report=5):
    """Correspondence run: model (extracted OCaml) and implementation (Rust harness) on the same
    case lines.  judge(case, impl_out, model_out) -> None if the implementation's behaviour on this
    case does not violate the property, else a dict describing the violation (used as replay).
    expand(case) -> list of finer cases (for digest/sweep cases).  Returns number of disagreements."""
    t0 = time.time()
    with ThreadPoolExecutor(max_workers=2) as ex:
        fm = ex.submit(run_lines, model_bin(), cases, NCPU // 2)
        fi = ex.submit(run_lines, harness_bin(), cases, NCPU // 2)
        mo, io = fm.result(), fi.result()
    rep.last_run = (cases, io)          # reused by the always-on oracle pass over the same cases
    dis = [(c, i, m) for c, i, m in zip(cases, io, mo) if i != m]
    bad_model = [c for c, m in zip(cases, mo) if m.startswith(("UNKNOWN-OP", "BADARGS", "DRIVER-EXN", "CRASH", "HANG"))]
    bad_impl = [c for c, i in zip(cases, io) if i.startswith(("UNKNOWN-OP", "BADARGS"))]
    if bad_model or bad_impl:
        rep.violation({"kind": "harness-protocol-error", "correspondence": name,
                       "model_side": bad_model[:3], "impl_side": bad_impl[:3]}, concrete=False)
    st = rep.cov.setdefault("correspondence", {})
    st[name] = {"cases": len(cases), "disagreements": len(dis), "distinct_outputs": len(set(io)),
                "seconds": round(time.time() - t0, 1)}
    st[name].update(input_distribution(cases, io))
    rep.cov["traces_validated_against_impl"] = rep.cov.get("traces_validated_against_impl", 0) + len(cases) - len(dis)
    rep.cov["evaluations"] = rep.cov.get("evaluations", 0) + len(cases)
    rep.cov["distinct_nontrivial"] = rep.cov.get("distinct_nontrivial", 0) + len(set(zip(cases, io)))
    sm = rep.cov.setdefault("samples", [])
    for k in range(0, len(cases), max(1, len(cases) // 3)):
        if len(sm) < 12:
            sm.append({"case": cases[k], "impl": io[k][:300], "model": mo[k][:300]})
    if not dis:
        return 0
    fine = []
    for c, i, m in dis[:200]:
        if expand and expand(c):
            sub = expand(c)
            so_m = run_lines(model_bin(), sub, 4)
            so_i = run_lines(harness_bin(), sub, 4)
            fine += [(a, b, d) for a, b, d in zip(sub, so_i, so_m) if b != d]
        else:
            fine.append((c, i, m))
    concrete = 0
    for c, i, m in fine:
        try:
            v = judge(c, i, m)
        except Exception as e:       # an oracle that cannot read an unexpected output must not end the search for a concrete input
            rep.cov.setdefault("oracle_errors", []).append({"correspondence": name, "case": c[:300], "error": repr(e)[:200]})
            v = None
        if v is not None:
            concrete += 1
            if concrete <= max_report:
                v = dict(v)
                v.update({"case": c, "impl_output": i, "model_output": m, "correspondence": name})
                rep.violation(v, concrete=True)
    if concrete == 0:
        c, i, m = fine[0] if fine else dis[0]
        rep.violation({"kind": "correspondence-broken", "correspondence": name,
                       "first_disagreeing_case": c, "impl_output": i, "model_output": m,
                       "disagreements": len(dis),
                       "note": "model and implementation differ; on the disagreeing cases the implementation "
                               "was not found to violate the property itself"}, concrete=False)
    return len(dis)


def finish_proof_failures(rep):
    """After the searches: a broken proof obligation with no concrete failing input found is still reported,
    naming the theorem / build target that no longer checks, with the no-failing-input-found suffix."""
    fails = getattr(rep, "_proof_failures", [])
    if not fails:
        return
    rep.cov["proof_failures"] = fails
    if any(s == "" for _, s in rep.violations):
        return        # a concrete failing input is already reported; the broken obligation is recorded in the evidence
    rep.violation({"kind": "proof-obligation-broken", "what": fails}, concrete=False)


def build_both(rep):
    with Lock():
        okm, logm = build_model()
        okh, logh = build_harness()
    if not okm:
        rep.violation({"kind": "model-build-failed", "log": logm[-2000:]}, concrete=False)
        return False
    if not okh:
        rep.violation({"kind": "harness-build-failed: the implementation no longer builds against /verif/harness",
                       "log": logh[-3000:]}, concrete=False)
        return False
    return True
