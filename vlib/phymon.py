"""Chip-side monitor for the PHY properties (C14): an independent reading of the pin-level trace of an operation against the
datasheet behaviour of the chip -- which mode the chip is in, whether it is asleep, what has been programmed since its
configuration was last lost.  It knows nothing of the driver; it is fed only what crossed the pins.

SX126x (DS.SX1261-2 rev 2.1, ch. 9, 13): SetSleep 0x84 (bit 2 of the argument = warm start, otherwise the configuration is lost),
  a sleeping chip is woken by the falling edge of NSS and is not ready for a command until BUSY falls: the transaction that wakes it
  must be a harmless one (the driver uses GetStatus 0xC0); SetStandby 0x80, SetFs 0xC1, SetTx 0x83, SetRx 0x82, SetRxDutyCycle 0x94
  (the chip alternates between RX and sleep by itself: mode changes and configuration need the wake-up first), SetCad 0xC5,
  SetTxContinuousWave 0xD1; NRESET loses everything and ends in standby.  TxDone / RxDone(single) / timeout / CadDone return the
  chip to standby on its own.
SX127x (DS SX1276-7-8-9 rev 7, ch. 4.1.6, 6.4): RegOpMode 0x01 bits 2..0 = sleep, standby, fstx, tx, fsrx, rxcontinuous, rxsingle, cad;
  registers stay accessible in sleep, the FIFO does not; TxDone / RxSingle done or timeout / CadDone return to standby; reset loses everything.
"""
import re

ITEMS126 = {0x8A: "packet_type", 0x96: "regulator", 0x97: "tcxo", 0x8F: "buffer_bases", 0x8B: "modulation", 0x8C: "packet", 0x08: "irq",
            0x86: "frequency", 0x8E: "tx_params", 0x95: "pa_config", 0x88: "cad_params"}
READONLY126 = {0x12, 0x02, 0x13, 0x14, 0x15, 0x1D, 0x1E, 0x17, 0x11, 0x10, 0xC0}
NEED_RX = ["packet_type", "sync_word", "buffer_bases", "modulation", "packet", "irq", "frequency"]
NEED_TX = NEED_RX + ["tx_params", "pa_config"]
NEED_CAD = ["packet_type", "sync_word", "buffer_bases", "modulation", "irq", "frequency", "cad_params"]
NEED_LISTEN = ["packet_type", "modulation", "frequency"]
BASE = ["packet_type", "sync_word", "buffer_bases"]               # what the cold start programs (plus TCXO / regulator set-up)

ITEMS127 = {0x39: "sync_word", 0x06: "frequency", 0x07: "frequency_mid", 0x08: "frequency_lsb", 0x1D: "modulation", 0x1E: "modulation2", 0x26: "modulation3",
            0x20: "preamble_msb", 0x21: "preamble", 0x22: "payload_length", 0x33: "invert_iq", 0x3B: "invert_iq2", 0x11: "irq_mask", 0x40: "dio_mapping",
            0x0E: "tx_base", 0x0F: "rx_base", 0x09: "pa_config", 0x4B: "tcxo", 0x58: "tcxo"}
NEED_RX127 = ["lora_mode", "sync_word", "rx_base", "modulation", "modulation2", "preamble", "invert_iq", "irq_mask", "dio_mapping",
              "frequency", "frequency_mid", "frequency_lsb"]
NEED_TX127 = ["lora_mode", "sync_word", "tx_base", "modulation", "modulation2", "preamble", "payload_length", "invert_iq", "irq_mask", "dio_mapping",
              "frequency", "frequency_mid", "frequency_lsb", "pa_config"]
NEED_CAD127 = ["lora_mode", "sync_word", "modulation", "modulation2", "irq_mask", "dio_mapping", "frequency", "frequency_mid", "frequency_lsb"]
NEED_LISTEN127 = ["lora_mode", "modulation", "frequency", "frequency_mid", "frequency_lsb"]
BASE127 = ["lora_mode", "sync_word", "tx_base", "rx_base"]


class Chip:
    """mode: sleep | stby | fs | tx | rx1 (single) | rxc | duty | cad"""

    def __init__(self, family, tcxo=False, dcdc=False):
        self.family = family
        self.tcxo = tcxo              # the board has a TCXO: it must be set up before the radio is used
        self.dcdc = dcdc              # the board uses the DC-DC regulator (SX126x): SetRegulatorMode is part of the set-up
        self.mode = "stby"            # after power-on reset
        self.awake = True             # duty cycle only: False when the chip may be in the sleep phase
        self.valid = set()
        self.viol = []
        self.starts = []              # (what, missing items) for each SetTx / SetRx / SetCad seen
        self.op = ""

    # ---- time passes (between API calls, at an await that does not complete)
    def time_passes(self):
        if self.mode == "duty":
            self.awake = False

    def need(self, what):
        if self.family == 126:
            n = {"tx": NEED_TX, "rx": NEED_RX, "cad": NEED_CAD, "listen": NEED_LISTEN, "base": BASE}[what]
            return n + (["tcxo"] if self.tcxo else []) + (["regulator"] if self.dcdc else [])
        n = {"tx": NEED_TX127, "rx": NEED_RX127, "cad": NEED_CAD127, "listen": NEED_LISTEN127, "base": BASE127}[what]
        return n + (["tcxo"] if self.tcxo else [])

    def start(self, what):
        if what == "rx" and self.op.startswith("listen"):
            what = "listen"
        missing = [i for i in self.need(what) if i not in self.valid]
        self.starts.append((what, missing))
        if missing:
            self.viol.append("%s started with %s not programmed since the configuration was last lost" % (what, ",".join(missing)))

    def event(self, tok):
        if tok.endswith("!"):
            return                    # the pin operation failed: nothing reached the chip
        if tok == "RESET":
            self.mode, self.awake, self.valid = "stby", True, set()
            return
        if tok == "IRQ":
            self.awake = True         # an interrupt edge: the chip is in an active phase
            return
        if tok == "IRQ-PENDING":
            self.time_passes()
            return
        if tok[0] != "w":
            return
        segs = tok.split(",")
        hx = lambda x: bytes.fromhex(x) if x != "-" else b""
        written = b"".join(hx(s[1:]) for s in segs if s[0] == "w")
        read = b"".join(hx(s[1:]) for s in segs if s[0] == "r")
        if not written:
            return
        (self.spi126 if self.family == 126 else self.spi127)(written, read)

    def spi126(self, w, r):
        op = w[0]
        if self.mode == "sleep":
            if op == 0xC0:
                self.mode = "stby"
            else:
                self.viol.append("command 0x%02x sent to a sleeping chip without waking it first" % op)
            return
        if self.mode == "duty" and not self.awake:
            if op == 0xC0:
                self.awake = True
                return
            if op not in READONLY126:
                self.viol.append("command 0x%02x sent during RxDutyCycle without waking the chip first" % op)
                return
        if op == 0x84:
            warm = len(w) > 1 and (w[1] & 0x04) != 0
            self.mode = "sleep"
            if not warm:
                self.valid = set()
        elif op == 0x80:
            self.mode = "stby"
        elif op == 0xC1:
            self.mode = "fs"
        elif op in (0x83, 0xD1):
            self.start("tx")
            self.mode = "tx"
        elif op == 0x82:
            self.start("rx")
            self.mode = "rxc" if w[1:4] == b"\xff\xff\xff" else "rx1"
        elif op == 0x94:
            self.start("rx")
            self.mode, self.awake = "duty", True
        elif op == 0xC5:
            self.start("cad")
            self.mode = "cad"
        elif op == 0x8A:
            self.valid -= {"modulation", "packet"}      # the packet type comes first: it resets the modem parameters
            self.valid.add("packet_type")
        elif op == 0x0D and len(w) >= 4 and w[1] == 0x07 and w[2] == 0x40 and len(w) >= 5:
            self.valid.add("sync_word")
        elif op in ITEMS126:
            self.valid.add(ITEMS126[op])
        elif op == 0x12 and len(r) >= 3:
            flags = r[1] * 256 + r[2]
            if self.mode == "tx" and flags & (0x001 | 0x200):
                self.mode = "stby"
            elif self.mode in ("rx1", "duty") and flags & (0x002 | 0x200):
                self.mode = "stby"
            elif self.mode == "cad" and flags & 0x080:
                self.mode = "stby"

    def spi127(self, w, r):
        addr, wr = w[0] & 0x7F, (w[0] & 0x80) != 0
        if addr == 0x00 and self.mode == "sleep":
            self.viol.append("FIFO access while the chip sleeps")
            return
        if not wr:
            if addr == 0x12 and r:
                f = r[0]
                if self.mode == "tx" and f & 0x08:
                    self.mode = "stby"
                elif self.mode == "rx1" and f & (0x40 | 0x80):
                    self.mode = "stby"
                elif self.mode == "cad" and f & 0x04:
                    self.mode = "stby"
            return
        vals = w[1:]
        for i, v in enumerate(vals):
            a = addr + i if addr != 0 else 0
            if a == 0x01:
                m = v & 0x07
                new = ["sleep", "stby", "fs", "tx", "fs", "rxc", "rx1", "cad"][m]
                if self.mode == "sleep" or new == "sleep":      # LongRangeMode "can be modified only in Sleep mode"
                    if v & 0x80:
                        self.valid.add("lora_mode")
                    else:
                        self.valid.discard("lora_mode")
                if new == "tx":
                    self.start("tx")
                elif new in ("rxc", "rx1"):
                    self.start("rx")
                elif new == "cad":
                    self.start("cad")
                self.mode = new
            elif a in ITEMS127:
                self.valid.add(ITEMS127[a])


def tokens(trace):
    return [t for t in trace.split() if t]


OPRE = re.compile(r"^(?P<res>.*?) mode=(?P<mode>\S+) cold=(?P<cold>[01]) cal=(?P<cal>[01]) :: ?(?P<trace>.*)$")


def parse_op(o):
    m = OPRE.match(o)
    if not m:
        return None
    return m.group("res"), m.group("mode"), m.group("cold") == "1", m.group("trace")
