"""Histories for the nb_device front-end (line kind `ndev`): joins, sends, radio (phy) events with every kind of answer (txing, txdone,
idle, rxing, err, received frames: valid / foreign / replayed / oversized / junk), timeouts in every state, API misuse (send while
sending, join while waiting), data-rate / ADR changes, a fault at chosen radio-call positions, counters near the boundaries."""
from . import lw, machist
from .adevhist import NWK, APP, ADDR, KEY, frame


def histories(rng, tier, n=None):
    lines = []
    n = n or (800 if tier == "quick" else 8000)
    for i in range(n):
        r = rng.fork("ndev%d" % i)
        region = r.choice([5, 8, 0, 4, 6, 7, 1])
        start = r.choice([0, 0, 3, 0xFFFE, 0xFFFF, 0xFFFFFFFD, 0xFFFFFFFE, 0xFFFFFFFF])
        fault = r.choice(["-", "-"] + [str(x) for x in range(0, 16)] + ["%dx%d" % (k, n) for k in (0, 2, 5, 9) for n in (2, 3, 30)])
        bias = r.choice(["-", "-", "2:3"]) if region in (4, 8) else "-"
        head = "ndev r=%d fault=%s bias=%s" % (region, fault, bias)
        ops, st = [], {"down": 0}
        mode = r.below(4)
        if mode == 0:
            head += " session=%s:%s:%d:%d" % (NWK.hex(), APP.hex(), ADDR, start)
        elif mode == 1:
            ops.append("abp %s %s %d" % (NWK.hex(), APP.hex(), ADDR))
        elif mode == 2:
            ja = lw.join_accept(KEY, r.below(1 << 24), r.below(1 << 24), r.below(1 << 32), r.below(256), r.below(16), b"")
            bad = lw.join_accept(r.bytes(16), 1, 2, 3, 0, 1, b"")
            ops.append("join 1 2 %s %s %s" % (KEY.hex(), machist.draws(r, 40), r.choice(["txdone", "txdone", "txing", "idle", "err"])))
            ops += r.choice([["timeout", "phy rx" + ja.hex()], ["phy txdone", "timeout", "phy rx" + ja.hex()], ["timeout", "timeout", "timeout", "phy rx" + ja.hex()],
                             ["timeout", "phy rx" + bad.hex(), "timeout", "timeout", "phy rx" + ja.hex()], ["timeout", "timeout", "timeout", "timeout"]])
        # structured uplink procedures: send, (txdone), window timeouts, a frame in RX1 or RX2
        for _ in range(r.below(3)):
            ans = r.choice(["txdone", "txing"])
            ops.append("send %s %d %d %s %s" % (r.hex(r.below(5)), r.range(1, 223), r.below(2), machist.draws(r, 40), ans))
            if ans == "txing":
                ops.append("phy txdone")
            kind = r.choice(["good", "good", "mac", "foreign", "replay", "junk", "none"])
            where = r.below(2)
            ops.append("timeout")
            if where == 1 or kind == "none":
                ops += ["timeout", "timeout"]
            if kind != "none":
                if kind in ("good", "mac"):
                    st["down"] += 1
                ops.append("phy rx" + frame(r, st["down"], kind).hex())
            ops += ["timeout"] * r.below(4)
        for _ in range(r.range(2, 12)):
            k = r.below(12)
            if k < 3:
                ops.append("send %s %d %d %s %s" % (r.hex(r.below(5)), r.range(1, 223), r.below(2), machist.draws(r, 40),
                                                    r.choice(["txdone", "txdone", "txing", "txing", "idle", "rxing", "err", "rx0102"])))
            elif k < 6:
                ops.append("timeout")
            elif k < 9:
                kind = r.choice(["txdone", "txdone", "idle", "rxing", "err", "txing", "good", "good", "mac", "foreign", "replay", "big", "junk", "huge"])
                if kind in ("good", "mac", "foreign", "replay", "big", "junk"):
                    if kind in ("good", "mac", "big"):
                        st["down"] += 1
                    ops.append("phy rx" + frame(r, st["down"], kind).hex())
                elif kind == "huge":
                    ops.append("phy rx" + r.hex(r.choice([256, 257, 300])))
                else:
                    ops.append("phy " + kind)
            elif k == 9:
                ops.append("dr %d" % r.below(8))
            elif k == 10:
                ops.append("adr %d" % r.below(2))
            else:
                ops.append("fcnt")
        ops.append("fcnt")
        lines.append(head + " | " + " | ".join(ops))
    return lines
