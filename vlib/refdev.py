"""An independent reference view of a MAC history, used ONLY to judge the implementation's outputs when the
correspondence with the Coq model breaks (and as an always-on oracle): acceptance of downlinks (C05), uplink counters
(C06), header bits / ADR back-off (C12), join procedure (C11).  Written from the LoRaWAN 1.0.x text, not from the model."""
from . import core, lw

ACCEPT = ("DownlinkReceived", "SessionExpired")
LOWER = {  # next lower region-defined data rate (region tables of the implementation; IN865/EU868 have no DR6)
    0: range(0, 7), 1: range(0, 7), 2: range(0, 7), 3: range(0, 7), 4: list(range(0, 7)) + list(range(8, 14)),
    5: range(0, 6), 6: range(0, 7), 7: range(0, 6), 8: list(range(0, 5)) + list(range(8, 14))}


def next_lower(region, dr):
    c = [d for d in LOWER[region] if d < dr]
    return max(c) if c else None


class Ref:
    def __init__(self, head):
        self.region = 5
        for kv in head.split()[1:]:
            k, v = kv.split("=")
            if k == "r":
                self.region = int(v)
        self.joined = False
        self.nwk = self.app = None
        self.addr = 0
        self.last_down = None
        self.pending_join = None      # (appkey, devnonce, deveui, appeui)
        self.up_counters = []
        self.up = 0
        self.adr = True
        self.since_dl = 0
        self.owed_ack = False
        self.dr = 0
        self.last_conf = False
        self.open_uplink = False
        self.v = []
        self.expired = False

    def bad(self, kind, **kw):
        d = {"kind": kind}
        d.update(kw)
        self.v.append(d)

    def new_session(self, nwk, app, addr):
        self.joined, self.nwk, self.app, self.addr = True, nwk, app, addr
        self.last_down, self.up_counters, self.up = None, [], 0
        self.since_dl, self.owed_ack, self.pending_join = 0, False, None
        self.expired = False

    def fresh(self, wire):
        if self.last_down is None:
            return wire
        base = self.last_down - (self.last_down & 0xFFFF)
        for n in (base + wire, base + 0x10000 + wire):
            if self.last_down < n <= self.last_down + 16384 and n < (1 << 32):
                return n
        return None

    def close_uplink(self, accepted):
        """an uplink procedure ended (timeout or accepted downlink)"""
        if self.up < 0xFFFFFFFF:
            self.up += 1
        if accepted:
            self.since_dl = 0
        elif self.adr:
            self.since_dl += 1
            if self.since_dl >= 96 and (self.since_dl - 64) % 32 == 0:
                nl = next_lower(self.region, self.dr)
                if nl is not None:
                    self.dr = nl
        self.open_uplink = False

    def step(self, op, out):
        a = op.split()
        k = a[0]
        if out.startswith("SessionExpired"):
            self.expired = True      # the property speaks about the frames up to the reported expiry
        if k == "abp":
            self.new_session(bytes.fromhex(a[1]), bytes.fromhex(a[2]), int(a[3]))
        elif k == "otaa":
            nonce = int(a[4].split(",")[0]) & 0xFFFF
            self.pending_join = (bytes.fromhex(a[3]), nonce, int(a[1]), int(a[2]))
            self.joined = False
            if out.startswith("TX"):
                fr = bytes.fromhex(out.split("frame=")[1].split()[0])
                ok = (len(fr) == 23 and fr[0] == 0 and int.from_bytes(fr[1:9], "little") == int(a[2])
                      and int.from_bytes(fr[9:17], "little") == int(a[1]) and int.from_bytes(fr[17:19], "little") == nonce
                      and lw.cmac(bytes.fromhex(a[3]), fr[:19])[:4] == fr[19:])
                if not ok:
                    self.bad("JoinRequest is not well-formed (identifiers / DevNonce / MIC under the root key)", frame=fr.hex())
        elif k in ("rx", "rxc"):
            frame = core.unhex(a[1])
            maxp = int(a[3])
            resp = out.split()[0].split("(")[0] if out else ""
            if self.pending_join is not None and not self.joined:
                appkey, nonce, _, _ = self.pending_join
                good = False
                if k == "rx" and len(frame) in (17, 33) and frame[0] & 3 == 0 and frame[0] >> 5 == 1:
                    clear = frame[:1] + b"".join(lw.aes_enc(appkey, frame[1 + i:17 + i]) for i in range(0, len(frame) - 1, 16))
                    if lw.cmac(appkey, clear[:-4])[:4] == clear[-4:]:
                        good = True
                        nwk, app = lw.session_keys(appkey, int.from_bytes(clear[1:4], "little"), int.from_bytes(clear[4:7], "little"), nonce)
                        addr = int.from_bytes(clear[7:11], "little")
                if good:
                    if resp != "JoinSuccess":
                        self.bad("authentic JoinAccept did not join the device", response=out[:80])
                    else:
                        self.new_session(nwk, app, addr)
                        self.dr_after_join = True
                elif resp == "JoinSuccess":
                    self.bad("device joined on a frame that is not an authentic JoinAccept", frame=frame.hex())
                return
            if not self.joined:
                return
            # reference acceptance
            wf = len(frame) >= 12 and frame[0] & 3 == 0 and 2 <= frame[0] >> 5 <= 5 and 8 + (frame[5] & 15) + 4 <= len(frame)
            accept_n = None
            oversized = wf and len(frame) > maxp + 5
            if wf and not oversized:
                n = self.fresh(int.from_bytes(frame[6:8], "little"))
                if n is not None:
                    b0 = bytes([0x49, 0, 0, 0, 0, (frame[0] >> 5) & 1]) + frame[1:5] + n.to_bytes(4, "little") + bytes([0, (len(frame) - 4) & 0xFF])
                    if lw.cmac(self.nwk, b0 + frame[:-4])[:4] == frame[-4:]:
                        accept_n = n
            if accept_n is not None:
                if resp not in ACCEPT:
                    self.bad("authentic fresh downlink was not accepted", response=out[:80], counter=accept_n)
                elif resp == "DownlinkReceived" and ("(%d)" % accept_n) not in out:
                    self.bad("downlink accepted with a counter other than the unique fresh one", response=out[:80], counter=accept_n)
                # the payload handed to the application: FRMPayload decrypted under the application key with that same counter
                fl = frame[5] & 15
                body = frame[8 + fl:-4]
                if resp == "DownlinkReceived" and body and body[0] != 0 and " dl=" in out:
                    want = "%d:%s" % (body[0], core.hexs(lw._crypt(self.app, 1, int.from_bytes(frame[1:5], "little"), accept_n, body[1:])))
                    got = out.split(" dl=")[1].split()[0]
                    if got != want and got != "none":
                        self.bad("downlink payload was not decrypted with the accepted 32-bit counter", delivered=got, expected=want, counter=accept_n)
                self.last_down = accept_n
                if frame[0] >> 5 == 5:
                    self.owed_ack = True
                if k == "rx" or True:
                    self.close_uplink(True) if self.up < 0xFFFFFFFF else None
            elif oversized and k == "rx":
                if resp in ("DownlinkReceived",):
                    self.bad("oversized frame was accepted", response=out[:80])
                else:
                    self.close_uplink(False)
            else:
                if resp in ACCEPT or resp in ("RxComplete", "NoAck"):
                    self.bad("a frame the reference rejects (forged / replayed / stale / malformed) was acted upon", response=out[:80])
        elif k == "rx2c":
            if self.joined:
                self.close_uplink(False)
        elif k == "adr":
            self.adr = a[1] != "0"
            if not self.adr:
                self.since_dl = 0
        elif k == "dr":
            self.dr = int(a[1])
        elif k == "patch":
            for kv in a[1:]:
                kk, vv = kv.split("=")
                if kk == "up":
                    self.up = int(vv)
                    self.up_counters = []
                elif kk == "down":
                    self.last_down = None if vv == "none" else int(vv)
                else:
                    self.since_dl = int(vv)
        elif k == "send" and self.joined and out.startswith("TX"):
            cnt = int(out.split("cnt=")[1].split()[0])
            fr = bytes.fromhex(out.split("frame=")[1].split()[0])
            d = lw.decode_uplink(fr, self.nwk, self.app, cnt >> 16)
            if d is None or d.get("fcnt32") != cnt or (cnt & 0xFFFF) != d["fcnt16"]:
                self.bad("uplink MIC/encryption counter is not the full counter whose low half is on the wire", counter=cnt, frame=fr.hex())
            if self.up_counters and cnt <= self.up_counters[-1] and not self.expired:
                self.bad("uplink frame counter repeated / went backwards within a session", counters=self.up_counters[-3:] + [cnt])
            self.up_counters.append(cnt)
            if d is not None:
                conf = a[3] != "0"
                if d["addr"] != self.addr:
                    self.bad("uplink carries a device address other than the session's", addr=d["addr"])
                if d["mtype"] != (4 if conf else 2):
                    self.bad("uplink message type differs from what the application requested", mtype=d["mtype"])
                fc = d["fctrl"]
                if bool(fc & 0x20) != self.owed_ack:
                    self.bad("ACK bit wrong: it must be set exactly in the first uplink after an accepted confirmed downlink",
                             ack_bit=bool(fc & 0x20), owed=self.owed_ack)
                if bool(fc & 0x80) != self.adr:
                    self.bad("ADR bit differs from the ADR setting", adr_bit=bool(fc & 0x80), adr=self.adr)
                want_req = self.adr and self.since_dl >= 64 and next_lower(self.region, self.dr) is not None
                if bool(fc & 0x40) != want_req:
                    self.bad("ADRACKReq bit wrong", bit=bool(fc & 0x40), since_downlink=self.since_dl, dr=self.dr)
                # data rate actually used
                sfbw = out.split("rf=")[1].split()[0].split("/")
                self.tx_seen = (int(sfbw[1]), int(sfbw[2]))
            self.owed_ack = False
            self.open_uplink = True


def judge_history(case, impl, kinds=None):
    """replays the history against the reference; returns the first violation (dict) or None.
    kinds: optional filter of violation-kind substrings relevant to the calling property."""
    parts = [p.strip() for p in case.split("|")]
    outs = impl.split(" ; ")
    ref = Ref(parts[0])
    for i, op in enumerate(parts[1:]):
        if i >= len(outs):
            break
        o = outs[i]
        if o in ("PANIC", "HANG"):
            break
        try:
            ref.step(op, o)
        except Exception as e:            # malformed implementation output
            ref.bad("unparseable implementation output", error=repr(e), op=op[:80], out=o[:80])
        if ref.v:
            v = ref.v[0]
            if kinds is None or any(s in v["kind"] for s in kinds):
                v["at_op"] = i
                v["op"] = op[:200]
                return v
            ref.v = []
    return None
