"""Interaction histories on ONE channel slot of a dynamic channel plan: every ordering of create / re-tune / remove (NewChannelReq),
enable / disable (LinkADRReq masks), set / repeat / reset the downlink frequency (DlChannelReq), followed by uplinks forced onto that
slot.  Shared by C08 (does what it answers), C09 (legal transmissions) and C10 (RX1 on the paired downlink frequency)."""
import itertools
from . import machist

ALPHABET = "ABCDEFHI"


def freqs(region):
    ok = machist.FREQ_OK[region]
    step = 200000 if region != 6 else 100000
    return {"f1": ok, "f2": ok + step, "g1": ok + 2 * step, "g2": ok + 3 * step}


def command(region, idx, letter):
    f = freqs(region)
    join_mask = 0x0007 if region in (5, 6, 7) else 0x0003
    return {
        "A": machist.new_channel(idx, f["f1"], 5, 0),
        "B": machist.new_channel(idx, f["f2"], 5, 0),
        "C": machist.new_channel(idx, 0, 5, 0),
        "D": machist.link_adr(15, 15, join_mask | (1 << idx), 0),
        "E": machist.link_adr(15, 15, join_mask, 0),
        "F": machist.dl_channel(idx, f["g1"]),
        "I": machist.dl_channel(idx, f["g2"]),
        "H": machist.dl_channel(idx, f["f1"]),
    }[letter]


def history(rng, region, idx, seq, cover):
    net = machist.Net(rng, region)
    net.abp()
    net.snap()
    for letter in seq:
        net.send(b"u", 1, False, ndraws=40)
        net.downlink(command(region, idx, letter), None, b"")
        net.snap()
        net.op("send 75 1 0 %s" % cover(rng))
        net.snap()
        net.rx2c()
    # force the following uplinks onto the slot (acknowledged only when it is defined)
    net.send(b"u", 1, False, ndraws=40)
    net.downlink(machist.link_adr(15, 15, 1 << idx, 0), None, b"")
    net.snap()
    for _ in range(2):
        net.op("send 7a 1 0 %s" % cover(rng))
        net.snap()
        net.rx2c()
    return net.line()


def sequences(rng, tier, length=3):
    seqs = ["".join(s) for s in itertools.product(ALPHABET, repeat=length)]
    return seqs


def gen(rng, tier, cover, regions=machist.DYN):
    lines = []
    seqs = sequences(rng, tier)
    for k, region in enumerate(regions):
        r = rng.fork("co%d" % region)
        idxs = [3 + (k % 5)] if tier == "quick" else [3, 4, 7, 15]
        for idx in idxs:
            for s in seqs:
                if tier == "quick" and r.below(3) != 0 and not s.startswith(("AF", "AE", "BF")):
                    continue
                lines.append(history(r, region, idx, s, cover))
            if tier != "quick":
                for _ in range(600):
                    lines.append(history(r, region, idx, "".join(r.choice(ALPHABET) for _ in range(r.range(4, 7))), cover))
    return lines


# RP002: number of default channels per dynamic-plan region ("SHALL be implemented in every end-device ... cannot be modified through
# the NewChannelReq command"): EU868 / EU433 / IN865 three, AS923 two
NDEFAULT = {0: 2, 1: 2, 2: 2, 3: 2, 5: 3, 6: 3, 7: 3}


def default_channel_histories(rng, tier, cover, regions=machist.DYN):
    """NewChannelReq aimed at the DEFAULT channels (remove with frequency 0, re-tune, change the data-rate range), alone, for all of
    them, and combined with an extra channel that is then masked off; afterwards data uplinks and an OTAA re-join whose draws visit
    every join channel.  The requests must be refused and the device must go on transmitting on the default channels."""
    lines = []
    for region in regions:
        r = rng.fork("dc%d" % region)
        nd = NDEFAULT[region]
        f = freqs(region)
        variants = ["all0", "one0", "retune", "masked"] if tier == "quick" else ["all0", "one0", "retune", "masked"] * 4
        for v in variants:
            net = machist.Net(r, region)
            net.abp()
            net.snap()
            cmds = []
            if v == "all0":
                cmds = [machist.new_channel(i, 0, 5, 0) for i in range(nd)]
            elif v == "one0":
                cmds = [machist.new_channel(r.below(nd), 0, r.choice([5, 0]), 0)]
            elif v == "retune":
                cmds = [machist.new_channel(r.below(nd), f[r.choice(["f1", "f2"])], r.choice([5, 3]), r.choice([0, 2]))]
            else:
                cmds = [machist.new_channel(3, f["f1"], 5, 0), machist.link_adr(15, 15, (1 << nd) - 1, 0)] + [machist.new_channel(i, 0, 5, 0) for i in range(nd)]
            for c in cmds:
                net.send(b"u", 1, False, ndraws=40)
                net.downlink(c, None, b"")
                net.snap()
                net.op("send 75 1 0 %s" % cover(r))
                net.snap()
                net.rx2c()
            for _ in range(3):
                net.op("send 7a 1 0 %s" % cover(r))
                net.snap()
                net.rx2c()
            # a re-join: the draws 0, 1, 2, 3 visit every join channel index
            net.op("otaa %d %d %s %d,0,1,2,3,0,1,2,3,%s" % (r.below(1 << 64), r.below(1 << 64), net.appkey.hex(), r.below(1 << 32), machist.draws(r, 8)))
            net.rx2c()
            net.op("otaa %d %d %s %d,1,2,0,3,1,2,%s" % (r.below(1 << 64), r.below(1 << 64), net.appkey.hex(), r.below(1 << 32), machist.draws(r, 8)))
            lines.append(net.line())
    return lines
