"""Interaction histories on ONE channel slot of a dynamic channel plan: every ordering of create / re-tune / remove (NewChannelReq),
enable / disable (LinkADRReq masks), set / repeat / reset the downlink frequency (DlChannelReq), followed by uplinks forced onto that
slot.  Shared by C08 (does what it answers), C09 (legal transmissions) and C10 (RX1 on the paired downlink frequency)."""
import itertools
from . import machist

ALPHABET = "ABCDEFHI"


def freqs(region):
    ok = machist.FREQ_OK[region]
    step = 200000 if region != 6 else 100000
    return {"f1": ok, "f2": ok + step, "g1": ok + 2 * step, "g2": ok + 3 * step}


def command(region, idx, letter):
    f = freqs(region)
    join_mask = 0x0007 if region in (5, 6, 7) else 0x0003
    return {
        "A": machist.new_channel(idx, f["f1"], 5, 0),
        "B": machist.new_channel(idx, f["f2"], 5, 0),
        "C": machist.new_channel(idx, 0, 5, 0),
        "D": machist.link_adr(15, 15, join_mask | (1 << idx), 0),
        "E": machist.link_adr(15, 15, join_mask, 0),
        "F": machist.dl_channel(idx, f["g1"]),
        "I": machist.dl_channel(idx, f["g2"]),
        "H": machist.dl_channel(idx, f["f1"]),
    }[letter]


def history(rng, region, idx, seq, cover):
    net = machist.Net(rng, region)
    net.abp()
    net.snap()
    for letter in seq:
        net.send(b"u", 1, False, ndraws=40)
        net.downlink(command(region, idx, letter), None, b"")
        net.snap()
        net.op("send 75 1 0 %s" % cover(rng))
        net.snap()
        net.rx2c()
    # force the following uplinks onto the slot (acknowledged only when it is defined)
    net.send(b"u", 1, False, ndraws=40)
    net.downlink(machist.link_adr(15, 15, 1 << idx, 0), None, b"")
    net.snap()
    for _ in range(2):
        net.op("send 7a 1 0 %s" % cover(rng))
        net.snap()
        net.rx2c()
    return net.line()


def sequences(rng, tier, length=3):
    seqs = ["".join(s) for s in itertools.product(ALPHABET, repeat=length)]
    return seqs


def gen(rng, tier, cover, regions=machist.DYN):
    lines = []
    seqs = sequences(rng, tier)
    for k, region in enumerate(regions):
        r = rng.fork("co%d" % region)
        idxs = [3 + (k % 5)] if tier == "quick" else [3, 4, 7, 15]
        for idx in idxs:
            for s in seqs:
                if tier == "quick" and r.below(3) != 0 and not s.startswith(("AF", "AE", "BF")):
                    continue
                lines.append(history(r, region, idx, s, cover))
            if tier != "quick":
                for _ in range(600):
                    lines.append(history(r, region, idx, "".join(r.choice(ALPHABET) for _ in range(r.range(4, 7))), cover))
    return lines
