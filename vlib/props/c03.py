"""C03 -- parsing arbitrary bytes is total, bounds-safe and terminating."""
import importlib.util, os
from .. import core

ID = "C03"
THEOREMS = ["C03_iterator_total_and_shaped", "C03_commands_form_prefix", "C03_at_most_one_error_last", "C03_terminates",
            "C03_fused", "C03_parse_one_bounds", "C03_accessor_reads_in_bounds", "C03_unique_cids",
            "C03_frame_layout_in_bounds", "C03_join_lengths", "C03_command_lengths_match_lorawan",
            "C03_fixed_constructor_view", "C03_mcgroupstatus_constructor_view", "C03_mcgroupstatus_constructor_refuses_short", "C03_constructor_matches_iterator", "C03_channel_mask_constructor"]
SETS = ["dl_mac", "ul_mac", "dl_dut", "ul_dut", "dl_mc", "ul_mc"]


def translator():
    spec = importlib.util.spec_from_file_location("cmdtables", os.path.join(core.VERIF, "tools", "rs2v", "cmdtables.py"))
    m = importlib.util.module_from_spec(spec)
    spec.loader.exec_module(m)
    return m


def gen(rng, tier, meta):
    cases = []
    # exhaustive short strings: lengths 0..2 by sweep (quick), length 3 too (thorough: 16.8 M strings x 6 sets)
    for s in SETS:
        cases.append("mc_parse %s -" % s)
        cases.append("mc_sweep %s - 1" % s)
        cases.append("mc_sweep %s - 2" % s)
        if tier == "thorough":
            for b0 in range(256):
                cases.append("mc_sweep %s %02x 2" % (s, b0))
    # every CID value x every truncation point of every command
    for s in SETS:
        lens = {cid: ln for (_, _, cid, ln) in meta[s]}
        for cid in range(256):
            full = lens.get(cid, 0)
            full = 22 if full is None else full
            for cut in range(0, full + 3):
                cases.append("mc_parse %s %s" % (s, core.hexs(bytes([cid]) + rng.bytes(cut))))
    # valid command streams, mutated, up to 255 bytes
    n = 1500 if tier == "quick" else 30000
    for _ in range(n):
        s = rng.choice(SETS)
        rows = meta[s]
        b = bytearray()
        while len(b) < rng.choice([3, 10, 15, 40, 120, 255]):
            (_, _, cid, ln) = rng.choice(rows)
            if ln is None:
                if s == "ul_mc":
                    mask = rng.below(16)
                    b += bytes([cid, mask | (rng.below(8) << 4)]) + rng.bytes(5 * bin(mask).count("1"))
                else:
                    b += bytes([cid]) + rng.bytes(rng.range(1, 20))
                    if rng.chance(2, 3):
                        break
            else:
                b += bytes([cid]) + rng.bytes(ln)
        b = b[:255]
        k = rng.below(4)
        if k == 1 and b:
            b[rng.below(len(b))] = rng.below(256)
        elif k == 2:
            b = b[:rng.below(len(b) + 1)]
        elif k == 3 and b:
            b.insert(rng.below(len(b)), rng.below(256))
            b = b[:255]
        cases.append("mc_parse %s %s" % (s, core.hexs(bytes(b))))
    # frame parsers on arbitrary strings, with every accessor (exhaustive up to 2 bytes, random / mutated beyond)
    for ln in range(0, 3):
        for v in range(256 ** ln):
            bs = v.to_bytes(ln, "big") if ln else b""
            cases.append("parse_phy %s" % core.hexs(bs))
    key = "000102030405060708090a0b0c0d0e0f"
    for _ in range(1500 if tier == "quick" else 40000):
        ln = rng.choice([3, 11, 12, 13, 16, 17, 18, 22, 23, 24, 32, 33, 34, 64, 255, rng.below(256)])
        bs = bytearray(rng.bytes(ln))
        if ln and rng.chance(3, 4):
            bs[0] = rng.choice([0x00, 0x20, 0x40, 0x60, 0x80, 0xA0, 0xC0, 0xE0]) | rng.choice([0, 0, 0, 1, 0x1C])
        h = core.hexs(bytes(bs))
        cases.append("parse_phy %s" % h)
        cases.append("parse_data parse %s none none 0" % h)
        cases.append("parse_data decrypt %s %s %s %d" % (h, key, key, rng.below(1 << 32)))
        cases.append("parse_jr %s %s" % (h, key))
        cases.append("ja_decrypt plain %s %s 7" % (h, key))
    return cases


def judge(case, impl, model):
    # the property itself: value or error, never a panic / hang / runaway iterator
    bad = impl.startswith(("PANIC", "CRASH", "HANG")) or "RUNAWAY" in impl
    if case.startswith("mc_sweep"):
        try:
            bad = bad or int(impl.split()[1]) > 0
        except Exception:
            bad = True
    if bad:
        return {"kind": "parser / accessor / iterator panicked or did not terminate on this input", "spec_output": "a value or an error"}
    if case.startswith(("mc_parse", "mc_read")):
        # framing shape demanded by the property, checked directly on the implementation's listing
        items = [] if impl.split(" | ")[0] == "-" else impl.split(" | ")[0].split(",")
        data = core.unhex(case.split()[2])
        pos, ok = 0, True
        for k, it in enumerate(items):
            if it.startswith("E:"):
                ok = ok and k == len(items) - 1
            else:
                cid, ph = it.split(":")
                raw = bytes([int(cid)]) + core.unhex(ph)
                ok = ok and data[pos:pos + len(raw)] == raw
                pos += len(raw)
        if not ok:
            return {"kind": "iterator output is not a prefix of whole commands followed by at most one final error", "spec_output": model}
    return None


def expand(case):
    t = case.split()
    if t[0] != "mc_sweep":
        return None
    pre, n = core.unhex(t[2]), int(t[3])
    if n > 2:
        return None
    return ["mc_parse %s %s" % (t[1], core.hexs(pre + x.to_bytes(n, "big"))) for x in range(256 ** n)]


def gen_new(rng, tier):
    """the public payload constructors `XPayload::new(bytes)`: the variable-length McGroupStatusAnsPayload over every status byte x every
    length 0..23, all strings up to 2 bytes, random longer strings; the macro-generated fixed-length template on two payload types"""
    lines = ["pl_new mcstatus -"]
    for b0 in range(256):
        lines.append("pl_new mcstatus %02x" % b0)
        for b1 in (range(256) if tier == "thorough" else (0, 1, 255, rng.below(256))):
            lines.append("pl_new mcstatus %02x%02x" % (b0, b1))
        for ln in range(2, 24):
            lines.append("pl_new mcstatus %02x%s" % (b0, rng.bytes(ln).hex()))
    for ln in range(0, 14):
        for kind in ("chmask2", "chmask9"):
            lines.append("pl_new %s %s" % (kind, rng.bytes(ln).hex() or "-"))
    for ln in range(0, 8):
        for _ in range(4):
            lines.append("pl_new linkadr %s" % (rng.bytes(ln).hex() or "-"))
            lines.append("pl_new devstatus %s" % (rng.bytes(ln).hex() or "-"))
    return lines


def new_judge(case, impl, model):
    """TS005 McGroupStatusAns, on the implementation alone: Status (RFU | NbTotalGroups(3) | AnsGroupMask(4)) followed by one
    (McGroupID, McAddr) item of 5 bytes per bit set in AnsGroupMask.  A constructor either refuses the bytes or returns a view all of
    whose accessors work: the view is the whole command and reports every item."""
    t = case.split()
    if impl in ("PANIC", "CRASH", "HANG"):
        return {"kind": "an accessor of a successfully constructed payload view panicked (or the constructor did)", "constructor": t[1]}
    if t[1] in ("chmask2", "chmask9"):
        d = bytes.fromhex(t[2]) if t[2] != "-" else b""
        n = 2 if t[1] == "chmask2" else 9
        want = "ERR" if len(d) < n else "OK " + d[:n].hex()
        if impl != want:
            return {"kind": "ChannelMask::new: not (refuse fewer than N bytes, else the first N bytes)", "spec_output": want}
    if t[1] == "mcstatus":
        d = bytes.fromhex(t[2]) if t[2] != "-" else b""
        if not d:
            want = "ERR"
        else:
            n = bin(d[0] & 15).count("1")
            if len(d) < 1 + 5 * n:
                want = "ERR"
            else:
                items = ["%d:%d" % (d[1 + 5 * k], int.from_bytes(d[2 + 5 * k:6 + 5 * k], "little")) for k in range(n)]
                want = ("OK %d %d %d %s" % (1 + 5 * n, d[0] & 15, (d[0] >> 4) & 7, " ".join(items))).strip()
        if impl != want:
            return {"kind": "McGroupStatusAnsPayload::new: the view is not the whole command (status byte + 5 bytes per reported group) / short input accepted",
                    "spec_output": want}
    return None


def run(rep, tier, rng):
    tr = translator()
    try:
        text, meta = tr.generate()
        dst = os.path.join(core.COQ, "Gen", "CmdTables.v")
        if not os.path.exists(dst) or open(dst).read() != text:
            open(dst, "w").write(text)
        rep.cov["translator"] = "tools/rs2v/cmdtables.py regenerated Gen/CmdTables.v from /repo (6 tables, %d commands)" % sum(len(v) for v in meta.values())
    except tr.Untranslatable as e:
        rep.violation({"kind": "translator-rejected-source", "tie": "T:Gen.CmdTables", "error": str(e)}, concrete=False)
        meta = None
    core.proof_stage(rep, ID, THEOREMS)
    if not core.build_both(rep) or meta is None:
        core.finish_proof_failures(rep)
        return
    cases = gen(rng, tier, meta)
    core.diff_stage(rep, "X:C03:command-iterators+frame-parsers", cases, judge, expand)
    core.diff_stage(rep, "X:C03:payload-constructors", gen_new(rng, tier), new_judge)
    rep.cov["rule"] = ("all byte strings of length 0..2 (quick) / 0..3 (thorough) through all six iterators by digest sweeps; every CID x "
                       "every truncation point of every command with all accessors called; valid and mutated command streams up to 255 bytes; "
                       "frame parsers with all accessors on exhaustive short and random/mutated strings; the public payload constructors (McGroupStatusAnsPayload::new over "
                       "every status byte x lengths 0..23, the fixed-length template) with every accessor of the returned view; every call under catch_unwind")
    rep.cov["strings_inside_sweeps"] = sum(256 ** int(c.split()[3]) for c in cases if c.startswith("mc_sweep"))
    core.finish_proof_failures(rep)
