"""C05 -- a downlink is accepted iff it is authentic and fresh (replay protection)."""
import re
from .. import ndevhist, core, machist, macstage

ID = "C05"
THEOREMS = ["C05_first_downlink", "C05_counter_rule", "C05_never_backwards", "C05_no_replay",
            "C05_rejects_everything_else", "C05_accept_effects", "C05_nb_downlinks_strictly_increase", "C05_async_downlinks_strictly_increase", "C05_inc_from_example",
            "C05_max_payload_tables_match_rp002"]
KINDS = ["downlink", "acted upon", "oversized frame was accepted"]


def arithmetic_cases(rng, tier):
    cases = ["nfd none %d" % w for w in (0, 1, 0xFFFF, 0x8000)]
    stride = 4001 if tier == "quick" else 211      # thorough: ~6600 values of `last` x all 2^16 wire values (stride 7 took hours)
    bounds = [0, 0x10000, 0x20000, 0x7FFF0000, 0xFFFF0000, 0xFFFFFFFF] + [rng.below(0xFFFF) << 16 for _ in range(4)]
    for b in bounds:
        lo, hi = max(0, b - 70000), min(0xFFFFFFFF, b + 70000)
        for last in range(lo, hi + 1, stride):
            cases.append("nfd_sweep %d" % last)
        for last in (b, max(0, b - 1), min(0xFFFFFFFF, b + 1), max(0, b - 16384), min(0xFFFFFFFF, b + 16384)):
            cases.append("nfd_sweep %d" % last)
    return cases


def counter_walk(rng, region, start_down, classc):
    """accepted counter walks across epoch boundaries, with replays / reorders / far-future / forged frames in between"""
    net = machist.Net(rng, region)
    net.abp()
    if start_down is not None:
        net.op("patch down=%d" % start_down)
        net.down = start_down
    net.snap()
    kept = []
    for _ in range(rng.range(8, 20)):
        net.send(rng.bytes(rng.below(4)), rng.range(1, 200), rng.chance(1, 4))
        k = rng.below(8)
        rxc = classc and rng.chance(1, 3)
        if k <= 2:
            step = rng.choice([1, 1, 2, 100, 16383, 16384, 5000])
            n = (net.down + step) if net.down is not None else rng.choice([0, 0xFFFF, 7])
            if n < (1 << 32):
                f = net.downlink(port=rng.range(1, 200), payload=rng.bytes(rng.below(6)), fcnt=n, rxc=rxc)
                kept.append(f)
                if rxc:
                    net.rx2c()
            else:
                net.rx2c()
        elif k == 3 and kept:
            net.raw_rx(rng.choice(kept), rxc=rxc)      # replay of an accepted frame
            net.rx2c()
        elif k == 4 and net.down is not None:
            n = net.down + rng.choice([16385, 16386, 40000, 65536, 65537])
            if n < (1 << 32):
                net.downlink(port=3, payload=b"f", fcnt=n, accept=False, rxc=rxc)   # too far ahead
            net.rx2c()
        elif k == 5 and net.down is not None and net.down > 3:
            net.downlink(port=3, payload=b"o", fcnt=net.down - rng.choice([1, 2, 3]), accept=False, rxc=rxc)   # reordered old frame
            net.rx2c()
        elif k == 6 and (net.down or 0) + 1 < (1 << 32):
            n = (net.down or 0) + 1
            net.downlink(port=3, payload=b"m", fcnt=n, accept=False, rxc=rxc, mic_fcnt=n + 0x10000)  # MIC for another epoch
            net.downlink(port=3, payload=b"k", fcnt=n, accept=False, rxc=rxc, nwk=rng.bytes(16))    # forged
            net.rx2c()
        else:
            net.rx2c()
        net.snap()
    return net.line()


def size_boundary(rng, region, classc):
    """authentic fresh downlinks whose length straddles the maximum of the data rate they were received at (PHY length M+3 .. M+7)"""
    net = machist.Net(rng, region)
    net.abp()
    net.snap()
    for m in rng.sample([11, 19, 51, 53, 59, 61, 115, 123, 125, 133, 222, 230, 242, 250], 5):
        for delta in (-2, -1, 0, 1, 2):
            total = m + 5 + delta           # MHDR + MACPayload(m + delta) + MIC
            if total > 255 or total < 13:
                continue
            nf = rng.choice([0, 0, 3, 15])
            room = total - 12 - nf - 1      # bytes left for FRMPayload after FHDR(7+nf), FPort, MHDR, MIC
            if room < 0:
                nf, room = 0, total - 13
            net.send(b"u", 1, False)
            rxc = classc and rng.chance(1, 3)
            fits = total <= m + 5
            net.downlink(fopts=bytes([0x06] * nf) if False else b"", port=rng.range(1, 200), payload=rng.bytes(total - 13), confirmed=rng.chance(1, 3),
                         accept=fits, rxc=rxc, maxp=m)
            if rxc or not fits or rng.chance(1, 2):
                net.rx2c()
            net.snap()
    return net.line()


def expired_session_walk(rng, region, classc):
    """the uplink counter space is exhausted (or about to be): downlinks accepted on the way out must still be remembered, their replays refused"""
    net = machist.Net(rng, region)
    net.abp()
    net.op("patch up=%d" % rng.choice([0xFFFFFFFF, 0xFFFFFFFE, 0xFFFFFFFF]))
    net.snap()
    kept = []
    for _ in range(rng.range(3, 6)):
        net.send(rng.bytes(rng.below(3)), rng.range(1, 200), rng.chance(1, 4))
        rxc = classc and rng.chance(1, 3)
        cmds = rng.choice([b"", machist.rx_timing(rng.below(16)), machist.dev_status()])
        f = net.downlink(cmds, rng.choice([None, 7]), b"" if rng.chance(1, 2) else rng.bytes(3), confirmed=rng.chance(1, 3), rxc=rxc)
        kept.append(f)
        net.snap()
        if rng.chance(2, 3):
            net.raw_rx(rng.choice(kept), rxc=classc and rng.chance(1, 2))
            net.snap()
        if rng.chance(1, 2):
            net.rx2c()
    return net.line()


def gen(rng, tier):
    lines = [expired_session_walk(rng.fork("x%d" % i), i % 9, i % 2 == 0) for i in range(27 if tier == "quick" else 450)]
    starts = [None, 0xFFF0, 0xFFFF, 0x10000 - 16384, 0x1FFF0, 0xFFFF0000 - 5, 0xFFFFFFFF - 20000, 0xFFFFFFFF - 3, 0xFFFFFFFF]
    n = 6 if tier == "quick" else 120
    for i in range(n):
        for st in starts:
            lines.append(counter_walk(rng.fork("w%d-%s" % (i, st)), rng.below(9), st, i % 2 == 0))
    for i in range(36 if tier == "quick" else 600):
        lines.append(size_boundary(rng.fork("s%d" % i), i % 9, i % 2 == 0))
    for i in range(60 if tier == "quick" else 1500):
        lines.append(machist.random_history(rng.fork("h%d" % i), i % 9, 25, classc=(i % 2 == 0)))
    return lines


# RP002 maximum MACPayload size M per (SF, bandwidth index) -- no repeater, no dwell-time limit -- written from the specification
_EU = {(12, 7): 59, (11, 7): 59, (10, 7): 59, (9, 7): 123, (8, 7): 250, (7, 7): 250, (7, 8): 250}
_AS = {(12, 7): 59, (11, 7): 59, (10, 7): 123, (9, 7): 123, (8, 7): 250, (7, 7): 250, (7, 8): 250}
_W5 = {(12, 9): 61, (11, 9): 137, (10, 9): 250, (9, 9): 250, (8, 9): 250, (7, 9): 250}
RP_M = {0: _AS, 1: _AS, 2: _AS, 3: _AS, 5: _EU, 6: _EU, 7: _EU,
        4: {**_W5, (12, 7): 59, (11, 7): 59, (10, 7): 59, (9, 7): 123, (8, 7): 250, (7, 7): 250},
        8: {**_W5, (10, 7): 19, (9, 7): 61, (8, 7): 133, (7, 7): 250}}
RXREQ = re.compile(r"rx_request\[(\d+)/(\d+)/(\d+)/(\d+)\]")


def front_judge(case, impl, model=None):
    """reported downlink counters strictly increase until a join starts a new session; the size limit a receive window applies is the
    RP002 maximum of its data rate"""
    region = int(re.search(r"r=(\d+)", case).group(1))
    for f, sf, bw, mx in RXREQ.findall(impl):
        want = RP_M[region].get((int(sf), int(bw)))
        if want is not None and int(mx) != want:
            return {"kind": "a receive window applies a maximum frame size other than RP002's for its data rate (frames beyond the regional maximum "
                            "would be acted on / legal ones dropped)", "region": region, "sf_bw": [int(sf), int(bw)], "applied": int(mx), "rp002": want}
    last = None
    ops = [p.strip() for p in case.split("|")][1:]
    for op, out in zip(ops, impl.split(" ; ")):
        if op.startswith("join") or "JoinSuccess" in out:
            last = None
        m = re.match(r"DownlinkReceived\((\d+)\)", out)
        if m:
            n = int(m.group(1))
            if last is not None and n <= last:
                return {"kind": "downlink counters reported by the front-end are not strictly increasing (a frame acted on twice / counter moved backwards)",
                        "previous": last, "reported": n}
            last = n
    return None


def judge_arith(case, impl, model):
    if case.startswith("nfd"):
        return {"kind": "next_fcnt_down differs from the freshness rule n = wire (mod 2^16), last < n <= last + 16384", "spec_output": model}
    return None


def run(rep, tier, rng):
    core.proof_stage(rep, ID, THEOREMS)
    if not core.build_both(rep):
        core.finish_proof_failures(rep)
        return
    ar = arithmetic_cases(rng, tier)
    core.diff_stage(rep, "X:C05:next_fcnt_down(hook)", ar, judge_arith,
                    expand=lambda c: ["nfd %s %d" % (c.split()[1], w) for w in range(65536)] if c.startswith("nfd_sweep") else None)
    rep.cov["counter_pairs_inside_sweeps"] = 65536 * sum(1 for c in ar if c.startswith("nfd_sweep"))
    lines = gen(rng, tier)
    core.diff_stage(rep, "X:C05:mac-histories", lines, macstage.make_judge(KINDS))
    macstage.oracle_pass(rep, lines, KINDS)
    # the nb_device front-end (C05_nb_downlinks_strictly_increase speaks of the code through this correspondence): histories with valid,
    # replayed, foreign, oversized and junk frames in the windows; the reported downlink counters must be strictly increasing per session
    fe = ndevhist.histories(rng.fork("ndev"), tier)
    # every (region, uplink data rate): the RX1 / RX2 windows the front-end requests, with the size limit they apply
    for region in range(9):
        for dr in machist.UPLINK_DR[region]:
            fe.append("ndev r=%d fault=- bias=- session=%s:%s:7:0 | dr %d | send 01 1 0 %s txdone | timeout | timeout | timeout | timeout" % (
                region, "02" * 16, "01" * 16, dr, machist.draws(rng, 40)))
    core.diff_stage(rep, "X:C05:nb-front-end", fe, front_judge)
    bad = 0
    for c, o in zip(*rep.last_run):
        v = front_judge(c, o)
        if v:
            bad += 1
            if bad <= 3:
                v.update({"case": c, "impl_output": o[:2000]})
                rep.violation(v, concrete=True)
    rep.cov["rule"] = ("counter arithmetic: all 2^16 wire values for `last` on a stride through +-70000 of 0, 2^16, k*2^16, 2^31.., 2^32-1 (digest sweeps); "
                       "device histories: accepted counters walking across 0xFFFF/0x10000 and up to 2^32-1 (sessions patched through serde), "
                       "authentic frames of PHY length M+3..M+7 for 14 data-rate maxima M in Class A and C windows; replays, reordered, far-future (gap 16385+), wrong-epoch MIC, forged frames, Class A and Class C receive paths; "
                       "every response also judged by an independent python reference (CMAC + freshness rule)")
    core.finish_proof_failures(rep)
