"""C11 -- an OTAA join establishes exactly the session the JoinAccept defines."""
import re
from .. import adevhist, ndevhist, core, machist, macstage, lw

ID = "C11"
THEOREMS = ["C11_join_request", "C11_only_authentic_accept_joins", "C11_no_join_accept", "C11_class_c_before_join",
            "C11_authentic_accept_joins", "C11_session_of_network_accept", "C11_cflist", "C11_region_wf_initial", "C11_region_wf_preserved",
            "C11_async_join_needs_authentic_accept", "C11_nb_join_needs_authentic_accept", "C11_join_premises_met"]
KINDS = ["JoinRequest", "JoinAccept", "joined", "uplink MIC", "device address", "counter"]
# regional facts written from RP002, independent of the implementation's tables
BAND = {0: (915000000, 928000000), 1: (915000000, 928000000), 2: (915000000, 928000000), 3: (917000000, 920000000),
        4: (915000000, 928000000), 5: (863000000, 870000000), 6: (433050000, 434790000), 7: (865000000, 867000000), 8: (902000000, 928000000)}
MAXOFF = {0: 7, 1: 7, 2: 7, 3: 7, 4: 5, 5: 5, 6: 5, 7: 7, 8: 3}
NJOIN = {0: 2, 1: 2, 2: 2, 3: 2, 5: 3, 6: 3, 7: 3}
SNAP = re.compile(r"dr=(\d+) rx1_delay=(\d+) pw=(-?\d+) rx1off=(\d+) rx2dr=(-?\d+) rx2f=(-?\d+)")


def cflist0(freqs):
    return b"".join((f // 100).to_bytes(3, "little") for f in freqs) + b"\x00"


def cflist_variants(rng, region):
    lo, hi = BAND[region]
    ok = machist.FREQ_OK[region]
    out = [b"", cflist0([ok, ok + 200000, 0, ok + 400000, 0]), cflist0([0] * 5),
           cflist0([lo - 100, hi + 100, 100, 1677721500, ok]), cflist0([lo, hi, lo + 100, hi - 100, (lo + hi) // 200 * 100]),
           cflist0([rng.below(1 << 24) * 100 for _ in range(5)]),
           bytes([rng.below(256) for _ in range(9)]) + bytes(6) + b"\x01", bytes(9) + bytes(6) + b"\x01",
           bytes([0, 0, 0, 0, 0, 0, 0, 0, rng.below(256)]) + bytes(6) + b"\x01", bytes([0xFF] * 9) + bytes([rng.below(256) for _ in range(6)]) + b"\x01",
           bytes([rng.below(256) for _ in range(15)]) + bytes([rng.choice([2, 3, 17, 128, 255])])]
    return out


def bad_accepts(rng, net, ja):
    """frames that are not authentic JoinAccepts for this device"""
    out = []
    k = rng.below(len(ja) * 8)
    m = bytearray(ja)
    m[k // 8] ^= 1 << (k % 8)
    out.append(bytes(m))
    out.append(lw.join_accept(rng.bytes(16), 1, 2, 3, 0, 1, b""))
    out.append(ja[:16])
    out.append(ja + b"\x00")
    out.append(bytes([0x60]) + ja[1:])
    out.append(bytes([0x21]) + ja[1:])
    out.append(rng.bytes(rng.choice([0, 1, 12, 17, 33, 40])))
    return out


def join_case(rng, region, dls, rxd, cfl, prelude, classc_probe=False):
    net = machist.Net(rng, region, bias=rng.choice(["-", "-", "2:1", "8:3"]) if region in machist.FIXED else "-")
    if prelude == "rejoin":
        net.otaa_request(ndraws=40)
        net.join_accept(dl_settings=rng.below(256), rx_delay=rng.below(16), cflist=rng.choice(cflist_variants(rng, region)))
        net.snap()
        net.send(b"a", 1, False, ndraws=80)
        net.rx2c()
    elif prelude == "abp":
        net.abp()
        net.send(b"a", 1, False, ndraws=80)
        net.rx2c()
    else:
        for _ in range(prelude):
            net.otaa_request(ndraws=40)
            if rng.chance(1, 2):
                net.raw_rx(rng.choice(bad_accepts(rng, net, lw.join_accept(net.appkey, 1, 2, 3, 0, 1, b""))))
            net.rx2c()
            net.op("send 00 1 0 %s" % machist.draws(rng, 40))
    net.otaa_request(ndraws=40)
    net.snap()
    if classc_probe:
        net.raw_rx(lw.join_accept(net.appkey, 1, 2, 3, 0, 1, b""), rxc=True)
    probe = lw.join_accept(net.appkey, 5, 6, 7, dls, rxd, cfl)
    for b in bad_accepts(rng, net, probe)[: rng.range(0, 3)]:
        net.raw_rx(b)
        net.snap()
    net.join_accept(dl_settings=dls, rx_delay=rxd, cflist=cfl)
    net.snap()
    net.send(b"hello", 7, rng.chance(1, 2), ndraws=120)
    net.downlink(b"", 3, b"ok")
    net.send(b"x", 1, False, ndraws=120)
    net.rx2c()
    net.snap()
    return net.line()


def gen(rng, tier):
    lines = []
    for region in range(9):
        r = rng.fork("j%d" % region)
        cfls = cflist_variants(r, region)
        for dls in range(256):
            lines.append(join_case(r, region, dls, dls % 16, cfls[dls % len(cfls)], r.choice([0, 0, 1, 2, "rejoin", "abp"])))
        for rxd in range(16):
            for cfl in cfls:
                lines.append(join_case(r, region, r.choice([0, 0x10, 0x52, r.below(256)]), rxd, cfl, r.choice([0, 1, 3, "rejoin"]), classc_probe=r.chance(1, 3)))
        for k in range(30 if tier == "quick" else 800):
            lines.append(join_case(r, region, r.below(256), r.below(16), r.choice(cflist_variants(r, region)), r.choice([0, 1, 2, 5, "rejoin", "abp"]), classc_probe=r.chance(1, 3)))
    return lines


def oracle(case, impl, model=None):
    """what the JoinAccept defines, judged on the state snapshots and on the not-joined behaviour"""
    parts = [p.strip() for p in case.split("|")]
    outs = impl.split(" ; ")
    region = int(re.search(r"r=(\d+)", parts[0]).group(1))
    pending = None
    prev = None        # previous snapshot text
    chans = None
    joined = False
    for i, op in enumerate(parts[1:]):
        if i >= len(outs) or outs[i] in ("PANIC", "HANG"):
            return None
        a, o = op.split(), outs[i]
        if a[0] == "otaa":
            pending = (bytes.fromhex(a[3]), int(a[4].split(",")[0]) & 0xFFFF)
            joined = False
        elif a[0] == "abp":
            joined, pending = True, None
        elif a[0] == "snap":
            prev = o
        elif a[0] == "send" and not joined:
            if o.startswith("TX"):
                return {"kind": "data uplink transmitted while not joined", "at_op": i}
        elif a[0] == "rx2c" and pending is not None and not joined:
            if not o.startswith("NoJoinAccept"):
                return {"kind": "a join attempt without JoinAccept did not end in NoJoinAccept", "response": o[:60]}
        elif a[0] in ("rx", "rxc") and pending is not None and not joined:
            frame = core.unhex(a[1])
            appkey, nonce = pending
            good = False
            if a[0] == "rx" and len(frame) in (17, 33) and frame[0] == 0x20:
                clear = frame[:1] + b"".join(lw.aes_enc(appkey, frame[1 + k:17 + k]) for k in range(0, len(frame) - 1, 16))
                good = lw.cmac(appkey, clear[:-4])[:4] == clear[-4:]
            if not good:
                if o.startswith("JoinSuccess"):
                    return {"kind": "device joined on a frame that is not an authentic JoinAccept", "frame": frame.hex()}
                # and the state must be untouched: next snapshot equals the previous one
                if i + 1 < len(outs) and parts[2 + i].startswith("snap") and prev is not None and outs[i + 1] != prev:
                    return {"kind": "a rejected JoinAccept changed the device state", "before": prev[:300], "after": outs[i + 1][:300]}
                continue
            if not o.startswith("JoinSuccess"):
                return {"kind": "authentic JoinAccept did not join the device", "response": o[:80]}
            joined = True
            if not (i + 1 < len(outs) and parts[2 + i].startswith("snap")) or prev is None:
                continue
            snap = outs[i + 1]
            before, after = SNAP.search(prev), SNAP.search(snap)
            if not before or not after:
                continue
            b = [int(x) for x in before.groups()]
            n = [int(x) for x in after.groups()]
            jn, nid = int.from_bytes(clear[1:4], "little"), int.from_bytes(clear[4:7], "little")
            addr, dls, rxd = int.from_bytes(clear[7:11], "little"), clear[11], clear[12] & 15
            nwk, app = lw.session_keys(appkey, jn, nid, nonce)
            want = "joined addr=%d up=0 down=-1 adrcnt=0 conf=0 owed=0 pending=[] nwk=[%s] app=[%s]" % (
                addr, ", ".join("%02x" % x for x in nwk), ", ".join("%02x" % x for x in app))
            if want not in snap:
                return {"kind": "session after join differs from the one the JoinAccept defines (keys per LoRaWAN 1.0.x derivation, address, counters restarted, nothing pending)",
                        "expected": want, "snapshot": snap[:600]}
            exp_delay = rxd * 1000 if 2 <= rxd <= 15 else 1000
            if n[1] != exp_delay:
                return {"kind": "RxDelay of the JoinAccept not applied", "rx_delay_field": rxd, "rx1_delay_ms": n[1]}
            off = (dls >> 4) & 7
            exp_off = off if off <= MAXOFF[region] else b[3]
            if n[3] != exp_off:
                return {"kind": "RX1 data-rate offset: must be applied iff valid for the region, else ignored", "dl_settings": dls, "rx1off": n[3], "expected": exp_off}
            rx2 = dls & 15
            exp_rx2 = rx2 if rx2 in machist.DEFINED[region] else b[4]
            if n[4] != exp_rx2:
                return {"kind": "RX2 data rate: must be applied iff defined in the region, else ignored", "dl_settings": dls, "rx2dr": n[4], "expected": exp_rx2}
            if n[0] != b[0] or n[2] != b[2] or n[5] != b[5]:
                return {"kind": "join changed data rate / power / RX2 frequency, which a JoinAccept does not carry", "before": b, "after": n}
            # channel list
            cfl = clear[13:29] if len(clear) == 33 else None
            pb, pa = prev.split(" | ")[-1], snap.split(" | ")[-1]
            if region in machist.FIXED:
                mb = re.search(r"fix mask=\[([^\]]*)\]", pb).group(1)
                ma = re.search(r"fix mask=\[([^\]]*)\]", pa).group(1)
                exp = ", ".join("%02x" % x for x in cfl[:9]) if cfl is not None and cfl[15] == 1 else ", ".join(["ff"] * 9)
                if ma != exp:
                    return {"kind": "fixed-plan channel mask after join: CFList type 1 must replace it, otherwise the new session starts from the default mask", "mask": ma, "expected": exp}
            else:
                cb = re.search(r"dyn ch=(\S+) mask=(.*)$", pb)
                ca = re.search(r"dyn ch=(\S+) mask=(.*)$", pa)
                chb, cha = cb.group(1).split(","), ca.group(1).split(",")
                exp = list(chb)
                if cfl is not None and cfl[15] == 0:
                    for k in range(5):
                        f = int.from_bytes(cfl[3 * k:3 * k + 3], "little") * 100
                        idx = NJOIN[region] + k
                        if f == 0:
                            exp[idx] = "-"
                        elif BAND[region][0] <= f <= BAND[region][1]:
                            exp[idx] = "%d/80/-1" % f
                if cha != exp or ca.group(2) != cb.group(2):
                    return {"kind": "dynamic-plan channels after join: CFList type 0 defines channels J..J+4 (0 removes, out-of-band ignored), nothing else changes",
                            "channels": cha, "expected": exp}
    return None


def run(rep, tier, rng):
    core.proof_stage(rep, ID, THEOREMS)
    if not core.build_both(rep):
        core.finish_proof_failures(rep)
        return
    lines = gen(rng, tier)
    core.diff_stage(rep, "X:C11:mac-histories(join)", lines, macstage.make_judge(KINDS, extra=oracle))
    macstage.oracle_pass(rep, lines, KINDS, extra=oracle)
    # RX1 / RX2 / no arrival through both front-ends
    fl = frontends(rng, tier)
    # the front-end theorems (C11_async_/C11_nb_join_needs_authentic_accept) speak of the code through this correspondence
    core.diff_stage(rep, "X:C11:front-ends", fl + [l for l in adevhist.histories(rng.fork("adev"), tier) + ndevhist.histories(rng.fork("ndev"), tier) if "| join" in l],
                    lambda c, i, m: frontend_oracle(c, i) if c in set(fl) else None)
    io = core.run_lines(core.harness_bin(), fl)
    bad = 0
    for c, o in zip(fl, io):
        v = frontend_oracle(c, o)
        if v:
            bad += 1
            if bad <= 3:
                v.update({"case": c, "impl_output": o[:2000]})
                rep.violation(v, concrete=True)
    rep.cov["frontend_join_cases"] = len(fl)
    rep.cov["rule"] = ("9 regions x all 256 DLSettings bytes x RxDelay 0..15 x CFList {none, type 0 valid/zero/out-of-band/band edges/random, type 1 random/empty/500k-only, RFU types}; "
                       "after 0..5 failed attempts (with non-authentic frames: bit flips, wrong key, wrong size, wrong MHDR, Class C reception), re-join from OTAA and ABP sessions; "
                       "keys/address/counters/settings/channel plan judged by an independent python derivation; RX1, RX2 and no arrival through async_device and nb_device")
    core.finish_proof_failures(rep)


def frontends(rng, tier):
    lines = []
    key = bytes(range(16))
    for region in (5, 8, 0, 4):
        for k in range(6 if tier == "quick" else 40):
            ja = lw.join_accept(key, rng.below(1 << 24), rng.below(1 << 24), rng.below(1 << 32), rng.below(256), rng.below(16), b"")
            badja = lw.join_accept(rng.bytes(16), 1, 2, 3, 0, 1, b"")
            d = machist.draws(rng, 40)
            for script, tag in (("X" + ja.hex(), "rx1"), ("T,X" + ja.hex(), "rx2"), ("T,T", "none"), ("X%s,X%s" % (badja.hex(), ja.hex()), "bad-then-good"), ("X%s,T" % badja.hex(), "bad")):
                lines.append("adev r=%d lead=15 classc=0 fault=- | join 1 2 %s %s %s | send 01 1 0 %s T,T" % (region, key.hex(), d, script, machist.draws(rng, 60)))
            for script, tag in (("txdone | timeout | phy rx" + ja.hex(), "rx1"), ("txdone | timeout | timeout | timeout | phy rx" + ja.hex(), "rx2"),
                                ("txdone | timeout | timeout | timeout | timeout", "none"), ("txdone | timeout | phy rx%s | timeout | timeout | phy rx%s" % (badja.hex(), ja.hex()), "bad-then-good")):
                lines.append("ndev r=%d fault=- | join 1 2 %s %s %s | send 01 1 0 %s txdone" % (region, key.hex(), d, script, machist.draws(rng, 60)))
    return lines


def frontend_oracle(case, impl):
    if "PANIC" in impl or "HANG" in impl:
        return {"kind": "front-end panicked / hung during a join"}
    authentic = False
    key = bytes(range(16))
    for fx in re.findall(r"(?:X|phy rx)([0-9a-f]+)", case.split("| send")[0]):
        f = bytes.fromhex(fx)
        clear = f[:1] + b"".join(lw.aes_enc(key, f[1 + k:17 + k]) for k in range(0, len(f) - 1, 16))
        if lw.cmac(key, clear[:-4])[:4] == clear[-4:]:
            authentic = True
    said_joined = "JoinSuccess" in impl
    if authentic != said_joined:
        return {"kind": "front-end: joined iff an authentic JoinAccept arrived in RX1 or RX2", "authentic_frame_delivered": authentic, "reported_joined": said_joined}
    if not authentic and "NoJoinAccept" not in impl:
        return {"kind": "front-end: a join attempt without JoinAccept must end in NoJoinAccept"}
    return None
