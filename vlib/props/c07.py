"""C07 -- frames that are not accepted change nothing (2-safety / non-interference)."""
import re
from .. import adevhist, ndevhist, core, machist, macstage, lw

ID = "C07"
THEOREMS = ["C07_rejected_frame_keeps_the_downlink_queue", "C07_reject_is_identity", "C07_oversized_only_ends_the_window", "C07_invalid_join_accept_is_identity",
            "C07_async_window_rejected_frame_is_timeout", "C07_async_rxc_rejected_frame_is_skipped", "C07_nb_rejected_frame_keeps_the_window_open", "C07_rejection_premise_met"]


def rejected_frame(rng, net, kept, with_port=False):
    """a frame the reference codec rejects by construction (with_port: prefer the kinds that parse as data frames carrying an FPort)"""
    k = rng.below(7) if not with_port else rng.choice([1, 2, 4, 1, 2])
    if k == 0:
        b = bytearray(rng.bytes(rng.range(0, 40)))
        if len(b) >= 12 and rng.chance(1, 2):
            b[0] |= 1                       # unsupported major version
        elif len(b) >= 12:
            b = b[:rng.below(12)]           # too short to be a data frame
        return bytes(b)
    if k == 1 and kept:                     # replay of an already accepted frame
        return rng.choice(kept)
    if k == 2 and net.joined:               # authentic frame of another session (other key)
        return lw.data_frame(3, net.addr, 0, (net.down or 0) + 1, b"", 9, b"other", rng.bytes(16), rng.bytes(16))
    if k == 3 and net.joined:               # bit flip in the MIC of an authentic frame
        f = bytearray(lw.data_frame(rng.choice([3, 5]), net.addr, 0, (net.down or 0) + 1, machist.rx_timing(5), None, b"", net.nwk, net.app))
        f[-1 - rng.below(4)] ^= 1 << rng.below(8)
        return bytes(f)
    if k == 4 and net.joined and net.down is not None and net.down + 20000 < (1 << 32):   # too far ahead
        return lw.data_frame(3, net.addr, 0, net.down + 16385 + rng.below(100), b"", 9, b"far", net.nwk, net.app)
    if k == 5:                              # JoinAccept under a wrong key
        return lw.join_accept(rng.bytes(16), rng.below(1 << 24), rng.below(1 << 24), rng.below(1 << 32), 0, 1)
    if net.joined:                          # MAC commands with a forged MIC
        f = bytearray(lw.data_frame(3, net.addr, 0, (net.down or 0) + 1, machist.link_adr(3, 2, 7, 0), None, b"", net.nwk, net.app))
        f[9] ^= 0x10
        return bytes(f)
    return rng.bytes(5)


def twin_pair(rng, region, length, classc, keep=False):
    """(base history, same history with rejected frames inserted at receive opportunities, positions of the base ops in the twin)"""
    net = machist.Net(rng, region)
    if rng.chance(1, 2):
        net.otaa_request()
        net.join_accept(dl_settings=rng.choice([0, 0x12]), rx_delay=rng.choice([1, 3]))
    else:
        net.abp()
        if rng.chance(1, 5):
            # the last uplink counters of a session: a rejected frame must not end the session either
            net.op("patch up=%d" % rng.choice([0xFFFFFFFF, 0xFFFFFFFE, 0xFFFFFFFD]))
    base, twin, pos, kept = [], [], [], []

    def both(op):
        base.append(op)
        pos.append(len(twin))
        twin.append(op)

    def mark():
        n = len(net.ops)
        return n

    start = 0
    for op in net.ops:
        both(op)
    net.ops = []
    for _ in range(length):
        # something to lose: sticky answers / owed ACK / ADR count are created by accepted downlinks
        net.send(rng.bytes(rng.below(5)), rng.choice([1, 2, 0]) if rng.chance(1, 4) else rng.range(1, 200), rng.chance(1, 3))
        for op in net.ops:
            both(op)
        net.ops = []
        # receive opportunities of this uplink: inserted rejected frames (twin only)
        for _ in range(rng.below(3) if not keep else 2):
            twin.append("rx %s %d 250" % (core.hexs(rejected_frame(rng, net, kept, with_port=keep)), rng.range(0, 20) - 10))
        if keep and len(kept) >= 8:
            # the queue is full: a replay of a delivered application downlink (a data frame with an FPort, rejected as not fresh)
            twin.append("rx %s 0 250" % core.hexs(kept[rng.below(len(kept))]))
        k = rng.below(4) if not keep else 0
        if k <= 1:
            cmds = b""
            if rng.chance(2, 3):
                cmds = rng.choice([machist.rx_timing(rng.below(16)), machist.rx_param_setup(rng.below(4), rng.below(6), machist.FREQ_OK[region]),
                                   machist.dl_channel(rng.below(3), machist.FREQ_OK[region]), machist.dev_status(),
                                   machist.link_adr(rng.below(6), rng.below(5), 7, 0)])
            if keep:
                # the application does not collect its downlinks: application payloads pile up in the queue (depth 8 in the MAC harness)
                f = net.downlink(cmds, rng.range(1, 200), rng.bytes(rng.range(1, 6)), confirmed=rng.chance(1, 2))
                net.ops[-1] = "rxk" + net.ops[-1][2:]
            else:
                f = net.downlink(cmds, rng.choice([None, 5]), b"" if rng.chance(1, 2) else b"pp", confirmed=rng.chance(1, 2))
            kept.append(f)
        else:
            net.rx2c()
        for op in net.ops:
            both(op)
        net.ops = []
        if classc and rng.chance(1, 3):
            twin.append("rxc %s 0 250" % core.hexs(rejected_frame(rng, net, kept)))
        both("snap")
    if keep:
        # two more replays heard after the last accepted downlink, just before the application collects its queue
        for _ in range(2):
            twin.append("rx %s 0 250" % core.hexs(kept[rng.below(len(kept))]))
        both("drain")
    return net.head + " | " + " | ".join(base), net.head + " | " + " | ".join(twin), pos


def frontend_twins(rng, tier):
    """front-end twins: (base line, twin line) -- the twin hears a frame rejected by construction where the base hears nothing
    (async: script event T; nb_device: the radio answers `rxing`); every output must be identical"""
    out = []
    nwk, app, addr = adevhist.NWK, adevhist.APP, adevhist.ADDR
    for i in range(120 if tier == "quick" else 1500):
        r = rng.fork("fe%d" % i)
        region = r.choice([5, 8, 0, 4, 6, 7, 1])
        down = [0]

        def rejected():
            k = r.below(4)
            if k == 0:
                return r.bytes(r.range(1, 40))
            if k == 1:      # another session
                return lw.data_frame(3, addr, 0, down[0] + 1, b"", 7, b"zz", r.bytes(16), app)
            if k == 2:      # MIC bit flip of a fresh authentic frame carrying MAC commands
                f = bytearray(lw.data_frame(3, addr, 2, down[0] + 1, bytes([0x08, 3]), None, b"", nwk, app))
                f[-1 - r.below(4)] ^= 1 << r.below(8)
                return bytes(f)
            # (a frame bearing another DevAddr but authentic under THIS session's NwkSKey is not in this list: C05 defines acceptance by
            #  size + MIC + freshness, the MIC covers the frame's own address, and code, model and reference all accept such a frame)
            # replay of the last accepted frame (only once something has been accepted; otherwise junk)
            return down[1] if len(down) > 1 else bytes([0xE0]) + r.bytes(11)
        sess = "session=%s:%s:%d:%d" % (nwk.hex(), app.hex(), addr, r.choice([0, 3, 0xFFFE]))
        if i % 2 == 0:
            base, twin = [], []
            for _ in range(r.range(2, 5)):
                evb, evt = [], []
                for _w in range(2):
                    k = r.below(4)
                    if k == 0:
                        evb.append("T"); evt.append("T")
                    elif k == 1:
                        down[0] += 1
                        # sticky answer / owed ACK to lose: RXTimingSetupReq in a confirmed downlink
                        g = lw.data_frame(r.choice([3, 5]), addr, 2, down[0], bytes([0x08, r.below(16)]), None, b"", nwk, app)
                        down[1:] = [g]
                        evb.append("X" + g.hex()); evt.append("X" + g.hex())
                        break
                    else:
                        evb.append("T"); evt.append("X" + rejected().hex())
                op = "send %s %d %d %s " % (r.hex(r.below(5)), r.range(1, 223), r.below(2), machist.draws(r, 40))
                base.append(op + ",".join(evb)); twin.append(op + ",".join(evt))
            head = "adev r=%d lead=%d classc=0 fault=- bias=- %s | " % (region, r.choice([0, 15, 100]), sess)
            out.append((head + " | ".join(base + ["fcnt"]), head + " | ".join(twin + ["fcnt"])))
        else:
            base, twin = [], []
            for _ in range(r.range(2, 5)):
                op = "send %s %d %d %s txdone" % (r.hex(r.below(5)), r.range(1, 223), r.below(2), machist.draws(r, 40))
                base += [op, "timeout"]; twin += [op, "timeout"]
                k = r.below(4)
                if k == 0:      # a rejected frame in RX1, then a good one
                    down[0] += 1
                    g = lw.data_frame(r.choice([3, 5]), addr, 2, down[0], bytes([0x08, r.below(16)]), None, b"", nwk, app)
                    base += ["phy rxing", "phy rx" + g.hex()]
                    twin += ["phy rx" + rejected().hex(), "phy rx" + g.hex()]
                    down[1:] = [g]
                elif k == 1:    # rejected frames in RX1 and RX2
                    base += ["phy rxing", "timeout", "timeout", "phy rxing", "timeout"]
                    twin += ["phy rx" + rejected().hex(), "timeout", "timeout", "phy rx" + rejected().hex(), "timeout"]
                else:
                    base += ["timeout", "timeout", "phy rxing", "phy rxing", "timeout"]
                    twin += ["timeout", "timeout", "phy rx" + rejected().hex(), "phy rx" + rejected().hex(), "timeout"]
            head = "ndev r=%d fault=- bias=- %s | " % (region, sess)
            out.append((head + " | ".join(base), head + " | ".join(twin)))
    return out


def frontend_twins_classc(rng, tier):
    """Class C twins through the asynchronous front-end: while the device listens on the RXC parameters between the Class A windows the
    twin hears frames rejected by construction where the base hears nothing; a rejected frame must not end the wait for the window, move
    a window or change any later response (the only difference allowed is the extra listening call itself)"""
    out = []
    nwk, app, addr = adevhist.NWK, adevhist.APP, adevhist.ADDR
    for i in range(60 if tier == "quick" else 800):
        r = rng.fork("fc%d" % i)
        region = r.choice([5, 8, 0, 4, 6, 7, 3])
        down = [0]

        def rejected():
            k = r.below(4)
            if k == 0:
                return r.bytes(r.range(1, 40))
            if k == 1:
                return lw.data_frame(3, addr, 0, down[0] + 1, b"", 7, b"zz", r.bytes(16), app)
            if k == 2:
                f = bytearray(lw.data_frame(3, addr, 2, down[0] + 1, bytes([0x08, 3]), None, b"", nwk, app))
                f[-1 - r.below(4)] ^= 1 << r.below(8)
                return bytes(f)
            return down[1] if len(down) > 1 else bytes([0xE0]) + r.bytes(11)
        sess = "session=%s:%s:%d:%d" % (nwk.hex(), app.hex(), addr, r.choice([0, 3, 0xFFFE]))
        base, twin = [], []
        for _ in range(r.range(2, 5)):
            evb, evt = [], []
            for _w in range(2):
                # listening until the window: nothing (base) / some rejected frames, then nothing (twin)
                evb.append("P")
                evt += ["X" + rejected().hex() for _ in range(r.below(3))] + ["P"]
                if r.below(3) == 0:
                    down[0] += 1
                    g = lw.data_frame(r.choice([3, 5]), addr, 2, down[0], bytes([0x08, r.below(16)]), None, b"", nwk, app)
                    down[1:] = [g]
                    evb.append("X" + g.hex()); evt.append("X" + g.hex())
                    break
                evb.append("T"); evt.append("T")
            op = "send %s %d %d %s " % (r.hex(r.below(5)), r.range(1, 223), r.below(2), machist.draws(r, 40))
            base.append(op + ",".join(evb)); twin.append(op + ",".join(evt))
        head = "adev r=%d lead=%d classc=1 fault=- bias=- %s | " % (region, r.choice([0, 15, 100]), sess)
        out.append((head + " | ".join(base + ["fcnt"]), head + " | ".join(twin + ["fcnt"])))
    return out


def drop_listening(output):
    """an output line without the Class C listening calls (rx_continuous..., setup_rx[... cont])"""
    return re.sub(r"  +", " ", re.sub(r"rx_continuous\S*|setup_rx\[[^\]]* cont\]", "", output))


def run(rep, tier, rng):
    core.proof_stage(rep, ID, THEOREMS)
    if not core.build_both(rep):
        core.finish_proof_failures(rep)
        return
    pairs = [twin_pair(rng.fork("t%d" % i), i % 9, rng.range(4, 12), i % 2 == 0) for i in range(150 if tier == "quick" else 4000)]
    # ... and histories in which the application leaves its downlinks uncollected (the queue fills up), drained at the end
    pairs += [twin_pair(rng.fork("k%d" % i), i % 9, rng.range(10, 14), i % 2 == 0, keep=True) for i in range(63 if tier == "quick" else 600)]
    lines = [p[0] for p in pairs] + [p[1] for p in pairs]
    core.diff_stage(rep, "X:C07:mac-histories(twins)", lines, macstage.make_judge(["acted upon", "did not join", "not an authentic"]))
    # the 2-safety property itself, on the implementation alone: the twin's outputs at the base ops equal the base run's outputs
    io = core.run_lines(core.harness_bin(), lines)
    n = len(pairs)
    bad = inserted = 0
    for i, (b, t, pos) in enumerate(pairs):
        ob, ot = io[i].split(" ; "), io[n + i].split(" ; ")
        tops = [x.strip() for x in t.split("|")][1:]
        inserted += len(tops) - len(pos)
        for k, p in enumerate(pos):
            x = ob[k] if k < len(ob) else "<missing>"
            y = ot[p] if p < len(ot) else "<missing>"
            if x != y:
                bad += 1
                if bad <= 3:
                    rep.violation({"kind": "a rejected frame changed later behaviour: twin runs differing only by rejected frames diverge",
                                   "base_history": b, "case": t, "at_base_op": k, "base_output": x[:500], "twin_output": y[:500],
                                   "inserted_before": [o[:120] for o in tops[max(0, p - 3):p] if o.startswith(("rx ", "rxc "))]}, concrete=True)
                break
        # every inserted frame must be reported as NoUpdate (window stays open)
        for p2, o in enumerate(tops):
            if p2 not in pos and p2 < len(ot) and not ot[p2].startswith("NoUpdate") and "Err(NotJoined)" not in ot[p2]:
                bad += 1
                if bad <= 3:
                    rep.violation({"kind": "a frame the reference rejects was not reported as 'no update'", "case": t, "op": o[:200], "output": ot[p2][:200]}, concrete=True)
                break
    # the front-ends: both are modelled (the C07_async_* / C07_nb_* theorems speak of the code through this correspondence) ...
    fe = adevhist.histories(rng.fork("adev"), tier, 300 if tier == "quick" else 3000) + ndevhist.histories(rng.fork("ndev"), tier, 300 if tier == "quick" else 3000)
    ft = frontend_twins(rng.fork("fetwins"), tier)
    core.diff_stage(rep, "X:C07:front-ends", fe + [b for b, _ in ft] + [t for _, t in ft], lambda c, i, m: None)
    # ... and twin runs through the real front-ends: a rejected frame in a window = nothing heard in that window
    io2 = core.run_lines(core.harness_bin(), [b for b, _ in ft] + [t for _, t in ft])
    for i, (b, t) in enumerate(ft):
        x, y = io2[i], io2[len(ft) + i]
        if x != y:
            bad += 1
            if bad <= 3:
                xs, ys = x.split(" ; "), y.split(" ; ")
                k = next((j for j in range(min(len(xs), len(ys))) if xs[j] != ys[j]), min(len(xs), len(ys)))
                rep.violation({"kind": "front-end twins diverge: a frame the reference rejects, heard in a receive window, changed what the device does afterwards",
                               "base_history": b, "case": t, "at_op": k, "base_output": (xs[k] if k < len(xs) else "<missing>")[:600],
                               "twin_output": (ys[k] if k < len(ys) else "<missing>")[:600]}, concrete=True)
    fc = frontend_twins_classc(rng.fork("fctwins"), tier)
    core.diff_stage(rep, "X:C07:front-ends(class C twins)", [b for b, _ in fc] + [t for _, t in fc], lambda c, i, m: None)
    io3 = core.run_lines(core.harness_bin(), [b for b, _ in fc] + [t for _, t in fc])
    for i, (b, t) in enumerate(fc):
        x, y = drop_listening(io3[i]), drop_listening(io3[len(fc) + i])
        if x != y:
            bad += 1
            if bad <= 3:
                xs, ys = x.split(" ; "), y.split(" ; ")
                k = next((j for j in range(min(len(xs), len(ys))) if xs[j] != ys[j]), min(len(xs), len(ys)))
                rep.violation({"kind": "Class C twins diverge: a frame the reference rejects, heard while listening between the Class A windows, changed the "
                                       "windows or a later response", "base_history": b, "case": t, "at_op": k,
                               "base_output": (xs[k] if k < len(xs) else "<missing>")[:600], "twin_output": (ys[k] if k < len(ys) else "<missing>")[:600]}, concrete=True)
    rep.cov["frontend_classc_twin_pairs"] = len(fc)
    rep.cov["frontend_twin_pairs"] = len(ft)
    rep.cov["twin_pairs"] = n
    rep.cov["rejected_frames_inserted"] = inserted
    rep.cov["rule"] = ("pairs of MAC histories that differ only by frames the reference codec rejects by construction (random/short/bad-version bytes, replays of accepted "
                       "frames, other-session frames, MIC bit flips, far-future counters, JoinAccept under a wrong key, forged MAC commands) inserted at the receive "
                       "opportunities of histories that create sticky answers, owed ACKs and ADR counts; state snapshot after every step; outputs at the common steps must be identical")
    core.finish_proof_failures(rep)
