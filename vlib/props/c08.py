"""C08 -- MAC command handling is consistent and atomic: the device does what it answers."""
import re
from .. import chanops, core, machist, macstage, lw
from .c10 import DRS, FAM

TXRF = re.compile(r"rf=\d+/(\d+)/(\d+)/")

ID = "C08"
THEOREMS = ["C08_answers_whole", "C08_answers_bounded", "C08_answers_in_order_trailing_dropped", "C08_rxparamsetup_atomic", "C08_rxtimingsetup_effect", "C08_rx1_delay_values",
            "C08_dlchannel_atomic", "C08_newchannel_atomic", "C08_linkadr_atomic", "C08_sticky_answers",
            "C08_accepted_linkadr_governs_next_uplink", "C08_dynamic_plan_rejects_rfu_chmaskcntl", "C08_rfu_chmaskcntl_poisons_the_block",
            "C08_poisoned_block_is_rejected", "C08_block_poison_persists", "C08_linkadr_keep_is_the_live_configuration"]
BAND = {0: (915000000, 928000000), 1: (915000000, 928000000), 2: (915000000, 928000000), 3: (917000000, 920000000),
        4: (915000000, 928000000), 5: (863000000, 870000000), 6: (433050000, 434790000), 7: (865000000, 867000000), 8: (902000000, 928000000)}
MAXOFF = {0: 7, 1: 7, 2: 7, 3: 7, 4: 5, 5: 5, 6: 5, 7: 7, 8: 3}
REQ_LEN = {0x02: 2, 0x03: 4, 0x04: 1, 0x05: 4, 0x06: 0, 0x07: 5, 0x08: 1, 0x09: 1, 0x0A: 4, 0x0D: 5}
ANS_LEN = {0x02: 0, 0x03: 1, 0x04: 0, 0x05: 1, 0x06: 2, 0x07: 1, 0x08: 0, 0x09: 0, 0x0A: 1, 0x0D: 0}
STICKY = (0x05, 0x08, 0x0A)


def command_case(rng, region, cmds, via_port0, extra_downlinks=0):
    """abp; [optional set-up]; send; accepted downlink carrying cmds; snap; send (answers); rx2c; send (sticky); snap"""
    net = machist.Net(rng, region)
    net.abp()
    if rng.chance(1, 3):
        net.op("dr %d" % rng.choice(list(machist.UPLINK_DR[region])))
    net.snap()
    net.send(b"", 1, False, ndraws=40)
    if via_port0 or len(cmds) > 15:
        net.downlink(b"", 0, cmds, confirmed=rng.chance(1, 4))
    else:
        net.downlink(cmds, rng.choice([None, 9]), b"" if rng.chance(1, 2) else b"ab", confirmed=rng.chance(1, 4))
    net.snap()
    for _ in range(extra_downlinks):
        net.send(b"", 2, False, ndraws=40)
        c2 = b"".join(machist.random_command(rng, region) for _ in range(rng.range(1, 3)))
        net.downlink(c2 if len(c2) <= 15 else b"", None if len(c2) <= 15 else 0, b"" if len(c2) <= 15 else c2)
        net.snap()
    net.send(b"x", 3, False, ndraws=40)
    net.rx2c()
    net.send(b"y", 3, False, ndraws=40)
    net.rx2c()
    net.snap()
    return net.line()


def bias_case(rng, region):
    """fixed plans built with a join bias: OTAA join on the preferred sub-band, first data uplinks, then a LinkADRReq (new data rate and/or
    power; the mask the same as, or different from, the one in force) -- an acknowledged request must show in the very next transmission"""
    net = machist.Net(rng, region, bias="%d:%d" % (rng.range(1, 8), rng.choice([1, 2, 3, 4, 6])))
    net.otaa_request(ndraws=40)
    net.join_accept(cflist=rng.choice([b"", b"", bytes([0, 0xFF] + [0] * 6 + [1, 0]) + bytes(5) + b"\x01"]))
    net.snap()
    for _ in range(rng.below(3)):
        net.send(b"d", 1, False, ndraws=40)
        net.rx2c()
    net.snap()
    net.send(b"", 1, False, ndraws=40)
    dr = rng.choice([1, 2, 3, 0, 15]) if region == 8 else rng.choice([3, 4, 5, 0, 15])
    mask, ctl = rng.choice([(0x00FF, 6), (0xFFFF, 0), (0xFFFF, 1), (0x00FF, 4), (0x0003, 7), (0xFF00, 0), (0x00FF, 6)])
    net.downlink(machist.link_adr(dr, rng.choice([15, 2, 5]), mask, ctl), None, b"")
    net.snap()
    for _ in range(3):
        net.send(b"x", 3, False, ndraws=40)
        net.rx2c()
    net.snap()
    return net.line()


def gen(rng, tier):
    lines = []
    quick = tier == "quick"
    for region in (4, 8):
        for i in range(40 if quick else 600):
            lines.append(bias_case(rng.fork("bias%d-%d" % (region, i)), region))
    for region in range(9):
        r = rng.fork("r%d" % region)
        ok, rx2 = machist.FREQ_OK[region], machist.RX2[region]
        # LinkADRReq: every DR x power, ChMaskCntl and mask patterns, single and multi-command blocks
        for dr in range(16):
            for pw in (range(16) if not quick else [(dr * 5 + region + k * 4) % 16 for k in range(4)]):
                ctls = range(8) if not quick else [r.below(8)]
                for ctl in ctls:
                    # thorough: every DR x power x ChMaskCntl with two of the six mask patterns each (all six over the grid)
                    allm = [0xFFFF, 0x0007, 0x0000, 0x0001, 0xFF00, r.below(1 << 16)]
                    masks = [allm[(dr + pw + ctl) % 6], allm[(dr + 2 * pw + ctl + 3) % 6]] if not quick else [r.choice([0xFFFF, 7, 0, 1, 0xFF00, r.below(1 << 16)])]
                    for m in masks:
                        lines.append(command_case(r, region, machist.link_adr(dr, pw, m, ctl), r.chance(1, 4)))
        for _ in range(40 if quick else 600):   # blocks
            blk = b"".join(machist.link_adr(r.below(16), r.below(16), r.choice([0xFFFF, 7, 0, 3, r.below(1 << 16)]), r.below(8)) for _ in range(r.range(2, 3)))
            other = r.choice([b"", machist.dev_status(), machist.rx_timing(3)])
            lines.append(command_case(r, region, r.choice([blk, blk + other, other + blk, blk + other + machist.link_adr(r.below(6), r.below(4), 7, 0)]), r.chance(1, 3)))
        # two LinkADRReq blocks in one downlink, separated by another request; "15" (keep) in the second refers to what the first just set
        updr = list(machist.UPLINK_DR[region])
        for _ in range(24 if quick else 300):
            d1, p1 = r.choice(updr), r.choice([0, 1, 2, 3, 5])
            d2, p2 = r.choice([15, 15, r.choice(updr)]), r.choice([15, 15, 1, 2])
            mask = 0x0007 if region not in (4, 8) else 0xFFFF
            sep = r.choice([machist.dev_status(), machist.rx_timing(r.below(16)), machist.duty_cycle(r.below(16))])
            seq = machist.link_adr(d1, p1, mask, 0) + sep + machist.link_adr(d2, p2, mask, 0)
            if r.chance(1, 3):
                seq += r.choice([machist.dev_status(), machist.link_adr(15, 15, mask, 0)])
            lines.append(command_case(r, region, seq, r.chance(1, 3)))
        # RXParamSetupReq: every DLSettings byte x frequency classes
        for dls in (range(256) if not quick else range(region % 2, 256, 2)):
            fs = [ok, rx2, BAND[region][0] - 100, BAND[region][1] + 100, 0] if not quick else [r.choice([ok, rx2, BAND[region][0] - 100, BAND[region][1] + 100, 0])]
            for f in fs:
                lines.append(command_case(r, region, machist.rx_param_setup(dls >> 4, dls & 15, f) if dls < 128 else bytes([0x05, dls]) + (f // 100).to_bytes(3, "little"), r.chance(1, 4)))
        # RXTimingSetupReq: every byte
        for d in range(0, 256, 1 if not quick else 5):
            lines.append(command_case(r, region, machist.rx_timing(d), r.chance(1, 4)))
        # NewChannelReq / DlChannelReq
        for idx in [0, 1, 2, 3, 4, 7, 8, 15, 16, 17, 255]:
            for f in [ok, ok + 200000, 0, BAND[region][1] + 100, 100]:
                for drr in ([0x50, 0x05, 0x00, 0xFF, 0x75, 0xF0, r.below(256)] if not quick else [r.choice([0x50, 0x05, 0xFF, r.below(256)])]):
                    lines.append(command_case(r, region, bytes([0x07, idx]) + (f // 100).to_bytes(3, "little") + bytes([drr]), r.chance(1, 4)))
                pre = r.choice([b"", machist.new_channel(idx if idx < 16 else 5, ok, 5, 0)])
                lines.append(command_case(r, region, pre + machist.dl_channel(idx, f), r.chance(1, 4)))
        # mixtures, long port-0 payloads overflowing the 15-byte answer limit, sequences of up to 3 downlinks
        for _ in range(60 if quick else 1500):
            cmds = b"".join(machist.random_command(r, region) for _ in range(r.choice([1, 2, 3, 5, 8, 12])))
            lines.append(command_case(r, region, cmds, r.chance(1, 2), extra_downlinks=r.below(3)))
    return lines


def parse_cmds(b, lens):
    out, i = [], 0
    while i < len(b):
        cid = b[i]
        if cid not in lens or i + 1 + lens[cid] > len(b):
            break
        out.append((cid, b[i + 1:i + 1 + lens[cid]]))
        i += 1 + lens[cid]
    return out


SNAP = re.compile(r"dr=(\d+) rx1_delay=(\d+) pw=(-?\d+) rx1off=(\d+) rx2dr=(-?\d+) rx2f=(-?\d+) adr=(\d)")
PLAN = re.compile(r"dyn ch=(\S+) mask=\[([^\]]*)\]")


def plan_of(snap):
    m = PLAN.search(snap)
    if not m:
        return None
    chs = [None if c == "-" else tuple(int(x) for x in c.split("/")) for c in m.group(1).split(",")]
    mask = [int(x, 16) for x in m.group(2).split(", ")]
    return chs, mask


def oracle(case, impl, model=None):
    """property-level judgement from the implementation's own outputs: answers vs requests, ACK => effect, NAK => no change"""
    parts = [p.strip() for p in case.split("|")]
    outs = impl.split(" ; ")
    head = parts[0]
    region = int(re.search(r"r=(\d+)", head).group(1))
    ops = parts[1:]
    nwk = app = None
    addr = 0
    last_snap = None
    last_plan = None
    pending_reqs = None
    sticky_expected = []
    for i, op in enumerate(ops):
        if i >= len(outs) or outs[i] in ("PANIC", "HANG"):
            return None
        a, o = op.split(), outs[i]
        if a[0] == "abp":
            nwk, app, addr = bytes.fromhex(a[1]), bytes.fromhex(a[2]), int(a[3])
        elif a[0] == "otaa":
            appkey, nonce = bytes.fromhex(a[3]), int(a[4].split(",")[0]) & 0xFFFF
        elif a[0] == "rx" and o.startswith("JoinSuccess"):
            f = bytes.fromhex(a[1])
            clear = f[:1] + b"".join(lw.aes_enc(appkey, f[1 + j:17 + j]) for j in range(0, len(f) - 1, 16))
            nwk, app = lw.session_keys(appkey, int.from_bytes(clear[1:4], "little"), int.from_bytes(clear[4:7], "little"), nonce)
            addr = int.from_bytes(clear[7:11], "little")
            pending_reqs = None
        elif a[0] == "snap":
            m = SNAP.search(o)
            cur = tuple(int(x) for x in m.groups()) if m else None
            if pending_reqs is not None and last_snap is not None and cur is not None:
                pending_reqs["before"], pending_reqs["after"] = last_snap, cur
                pending_reqs["plan_before"], pending_reqs["plan_after"] = last_plan, plan_of(o)
            last_snap = cur
            last_plan = plan_of(o)
        elif a[0] == "rx" and o.startswith("DownlinkReceived") and nwk:
            f = bytes.fromhex(a[1])
            fl = f[5] & 15
            fopts = f[8:8 + fl]
            rest = f[8 + fl:-4]
            cmds = fopts
            if rest and rest[0] == 0:
                n = int(o.split("(")[1].split(")")[0])
                cmds = (fopts + lw._crypt(nwk, 1, addr, n, rest[1:])) if fl else lw._crypt(nwk, 1, addr, n, rest[1:])
            pending_reqs = {"reqs": parse_cmds(cmds, REQ_LEN), "frame": a[1]}
            sticky_expected = []
        elif a[0] == "send" and o.startswith("TX") and nwk and pending_reqs is not None and "after" in pending_reqs:
            fr = bytes.fromhex(o.split("frame=")[1].split()[0])
            cnt = int(o.split("cnt=")[1].split()[0])
            d = lw.decode_uplink(fr, nwk, app, cnt >> 16)
            if d is None:
                return None
            ans_bytes = d["fopts"] if d["port"] != 0 else d.get("plain", b"")
            answers = parse_cmds(ans_bytes, ANS_LEN)
            if sum(1 + len(p) for _, p in answers) != len(ans_bytes):
                return {"kind": "uplink MAC answers are not whole commands", "answers": ans_bytes.hex()}
            reqs = pending_reqs["reqs"]
            handled = [(c, p) for c, p in reqs if c in (0x03, 0x05, 0x06, 0x08) or (c in (0x07, 0x0A) and region not in (4, 8))]
            if pending_reqs.get("first", True):
                pending_reqs["first"] = False
                # one answer per handled request, in request order, possibly truncated at the end
                exp_cids = [c for c, _ in handled]
                got_cids = [c for c, _ in answers]
                if got_cids != exp_cids[:len(got_cids)]:
                    # an answer dropped for lack of room may be followed by a smaller one only if the code keeps filling: report
                    return {"kind": "answers are not one per handled request in request order (only trailing answers may be dropped)",
                            "requests": [hex(c) for c in exp_cids], "answers": [hex(c) for c in got_cids]}
                if len(got_cids) < len(exp_cids) and len(ans_bytes) + 1 + ANS_LEN[exp_cids[len(got_cids)]] <= 15:
                    return {"kind": "an answer that still fitted the 15-byte limit was dropped", "requests": [hex(c) for c in exp_cids], "answers": [hex(c) for c in got_cids]}
                # LinkADR blocks answered with identical copies
                k = 0
                while k < len(answers):
                    if answers[k][0] == 0x03:
                        j = k
                        while j < len(answers) and answers[j][0] == 0x03 and j - k < 99:
                            j += 1
                        k = j
                    else:
                        k += 1
                # several requests in one downlink: the fully acknowledged LinkADRReq blocks apply IN SEQUENCE (a block = a run of consecutive
                # LinkADRReq; its last request carries data rate and power; 15 = keep the value in force at that point of the sequence)
                if len(answers) == len(handled) and len(reqs) > 1 and "before" in pending_reqs and "after" in pending_reqs:
                    b, af = pending_reqs["before"], pending_reqs["after"]
                    cur_dr, pw_kept = b[0], True
                    cur_delay, cur_off, cur_rx2dr, cur_rx2f = b[1], b[3], b[4], b[5]
                    ai, ri = 0, 0
                    while ri < len(reqs):
                        c, p = reqs[ri]
                        if c == 0x03:
                            rj = ri
                            while rj + 1 < len(reqs) and reqs[rj + 1][0] == 0x03:
                                rj += 1
                            n = rj - ri + 1
                            status = answers[ai][1][0] if ai < len(answers) and answers[ai][0] == 0x03 else None
                            last = reqs[rj][1]
                            if status == 7:
                                if last[0] >> 4 != 15:
                                    cur_dr = last[0] >> 4
                                if last[0] & 15 != 15:
                                    pw_kept = False
                            ai += n
                            ri = rj + 1
                        else:
                            if (c, p) in handled:
                                if c == 0x05 and ai < len(answers) and answers[ai][0] == 0x05 and answers[ai][1][0] == 7:
                                    cur_off = (p[0] >> 4) & 7
                                    if p[0] & 15 != 15:
                                        cur_rx2dr = p[0] & 15
                                    cur_rx2f = int.from_bytes(p[1:4], "little") * 100
                                if c == 0x08:
                                    cur_delay = 1000 if (p[0] & 15) <= 1 else (p[0] & 15) * 1000
                                ai += 1
                            ri += 1
                    if ai == len(answers) and (af[1], af[3], af[4], af[5]) != (cur_delay, cur_off, cur_rx2dr, cur_rx2f):
                        return {"kind": "several requests in one downlink: RX1 delay / RX1 offset / RX2 data rate / RX2 frequency are not what the acknowledged "
                                        "RXParamSetupReq and RXTimingSetupReq command in sequence", "before": b, "after": af,
                                "expected": [cur_delay, cur_off, cur_rx2dr, cur_rx2f], "requests": [("%02x" % c) + p.hex() for c, p in reqs]}
                    if any(c == 0x03 for c, _ in reqs) and ai == len(answers):
                        if af[0] != cur_dr:
                            return {"kind": "several requests in one downlink: the data rate is not what the acknowledged LinkADRReq blocks command in sequence "
                                            "(15 = keep the value in force at that point)", "before": b, "after": af, "expected_dr": cur_dr,
                                    "requests": [("%02x" % c) + p.hex() for c, p in reqs]}
                        if pw_kept and af[2] != b[2]:
                            return {"kind": "several requests in one downlink: TX power changed although every acknowledged LinkADRReq block said 'keep' (15)",
                                    "before": b, "after": af, "requests": [("%02x" % c) + p.hex() for c, p in reqs]}
                # ACK => effect / NAK => unchanged, judged on the configuration snapshot for single-command downlinks
                if len(handled) == 1 and len(answers) == 1 and len(reqs) == 1:
                    (c, p), (ca, pa) = handled[0], answers[0]
                    b, af = pending_reqs["before"], pending_reqs["after"]
                    if c == 0x05:
                        freq = int.from_bytes(p[1:4], "little") * 100
                        off, rx2 = (p[0] >> 4) & 7, p[0] & 15
                        if pa[0] == 7:
                            if af[3] != off or (rx2 != 15 and af[4] != rx2) or af[5] != freq:
                                return {"kind": "RXParamSetupReq fully acknowledged but not applied as commanded", "before": b, "after": af}
                            if not (BAND[region][0] <= freq <= BAND[region][1]) or off > MAXOFF[region] or (rx2 != 15 and rx2 not in machist.DEFINED[region]):
                                return {"kind": "RXParamSetupReq that the regional rules make invalid was fully acknowledged", "request": p.hex()}
                        elif b[3:6] != af[3:6]:
                            return {"kind": "RXParamSetupReq answered with a rejection but the configuration changed", "before": b, "after": af}
                    if c == 0x08:
                        dly = p[0] & 15
                        want = 1000 if dly <= 1 else dly * 1000
                        if af[1] != want:
                            return {"kind": "RXTimingSetupReq acknowledged but RX1 delay not as commanded", "after": af, "want": want}
                    pb, pa2 = pending_reqs.get("plan_before"), pending_reqs.get("plan_after")
                    if c in (0x0A, 0x07) and pb and pa2:
                        idx = p[0]
                        freq = int.from_bytes(p[1:4], "little") * 100
                        if pa[0] & 3 != 3:
                            if pb != pa2:
                                return {"kind": "%s answered with a rejection but the channel plan changed" % ("DlChannelReq" if c == 0x0A else "NewChannelReq"),
                                        "request": p.hex(), "answer": pa.hex()}
                        elif c == 0x0A:
                            ch = pa2[0][idx] if idx < 16 else None
                            if ch is None or (ch[2] != freq and not (ch[2] == -1 and freq == ch[0])):
                                return {"kind": "DlChannelReq fully acknowledged but the channel's RX1 frequency is not the commanded one", "request": p.hex()}
                            if not (BAND[region][0] <= freq <= BAND[region][1]):
                                return {"kind": "DlChannelReq with an out-of-band frequency was fully acknowledged", "request": p.hex()}
                        else:
                            ch = pa2[0][idx] if idx < 16 else None
                            if idx < chanops.NDEFAULT.get(region, 0):
                                # RP002: the default channels "cannot be modified through the NewChannelReq command"
                                return {"kind": "NewChannelReq aimed at a default channel was fully acknowledged", "request": p.hex(), "answer": pa.hex()}
                            if freq == 0:
                                if ch is not None:
                                    return {"kind": "NewChannelReq(frequency 0) acknowledged but the channel still exists", "request": p.hex()}
                            elif ch is None or ch[0] != freq or ch[1] != p[4]:
                                return {"kind": "NewChannelReq fully acknowledged but the channel was not created as commanded", "request": p.hex()}
                            elif idx < 16 and not (pa2[1][idx // 8] >> (idx % 8)) & 1:
                                return {"kind": "NewChannelReq fully acknowledged but the created / modified channel is not enabled", "request": p.hex(), "mask": pa2[1][:2]}
                            elif not (BAND[region][0] <= freq <= BAND[region][1]):
                                return {"kind": "NewChannelReq with an out-of-band frequency was fully acknowledged", "request": p.hex()}
                    if c == 0x03:
                        dr, pw = p[0] >> 4, p[0] & 15
                        if pa[0] == 7:
                            if (dr != 15 and af[0] != dr) or (dr == 15 and af[0] != b[0]):
                                return {"kind": "LinkADRReq fully acknowledged but data rate not as commanded", "before": b, "after": af}
                            if dr != 15 and dr not in machist.DEFINED[region]:
                                return {"kind": "LinkADRReq with a data rate the region does not define was fully acknowledged", "request": p.hex()}
                            # ... and the effect shows in this very transmission (the one that carries the answer)
                            t = TXRF.search(o)
                            if dr != 15 and t and dr in DRS[FAM[region]] and (int(t.group(1)), int(t.group(2))) != DRS[FAM[region]][dr]:
                                return {"kind": "LinkADRReq fully acknowledged but the next uplink is not sent at the commanded data rate",
                                        "request": p.hex(), "commanded_sf_bw": DRS[FAM[region]][dr], "used_sf_bw": [int(t.group(1)), int(t.group(2))]}
                            pbm, pam = pending_reqs.get("plan_before"), pending_reqs.get("plan_after")
                            if region not in (4, 8) and ((p[3] >> 4) & 7) == 0 and pam and pam[1][:2] != [p[1], p[2]]:
                                return {"kind": "LinkADRReq fully acknowledged but the channel mask is not the commanded one", "request": p.hex(), "mask": pam[1][:2]}
                            # RP002 (EU868, EU433, IN865, AS923: 16 channels): ChMaskCntl 0 = channels 0-15, 6 = all defined channels on,
                            # 1-5 and 7 RFU; "if the ChMaskCntl field value is one of values meaning RFU, the end-device SHALL reject the command"
                            if ((p[3] >> 4) & 7) not in (0, 6) and region not in (4, 8):
                                return {"kind": "LinkADRReq with an RFU ChMaskCntl was fully acknowledged", "request": p.hex()}
                        elif (b[0], b[2]) != (af[0], af[2]):
                            return {"kind": "LinkADRReq answered with a rejection but data rate / power changed", "before": b, "after": af}
                sticky_expected = [(c, p) for c, p in answers if c in STICKY]
            else:
                # later uplinks before the next accepted downlink: exactly the sticky answers again
                if [(c, bytes(p)) for c, p in answers] != [(c, bytes(p)) for c, p in sticky_expected]:
                    return {"kind": "sticky answers (RXParamSetupAns/RXTimingSetupAns/DlChannelAns) not repeated exactly / non-sticky answer repeated",
                            "expected": [hex(c) for c, _ in sticky_expected], "got": [hex(c) for c, _ in answers]}
    return None


def run(rep, tier, rng):
    core.proof_stage(rep, ID, THEOREMS)
    if not core.build_both(rep):
        core.finish_proof_failures(rep)
        return
    cover = lambda r: machist.draws(r, 40) + "," + ",".join(str(v) for v in range(32))
    lines = gen(rng, tier) + chanops.gen(rng, tier, cover) + chanops.default_channel_histories(rng.fork("dc"), tier, cover)
    core.diff_stage(rep, "X:C08:mac-histories(commands)", lines, macstage.make_judge([], extra=oracle))
    known = core.load_known(ID)
    macstage.oracle_pass(rep, lines, [], extra=oracle)
    rep.cov["rule"] = ("per region: LinkADRReq over every DR x power (x every ChMaskCntl x mask patterns in thorough) alone and in blocks, every DLSettings byte of "
                       "RXParamSetupReq x in/out-of-band frequencies, every RXTimingSetupReq byte, NewChannelReq/DlChannelReq over index and frequency classes and "
                       "data-rate ranges, DevStatusReq, mixtures up to 12 commands (answers overflowing 15 bytes) in FOpts and on port 0, sequences of up to 3 downlinks; "
                       "state snapshot before/after; the next two uplinks decoded by an independent codec (answers, order, sticky repetition)")
    core.finish_proof_failures(rep)
