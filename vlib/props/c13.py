"""C13 -- SX126x / SX127x drivers emit the same SPI bytes as Semtech's reference driver."""
import re
from .. import core
from . import c17

ID = "C13"
THEOREMS = ["C13_modulation_params", "C13_rf_frequency", "C13_packet_params", "C13_irq_masks", "C13_errata_values", "C13_fixed_commands",
            "C13_sx1276_modem_config_fields", "C13_sx1276_frf_bytes",
            "C13_sx127x_seq_set_payload", "C13_sx127x_seq_set_buffer_base", "C13_sx127x_seq_get_rx_payload", "C13_sx127x_fifo_registers",
            "C13_sx126x_seq_modulation", "C13_sx126x_seq_packet", "C13_sx126x_seq_channel", "C13_sx126x_seq_tx_power", "C13_sx126x_seq_rx",
            "C13_sx126x_seq_cad", "C13_sx126x_seq_init", "C13_sx126x_seq_simple"]
BW_HZ = c17.BW_HZ
H6 = "%s chip=%s tcxo=- dcdc=0 rxboost=%d txboost=0 fault=- regs=%s reads=%s fill=0 buf=-"


def ldro(sf, bw):
    return 1 if (2 ** sf) * 1000000 >= 16384 * BW_HZ[bw] else 0


def canon(trace):
    """wire-canonical form of the SPI part of a trace: (written bytes with trailing NOPs trimmed, total bytes clocked) per transaction"""
    out = []
    for tok in trace.split():
        if not tok.startswith("w"):
            continue
        w, total = b"", 0
        for seg in tok.split(","):
            data = bytes.fromhex(seg[1:]) if seg[1:] != "-" else b""
            total += len(data)
            if seg[0] == "w":
                w += data
        out.append((w.rstrip(b"\x00").hex(), total))
    return out


# python's own idea of the optimal PA settings (datasheet table 13-21), used to drive the reference
def pa_choice(chip, p):
    if chip == "sx1261":
        txp = max(-17, min(15, p))
        for mx, duty, at in ((10, 1, 13), (14, 4, 14), (15, 6, 14)):
            if txp <= mx:
                return duty, 0, 1, at - (mx - txp)
    txp = max(-9, min(22, p))
    for mx, duty, hp in ((14, 2, 2), (17, 2, 3), (20, 3, 5), (22, 4, 7)):
        if txp <= mx:
            return duty, hp, 0, 22 - (mx - txp)


def gen(rng, tier):
    """pairs (driver line, reference line, kind)"""
    pairs = []
    quick = tier == "quick"

    def add(chip, phy_ops, ref_ops, regs="-", reads="-", boost=0, kind="cmd"):
        pairs.append((H6 % ("phy", chip, boost, regs, reads) + " | " + " | ".join(phy_ops),
                      "ref chip=%s regs=%s reads=%s fill=0 buf=-" % (chip, regs, reads) + " | " + " | ".join(ref_ops), kind))

    freqs = c17.lorawan_freqs() + list(range(137000000, 1020000001, 999983 if quick else 9973)) + [rng.range(137000000, 1020000000) for _ in range(300)]
    for chip in ("sx1262", "sx1261"):
        for ch in c17.chunks(freqs, 120):
            add(chip, ["chan %d" % f for f in ch], ["chan %d" % f for f in ch])
        # modulation: every SF x BW x CR with randomised prior contents of the TxModulation register
        for sf in range(8):
            for bw in range(10):
                ops, rops = [], []
                for cr in range(4):
                    f = 868100000 if bw < 8 else 915000000
                    ops.append("mod %d %d %d %d" % (sf, bw, cr, f))
                    rops.append("mod %d %d %d %d" % (sf, bw, cr, ldro(sf + 5, bw)))
                add(chip, ops, rops, regs="2185:%d" % rng.below(256))
        # packet parameters
        pre = [0, 1, 8, 12, 255, 256, 65535] + [rng.below(65536) for _ in range(3 if quick else 40)]
        for p in pre:
            ops, rops = [], []
            for ln in ([0, 1, 20, 255] if quick else range(256)):
                for im in (0, 1):
                    crc, iq = rng.below(2), rng.below(2)
                    ops.append("pkt %d %d %d %d %d 2" % (p, im, ln, crc, iq))
                    rops.append("pkt %d %d %d %d %d" % (p, im, ln, crc, iq))
            add(chip, ops, rops, regs="1846:%d" % rng.below(256))
        for w in ([0x34, 0x12, 0x00, 0xFF, 0xA5] if quick else range(256)):
            sw16 = ((w & 0xF0) | 4) << 8 | ((w & 0x0F) << 4) | 4
            add(chip, ["sync %d" % sw16], ["sync %d" % w], regs="1856:20,1857:36", kind="writes")
        add(chip, ["sleep 0", "sleep 1", "standby", "tx", "clrirq", "cw", "base 0 0", "base 17 200"], ["sleep 0", "sleep 1", "standby", "tx", "clrirq", "cw", "base 0 0", "base 17 200"])
        for n in (0, 1, 3, 16, 255):
            pl = rng.bytes(n).hex() or "-"
            add(chip, ["payload %s" % pl], ["payload %s" % pl])
        add(chip, ["irq tx", "irq rx", "irq cad", "irq standby"], ["irq 513", "irq 65535", "irq 384", "irq 65535"])
        for boosted in (0, 1):
            ops, rops = [], []
            for n in (list(range(0, 256)) if not quick else list(range(0, 70)) + [100, 124, 125, 200, 247, 248, 249, 255]):
                ops.append("rx s %d" % n)
                rops.append("rx %d %d 0" % (n, boosted))
            ops.append("rx c")
            rops.append("rx 0 %d 16777215" % boosted)
            add(chip, ops, rops, boost=boosted)
            add(chip, ["cad %d" % s for s in range(8)], ["cad %d %d" % (s + 5, boosted) for s in range(8)], boost=boosted)
        for p in range(-20, 25):
            for istx in (0, 1):
                duty, hp, sel, txp = pa_choice(chip, p)
                add(chip, ["power %d 868100000 %d" % (p, istx)], ["power %d %d %d %d %d %d" % (duty, hp, sel, txp, 2 if istx else 4, 0 if chip == "sx1261" else 1)],
                    regs="2264:%d" % rng.below(256))
        for f in (430000000, 433000000, 470000000, 490000000, 779000000, 868000000, 915000000, 903000000, 425000001, 900000001):
            a, b = ((0xE1, 0xE9) if f > 900000000 else (0xD7, 0xDB) if f > 850000000 else (0xC1, 0xC5) if f > 770000000 else (0x75, 0x81) if f > 460000000 else (0x6B, 0x6F))
            add(chip, ["calimg %d" % f], ["calimg %d %d" % (a, b)])
        # status decoding parity with the reference
        for _ in range(20 if quick else 400):
            raw = [rng.below(256) for _ in range(3)]
            # the driver reads a status byte first; the reference clocks it out during its NOP write
            pairs.append((H6 % ("phy", chip, 0, "-", "00%02x%02x%02x00%02x" % (raw[0], raw[1], raw[2], raw[0])) + " | status | rssi",
                          "ref chip=%s regs=- reads=%02x%02x%02x%02x fill=0 buf=- | status | rssi" % (chip, raw[0], raw[1], raw[2], raw[0]), "status"))
    # SX1276: register outcome
    def add7(phy_ops, ref_ops, regs="-", boost=0, kind="regs"):
        pairs.append((("phy chip=sx1276 tcxo=- dcdc=0 rxboost=0 txboost=%d fault=- regs=%s reads=- fill=0 buf=- | " % (boost, regs)) + " | ".join(phy_ops) + " | dumpregs",
                      ("ref chip=sx1276 regs=%s reads=- fill=0 buf=- | " % regs) + " | ".join(ref_ops), kind))
    for f in freqs[:: (3 if quick else 1)]:
        add7(["chan %d" % f], ["chan %d" % f], kind="regs:6,7,8")
    for sf in range(1, 8):
        for bw in range(10):
            for cr in range(4):
                prior = "29:%d,30:%d,38:%d,49:%d" % (rng.below(256), rng.below(256), rng.below(256) & 0xF7, rng.below(256))
                f = 868100000
                add7(["mod %d %d %d %d" % (sf, bw, cr, f)], ["mod %d %d %d %d" % (sf + 5, bw, cr + 1, ldro(sf + 5, bw))], regs=prior, kind="regs:29/254,30/240,38/8")
    for w in ([0x34, 0x12, 0, 0xFF] if quick else range(256)):
        sw16 = ((w & 0xF0) | 4) << 8 | ((w & 0x0F) << 4) | 4
        add7(["sync %d" % sw16], ["sync %d" % w], kind="regs:57")
    for n in (list(range(4, 1024, 37 if quick else 1)) + [1023, 2000, 65535]):
        add7(["rx s %d" % n], ["symb %d" % min(n, 1023)], regs="30:%d" % (rng.below(256) & 0xFC), kind="regs:30/3,31")
    for p in [0, 8, 300, 65535] + [rng.below(65536) for _ in range(6)]:
        for im in (0, 1):
            for crc in (0, 1):
                for iq in (0, 1):
                    ln = rng.below(256)
                    add7(["pkt %d %d %d %d %d 2" % (p, im, ln, crc, iq)], ["pkt %d %d %d %d %d" % (p, im, ln, crc, iq)],
                         regs="29:%d,30:%d" % (rng.below(256), rng.below(256)), kind="regs:32,33,29/1,30/4" + (",34" if im else ""))
    for p in range(2, 21):
        add7(["power %d - 1" % p], ["power %d 9 1 %d" % (p, 1 if p > 17 else 0)], boost=1, kind="regs:9/143,77/7")
    for p in range(-4, 15):
        add7(["power %d - 1" % p], ["power %d 9 0 0" % p], boost=0, kind="regs:9/128")
    return pairs


def gen_1272(rng, tier):
    """SX1272 (no Semtech reference driver for it is vendored): the same operations on randomised prior register contents, driver against
    the Coq model, pin level and final register file"""
    quick = tier == "quick"
    head = "phy chip=sx1272 tcxo=- dcdc=0 rxboost=0 txboost=%d fault=- regs=%s reads=- fill=0 buf=- | "
    lines = []
    for sf in range(1, 8):
        for bw in range(7, 10):
            for cr in range(4):
                regs = "29:%d,30:%d,49:%d" % (rng.below(256), rng.below(256), rng.below(256))
                lines.append(head % (0, regs) + "mod %d %d %d 868100000 | dumpregs" % (sf, bw, cr))
    for p in [0, 8, 300, 65535] + [rng.below(65536) for _ in range(2 if quick else 12)]:
        for flags in range(8):
            regs = "29:%d,30:%d,51:%d,59:%d" % (rng.below(256), rng.below(256), rng.below(256), rng.below(256))
            lines.append(head % (0, regs) + "pkt %d %d %d %d %d 2 | dumpregs" % (p, flags & 1, rng.below(256), (flags >> 1) & 1, (flags >> 2) & 1))
            lines.append(head % (0, regs) + "mod %d %d %d 868100000 | pkt %d %d %d %d %d 2 | dumpregs"
                         % (rng.choice([6, 7]), 7, rng.below(4), p, flags & 1, rng.below(256), (flags >> 1) & 1, (flags >> 2) & 1))
    for n in (list(range(4, 1024, 61 if quick else 3)) + [1023, 2000, 65535]):
        lines.append(head % (0, "30:%d" % rng.below(256)) + "rx s %d | dumpregs" % n)
    for w in ([0x34, 0x12, 0, 0xFF] if quick else range(0, 256, 5)):
        lines.append(head % (0, "-") + "sync %d | dumpregs" % (((w & 0xF0) | 4) << 8 | ((w & 0x0F) << 4) | 4))
    for boost in (0, 1):
        for pw in range(-4, 21):
            lines.append(head % (boost, "9:%d,90:%d" % (rng.below(256), rng.below(256))) + "power %d - 1 | dumpregs" % pw)
    for f in (863000000, 868100000, 869525000, 902300000, 915000000, 923300000, 927500000, 865062500):
        lines.append(head % (0, "-") + "chan %d | dumpregs" % f)
    # FIFO writes (both chips): whatever the FIFO pointer held before, the payload lands at the TX base (0)
    for chip in ("sx1272", "sx1276"):
        for n in (1, 3, 16, 40, 255):
            for ptr in (0, rng.range(1, 200), 255):
                lines.append((head % (0, "13:%d" % ptr)).replace("chip=sx1272", "chip=" + chip) + "payload %s | dumpregs" % rng.bytes(n).hex())
        # ... also after a reception whose last transaction (the pointer rewind) failed and left the pointer behind the received bytes
        for n, cur in ((5, 7), (16, 0), (40, 100)):
            lines.append(("phy chip=%s tcxo=- dcdc=0 rxboost=0 txboost=0 fault=8 regs=19:%d,16:%d reads=- fill=0 buf=- | rxpayload 0 0 64 | " % (chip, n, cur))
                         + "payload %s | dumpregs" % rng.bytes(rng.range(1, 20)).hex())
    return lines


def gen_duty(rng, tier):
    """SX126x duty-cycled reception (the vendored reference wrapper has no call for it): SetRxDutyCycle over random and boundary periods"""
    lines = []
    vals = [0, 1, 255, 256, 65535, 65536, 0xFFFFFF, 300000, 200000]
    for chip in ("sx1262", "sx1261"):
        for k in range(12 if tier == "quick" else 200):
            rxp, slp = (rng.choice(vals), rng.choice(vals)) if k % 3 == 0 else (rng.below(1 << 24), rng.below(1 << 24))
            lines.append(H6 % ("phy", chip, 0, "-", "-") + " | rx d %d %d" % (rxp, slp))
    return lines


def duty_judge(case, impl, model):
    """datasheet 13.1.6 SetRxDutyCycle: opcode 0x94, rxPeriod(23:0) then sleepPeriod(23:0), most significant byte first"""
    t = case.split(" | ")[-1].split()
    want = "w94%06x%06x" % (int(t[2]) & 0xFFFFFF, int(t[3]) & 0xFFFFFF)
    if impl.startswith("Ok") and want not in impl.split():
        cmd = [x for x in impl.split() if x.startswith("w94")]
        return {"kind": "SetRxDutyCycle does not carry the commanded receive / sleep periods (datasheet: 0x94, rxPeriod(23:0), sleepPeriod(23:0))",
                "sent": cmd, "expected": want}
    return None


def fifo_judge(case, impl, model):
    """datasheet rules, on the implementation alone: after set_payload the FIFO holds the payload from the TX base address on; SX1272
    set_modulation_params leaves RegModemConfig1 = Bw(7:6) CodingRate(5:3) [header mode, CRC kept] LowDataRateOptimize(0) and
    RegModemConfig2 = SpreadingFactor(7:4) [rest kept], whatever the registers held before"""
    t = case.split(" | ")
    if len(t) == 3 and t[1].startswith("mod ") and "chip=sx1272" in t[0] and impl.split(" ; ")[0].startswith("ldro="):
        a = t[1].split()
        sf, bw, cr = int(a[1]) + 5, int(a[2]), int(a[3]) + 1
        prior = dict((int(x), int(y)) for x, y in (p.split(":") for p in re.search(r"regs=(\S+)", t[0]).group(1).split(",")))
        m = re.search(r"regs=([0-9a-f]+)", impl.split(" ; ")[-1])
        if m and 7 <= bw <= 9 and "Ok" in impl.split(" ; ")[0]:
            regs = bytes.fromhex(m.group(1))
            ldro_bit = 1 if (1 << sf) * 1000000 >= 16384 * (125000 << (bw - 7)) else 0
            want1 = (prior.get(29, 0) & 6) | ((bw - 7) << 6) | (cr << 3) | ldro_bit
            want2 = (prior.get(30, 0) & 0x0f) | (sf << 4)
            if regs[0x1d - 1] != want1 or regs[0x1e - 1] != want2:
                return {"kind": "SX1272 set_modulation_params: RegModemConfig1 / RegModemConfig2 are not the datasheet fields for the request on these prior contents",
                        "RegModemConfig1": hex(regs[0x1d - 1]), "expected1": hex(want1), "RegModemConfig2": hex(regs[0x1e - 1]), "expected2": hex(want2)}
    if t[-1] == "dumpregs" and t[-2].startswith("payload "):
        want = t[-2].split()[1][:32]
        outs = impl.split(" ; ")
        m = re.search(r"fifo=([0-9a-f]+)", outs[-1])
        if len(outs) >= 2 and outs[-2].startswith("Ok") and m and not m.group(1).startswith(want):
            return {"kind": "SX127x set_payload: the payload was not written at the FIFO TX base address (the FIFO pointer must be programmed before the burst)",
                    "fifo_start": m.group(1), "payload_start": want}
    return None


def compare(kind, phy_out, ref_out):
    po, ro = phy_out.split(" ; "), ref_out.split(" ; ")
    if any(x.startswith("PANIC") for x in po):
        return {"kind": "driver panicked"}
    if kind.startswith("regs"):
        dump = po[-1]
        m = re.search(r"regs=([0-9a-f]+)", dump)
        r = re.search(r"regs=([0-9a-f]+)", ro[-1])
        if not m or not r:
            return {"kind": "register dump missing", "driver": dump[:80], "reference": ro[-1][:80]}
        a, b = bytes.fromhex(m.group(1)), bytes.fromhex(r.group(1))
        if ":" in kind:
            for spec in kind.split(":")[1].split(","):
                reg, _, mask = spec.partition("/")
                reg, mask = int(reg), int(mask) if mask else 255
                if (a[reg - 1] & mask) != (b[reg - 1] & mask):
                    return {"kind": "SX1276 register differs from what Semtech's reference driver leaves in it", "register": hex(reg), "mask": hex(mask),
                            "driver": hex(a[reg - 1]), "reference": hex(b[reg - 1])}
        return None
    for k, (x, y) in enumerate(zip(po, ro)):
        tx, ty = x.partition(" :: ")[2], y.partition(" :: ")[2]
        if x.split(" :: ")[0].startswith(("Err", "CreateErr")):
            continue
        cx, cy = canon(tx), canon(ty)
        if kind == "writes":
            cx = [c for c in cx if c[0].startswith("0d")]
            cy = [c for c in cy if c[0].startswith("0d")]
        if cx != cy:
            return {"kind": "SPI transactions differ from Semtech's reference driver", "op_index": k, "driver": cx[:6], "reference": cy[:6]}
        if kind == "status":
            mx = re.search(r"rssi=(-?\d+) snr=(-?\d+)", x)
            my = re.search(r"rssi=(-?\d+) snr=(-?\d+)", y)
            if mx and my and mx.groups() != my.groups():
                return {"kind": "decoded packet status differs from the reference driver's", "driver": mx.groups(), "reference": my.groups()}
    return None


def run(rep, tier, rng):
    core.proof_stage(rep, ID, THEOREMS)
    if not core.build_both(rep):
        core.finish_proof_failures(rep)
        return
    pairs = gen(rng, tier)
    phy_lines = [p[0] for p in pairs]
    # model vs driver (pin-level, exact); disagreements are judged against the reference below
    core.diff_stage(rep, "X:C13:model-vs-driver(pin level)", [l.replace(" | dumpregs", "") for l in phy_lines], lambda c, i, m: None)
    core.diff_stage(rep, "X:C13:sx1272 model-vs-driver(pin level + register file)", gen_1272(rng, tier), fifo_judge)
    core.diff_stage(rep, "X:C13:sx126x SetRxDutyCycle (model-vs-driver + datasheet format)", gen_duty(rng, tier), duty_judge)
    po = core.run_lines(core.harness_bin(), phy_lines)
    ro = core.run_lines(core.harness_bin(), [p[1] for p in pairs])
    bad = 0
    nops = 0
    for (pl, rl, kind), a, b in zip(pairs, po, ro):
        nops += pl.count("|")
        try:
            v = compare(kind, a, b)
        except Exception as e:
            v = {"kind": "comparison failed", "error": repr(e)}
        if v:
            bad += 1
            if bad <= 3:
                v.update({"case": pl[:1500], "reference_case": rl[:1500], "impl_output": a[:1500], "reference_output": b[:1500]})
                rep.violation(v, concrete=True)
    rep.cov["operations_compared_with_the_reference_driver"] = nops
    rep.cov["rule"] = ("SX1261/SX1262 vs Semtech's sx126x reference driver, transaction by transaction in wire-canonical form: SetRfFrequency over every LoRaWAN channel frequency + a stride over "
                       "137-1020 MHz, every SF x BW x CR (with LDRO) on randomised TxModulation contents, packet parameters (preambles x lengths x header/CRC/IQ) on randomised IQ-polarity register "
                       "contents, sync words, sleep/standby/SetTx/ClearIrq/CW/buffer base, FIFO writes, IRQ masks, SetRx with symbol timeouts 0..255 boosted/not, CAD, PA config + TX params -20..24 dBm, "
                       "image calibration bands, packet status decoding; SX1276 vs the sx127x reference driver by register outcome (Frf, ModemConfig1/2/3 fields, sync word, symbol timeout, preamble / "
                       "payload / header / CRC / IQ registers, PaConfig / PaDac) on randomised prior register contents; the Coq models run on the same scripts (pin-level, exact); "
                       "SX1272 (no vendored reference): modulation / packet parameters (all flag combinations, alone and after set_modulation_params) / symbol timeout / sync word / TX power / "
                       "frequency on randomised prior register contents, driver against the Coq model at pin level and by final register file; FIFO writes on both SX127x chips from "
                       "arbitrary prior FIFO pointers (the payload must land at the TX base)")
    core.finish_proof_failures(rep)
