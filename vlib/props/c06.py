"""C06 -- uplink frame counters never repeat within a session."""
import re
from .. import core, machist, macstage, lw, adevhist, ndevhist

ID = "C06"
THEOREMS = ["C06_send_uses_current_counter", "C06_window_close_advances_or_expires", "C06_receive_never_rewinds",
            "C06_async_send_concludes_the_uplink", "C06_async_counters_strictly_increase", "C06_async_never_rewinds",
            "C06_nb_counters_strictly_increase"]
KINDS = ["uplink frame counter", "uplink MIC/encryption counter"]
NWK, APP, ADDR = bytes([2] * 16), bytes([1] * 16), 5
TX = re.compile(r"tx\[(\d+)/(\d+)/(\d+) pw=(-?\d+) ([0-9a-f]+)\]")


def frontend_histories(rng, tier):
    """send / RX1-hit / RX2-hit / timeout / invalid frame / Class C events with a fault at every radio-call position,
    counters starting at 0, 0xFFFF, 2^32-2, on both front-ends"""
    lines = []
    depth = 3 if tier == "quick" else 5
    starts = [0, 0xFFFF, 0xFFFFFFFE]
    for start in starts:
        sess = "session=%s:%s:%d:%d" % (NWK.hex(), APP.hex(), ADDR, start)
        for region in ([5, 8] if tier == "quick" else range(9)):
            for variant in range(6 if tier == "quick" else 8):
                r = rng.fork("fe%d-%d-%d" % (start, region, variant))
                # async: a list of sends with scripted window outcomes
                ops, down = [], 0
                for k in range(depth):
                    ev = r.below(5)
                    fc = (start + k) & 0xFFFFFFFF
                    if ev == 0:
                        script = "T,T"
                    elif ev == 1:      # RX1 hit
                        down += 1
                        script = "X" + lw.data_frame(3, ADDR, 0, down, b"", 7, b"hi", NWK, APP).hex()
                    elif ev == 2:      # RX2 hit
                        down += 1
                        script = "T,X" + lw.data_frame(5, ADDR, 0, down, b"", None, b"", NWK, APP).hex()
                    elif ev == 3:      # invalid frame in RX1, then timeouts
                        script = "X" + r.hex(r.range(1, 30)) + ",T"
                    else:
                        script = "X" + lw.data_frame(3, ADDR, 0, down + 1, b"", 7, b"zz", r.bytes(16), APP).hex() + ",T"
                    ops.append("send %s %d %d %s %s" % (r.hex(r.below(4)), r.range(1, 100), r.below(2), machist.draws(r, 30), script))
                for classc in (0, 1):
                    base = "adev r=%d lead=15 classc=%d %s" % (region, classc, sess)
                    # radio calls per send: at most ~12; inject a fault at every position
                    # single faults at every position, and outages (several radio calls in a row fail)
                    for fault in ["-"] + list(range(0, 14 * depth, 1 if tier == "thorough" else 2)) + ["%dx%d" % (k, n) for k in range(0, 14 * depth, 3) for n in (2, 40)]:
                        sc_ops = [o if not classc else o.rsplit(" ", 1)[0] + " " + ",".join("P," + x for x in o.rsplit(" ", 1)[1].split(",")) for o in ops]
                        lines.append("%s fault=%s | %s | fcnt" % (base, fault, " | ".join(sc_ops)))
                # nb: send / phy / timeouts
                nops = []
                for k in range(depth):
                    nops.append("send %s %d %d %s %s" % (r.hex(r.below(4)), r.range(1, 100), r.below(2), machist.draws(r, 30), r.choice(["txing", "txdone"])))
                    nops += ["phy txdone", "timeout", r.choice(["timeout", "phy rx" + r.hex(r.range(12, 30))]), "timeout", "timeout", "timeout"]
                for fault in ["-"] + list(range(0, 8 * depth, 1 if tier == "thorough" else 2)) + ["%dx%d" % (k, n) for k in range(0, 8 * depth, 3) for n in (2, 40)]:
                    lines.append("ndev r=%d fault=%s %s | %s | fcnt" % (region, fault, sess, " | ".join(nops)))
    return lines


def frontend_oracle(case, impl, model=None):
    """data frames handed to the radio, decoded by the reference codec: counters strictly increasing until SessionExpired"""
    if not case.startswith(("adev", "ndev")):
        return None
    m = re.search(r"session=[0-9a-f]+:[0-9a-f]+:\d+:(\d+)", case)
    start = int(m.group(1))
    counters, last = [], None
    # exhaustion: once the frame with counter 2^32-1 has been handed over, the device must report expiry -- not panic (in a build without
    # overflow checks the same code wraps to 0 and reuses counters)
    seen_last = False
    for part in impl.split(" ; "):
        if "SessionExpired" in part:
            break
        if seen_last and part.startswith("PANIC"):
            return {"kind": "uplink frame counter space exhausted but session expiry is not reported: the device panics on the counter "
                            "increment (arithmetic overflow; without overflow checks the counter wraps and is reused)", "start_counter": start}
        for fr in TX.findall(part):
            b = bytes.fromhex(fr[4])
            if len(b) >= 12 and (b[0] >> 5) in (2, 4) and b[6:8] == b"\xff\xff" and start >= 0xFFFF0000:
                seen_last = True
    # the property speaks about the frames up to the first reported session expiry
    impl = impl.split("SessionExpired")[0] + "SessionExpired ::" + impl.split("SessionExpired", 1)[1].split(" ; ")[0] if "SessionExpired" in impl else impl
    for fr in TX.findall(impl):
        b = bytes.fromhex(fr[4])
        if len(b) < 12 or (b[0] >> 5) not in (2, 4):
            continue
        d = None
        for hi in {start >> 16, ((start >> 16) + 1) & 0xFFFF}:
            d = lw.decode_uplink(b, NWK, APP, hi)
            if d and "fcnt32" in d:
                break
        if not d or "fcnt32" not in d:
            return {"kind": "uplink whose MIC does not verify under any counter consistent with the wire counter", "frame": b.hex()}
        n = d["fcnt32"]
        if last is not None and n <= last:
            return {"kind": "uplink frame counter repeated / went backwards within a session (same key and counter for two frames)",
                    "counters": counters[-3:] + [n]}
        counters.append(n)
        last = n
    return None


def gen_mac(rng, tier):
    lines = []
    for i in range(40 if tier == "quick" else 800):
        r = rng.fork("m%d" % i)
        net = machist.Net(r, i % 9)
        net.abp()
        net.op("patch up=%d" % r.choice([0, 0xFFFE, 0xFFFF, 0xFFFFFFFD, 0xFFFFFFFE, 0xFFFFFFFF]))
        for _ in range(r.range(3, 10)):
            net.send(r.bytes(r.below(5)), r.range(1, 200), r.chance(1, 3))
            k = r.below(4)
            if k == 0:
                net.downlink(port=3, payload=b"d", confirmed=r.chance(1, 2))
            elif k == 1:
                net.downlink(port=3, payload=b"x", nwk=r.bytes(16), accept=False)
                net.rx2c()
            else:
                net.rx2c()
            net.snap()
        lines.append(net.line())
    return lines


def run(rep, tier, rng):
    core.proof_stage(rep, ID, THEOREMS)
    if not core.build_both(rep):
        core.finish_proof_failures(rep)
        return
    lines = gen_mac(rng, tier)
    core.diff_stage(rep, "X:C06:mac-histories", lines, macstage.make_judge(KINDS))
    macstage.oracle_pass(rep, lines, KINDS)
    fe = frontend_histories(rng, tier)
    # the asynchronous front-end is modelled (Model/AsyncDev.v): model and implementation on the same histories
    adev = [l for l in fe if l.startswith("adev")] + adevhist.histories(rng.fork("adev"), tier)
    core.diff_stage(rep, "X:C06:async-front-end", adev, lambda c, i, m: frontend_oracle(c, i) if "session=" in c else None)
    ndev = [l for l in fe if l.startswith("ndev")] + ndevhist.histories(rng.fork("ndev"), tier)
    core.diff_stage(rep, "X:C06:nb-front-end", ndev, lambda c, i, m: frontend_oracle(c, i) if "session=" in c else None)
    fe = fe + [l for l in ndev + adev if "session=" in l and l not in set(fe)]
    io = core.run_lines(core.harness_bin(), fe)
    bad = 0
    frames = 0
    for c, o, v in zip(fe, io, core.pmap(frontend_oracle, fe, io)):
        frames += len(TX.findall(o))
        if v:
            bad += 1
            if bad <= 3:
                v.update({"case": c, "impl_output": o[:3000]})
                rep.violation(v, concrete=True)
    rep.cov["frontend_histories"] = {"histories": len(fe), "frames_handed_to_radio": frames, "violations": bad,
                                     "with_fault": sum(1 for c in fe if "fault=-" not in c)}
    rep.cov["evaluations"] = rep.cov.get("evaluations", 0) + len(fe)
    rep.cov["samples"].append({"case": fe[1][:400], "impl": io[1][:400]})
    rep.cov["rule"] = ("MAC level: model/implementation histories with counters patched to 0xFFFE..0xFFFF and 2^32-3..2^32-1; front-ends (async incl. Class C, "
                       "non-blocking): send / RX1 hit / RX2 hit / timeout / invalid frame histories with a radio fault injected at every radio-call position, "
                       "starting at counters 0, 0xFFFF, 2^32-2; every frame handed to the radio decoded by an independent codec and its 32-bit counter "
                       "required to be strictly increasing")
    core.finish_proof_failures(rep)
