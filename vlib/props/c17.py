"""C17 -- programmed frequency, TX power and RX timeout decode to what was requested."""
import re
from .. import core
from . import c09

ID = "C17"
THEOREMS = ["C17_sx126x_frequency", "C17_frequency_bytes", "C17_sx127x_frequency", "C17_sx126x_timeout", "C17_sx127x_timeout", "C17_adapter_window",
            "C17_sx126x_power", "C17_sx1276_power", "C17_sx1272_power", "C17_sx126x_status", "C17_sx127x_status"]
HEAD = "phy chip=%s tcxo=- dcdc=0 rxboost=0 txboost=%d fault=- regs=%s reads=%s fill=0 buf=-"
BW_HZ = [7810, 10420, 15630, 20830, 31250, 41670, 62500, 125000, 250000, 500000]


def chunks(xs, n):
    for i in range(0, len(xs), n):
        yield xs[i:i + n]


def lorawan_freqs():
    fs = set()
    for r in (4, 8):
        fs.update(c09.UPMAP[r])
    fs.update(923300000 + 600000 * i for i in range(8))
    for v in c09.JOIN_FREQS.values():
        fs.update(v)
    for lo, hi in ((863000000, 870000000), (433050000, 434790000), (865000000, 867000000), (915000000, 928000000), (902000000, 928000000)):
        fs.update(range(lo, hi + 1, 100000))
        fs.update((lo, lo + 100, hi - 100, hi))
    return sorted(fs)


def gen(rng, tier):
    lines = []
    freqs = lorawan_freqs() + [137000000, 137000001, 399999999, 400000000, 525000000, 525000001, 1020000000, 1019999999]
    step = 99991 if tier == "quick" else 997
    freqs += list(range(137000000, 1020000001, step))
    freqs += [rng.range(137000000, 1020000000) for _ in range(2000 if tier == "quick" else 50000)]
    for chip in ("sx1262", "sx1276"):
        for ch in chunks(freqs, 150):
            lines.append(HEAD % (chip, 0, "-", "-") + " | " + " | ".join("chan %d" % f for f in ch))
    powers = list(range(-128, 128)) + [-2147483648, 2147483647, -1000, 1000, 128, 255, 256, -129]
    for chip, boost in (("sx1261", 0), ("sx1262", 0), ("stm32wl_hp", 0), ("stm32wl_lp", 0), ("sx1276", 0), ("sx1276", 1), ("sx1272", 0), ("sx1272", 1)):
        for istx in (0, 1):
            for f in ("-", "868100000", "300000000"):
                for ch in chunks(powers, 70):
                    lines.append(HEAD % (chip, boost, "-", "-") + " | " + " | ".join("power %d %s %d" % (p, f, istx) for p in ch))
    ns = list(range(0, 1100)) + list(range(1100, 65536, 97 if tier == "quick" else 1)) + [65535, 65534, 32768]
    for chip in ("sx1262", "sx1276", "sx1272"):
        for ch in chunks(ns, 120):
            lines.append(HEAD % (chip, 0, "-", "-") + " | " + " | ".join("rx s %d" % n for n in ch))
    # raw status bytes
    pairs = [(r, 0) for r in range(256)] + [(0, s) for s in range(256)] + [(255, s) for s in range(256)]
    pairs += [(rng.below(256), rng.below(256)) for _ in range(3000)] if tier == "quick" else [(r, s) for r in range(256) for s in range(256)]
    for ch in chunks(pairs, 100):
        reads = "".join("%02x%02x%02x%02x" % (rng.choice([0, 4, 0x24]), r, s, rng.below(256)) for r, s in ch)
        lines.append(HEAD % ("sx1262", 0, "-", reads) + " | " + " | ".join("status" for _ in ch))
    for chip in ("sx1276", "sx1272"):
        for (r, s) in (pairs if tier != "quick" else pairs[:768] + pairs[768::4]):
            frf = rng.choice([(0xD9, 0x06, 0x66), (0x6C, 0x40, 0x00), (0x83, 0x40, 0x00), (0x83, 0x40, 0x01)])     # 868.1 / 433 / 525 MHz edge
            regs = "25:%d,26:%d,6:%d,7:%d,8:%d,27:%d" % (s, r, frf[0], frf[1], frf[2], r)
            lines.append(HEAD % (chip, 0, regs, "-") + " | status | rssi")
    for r in range(256):
        lines.append(HEAD % ("sx1262", 0, "-", "00%02x" % r) + " | rssi")
    return lines


# ---- independent decoding of what was written (datasheet formulas in python)
SX1262_ANCHOR = {(4, 7): (22, 22), (3, 5): (20, 22), (2, 3): (17, 22), (2, 2): (14, 22)}
SX1261_ANCHOR = {(6, 0): (15, 14), (4, 0): (14, 14), (1, 0): (10, 13)}
STM32WL_ANCHOR = dict(SX1262_ANCHOR)
STM32WL_ANCHOR[(2, 2)] = (14, 14)


def s8(b):
    return b - 256 if b > 127 else b


def oracle(case, impl, model=None):
    head = dict(kv.split("=", 1) for kv in case.split("|")[0].split()[1:])
    chip = head["chip"]
    ops = [p.strip() for p in case.split("|")][1:]
    outs = impl.split(" ; ")
    regs = dict((int(a), int(b)) for a, b in (p.split(":") for p in head["regs"].split(","))) if head["regs"] != "-" else {}
    reads = bytes.fromhex(head["reads"]) if head["reads"] != "-" else b""
    rpos = 0
    for op, o in zip(ops, outs):
        a = op.split()
        if o.startswith("PANIC"):
            return {"kind": "driver panicked on %s" % a[0], "op": op}
        res, _, trace = o.partition(" :: ")
        tw = [t for t in trace.split() if re.fullmatch(r"w[0-9a-f]+", t)]
        if a[0] == "chan" and res.startswith("Ok"):
            f = int(a[1])
            if chip.startswith("sx126") or chip.startswith("stm"):
                b = bytes.fromhex(tw[0][1:])
                steps = int.from_bytes(b[1:5], "big")
                if b[0] != 0x86 or abs(steps * 32000000 - f * (1 << 25)) >= (1 << 25):
                    return {"kind": "SX126x synthesiser word is more than 1 Hz from the requested frequency", "freq": f, "steps": steps}
                if abs(steps * 32000000 - f * (1 << 25)) * 2 > 32000000:
                    return {"kind": "SX126x synthesiser word is not the nearest step", "freq": f, "steps": steps}
            else:
                w = dict((int(t[1:3], 16) & 0x7f, int(t[3:5], 16)) for t in tw if len(t) == 5 and int(t[1:3], 16) & 0x80)
                frf = (w[6] << 16) | (w[7] << 8) | w[8]
                d = f * (1 << 19) - frf * 32000000
                if abs(d) >= 62 * (1 << 19):
                    return {"kind": "SX127x Frf is not within 62 Hz of the requested frequency", "freq": f, "frf": frf}
        elif a[0] == "power" and res.startswith("Ok"):
            p = int(a[1])
            if chip in ("sx1261", "sx1262", "stm32wl_hp", "stm32wl_lp"):
                pa = next(bytes.fromhex(t[1:]) for t in tw if t.startswith("w95"))
                tp = next(bytes.fromhex(t[1:]) for t in tw if t.startswith("w8e"))
                lp = chip in ("sx1261", "stm32wl_lp")
                table = SX1261_ANCHOR if lp else (STM32WL_ANCHOR if chip == "stm32wl_hp" else SX1262_ANCHOR)
                lo, hi = (-17, 15) if lp else (-9, 22)
                anchor = table.get((pa[1], pa[2]))
                txp = s8(tp[1])
                if anchor is None or pa[3] != (1 if lp else 0):
                    return {"kind": "SetPaConfig values are not a datasheet operating point for this PA", "paconfig": pa.hex()}
                if not ((-17 <= txp <= 14) if lp else (-9 <= txp <= 22)):
                    return {"kind": "SetTxParams power outside the legal range of the selected PA", "txparams": txp}
                out = anchor[0] - (anchor[1] - txp)
                want = max(lo, min(hi, p))
                if out != want:
                    return {"kind": "programmed output power differs from the request clamped into the chip's range", "request": p, "decoded": out, "expected": want}
            elif chip == "sx1276":
                w = dict((int(t[1:3], 16) & 0x7f, int(t[3:5], 16)) for t in tw if len(t) == 5 and int(t[1:3], 16) & 0x80)
                if 0x09 not in w or 0x4d not in w:
                    continue
                pc, pd = w[0x09], w[0x4d]
                op_, mx = pc & 15, (pc >> 4) & 7
                out10 = (10 * ((5 if pd == 0x87 else 2) + op_)) if pc & 0x80 else (108 + 6 * mx - 10 * (15 - op_))
                want = max(2, min(20, p)) if head["txboost"] == "1" else max(-4, min(14, p))
                if not (10 * want - 2 <= out10 <= 10 * want):
                    return {"kind": "SX1276 programmed output power is not the request clamped into the PA's range / is above the request", "request": p, "decoded_tenths": out10}
                if bool(pc & 0x80) != (head["txboost"] == "1"):
                    return {"kind": "SX1276 PaSelect does not follow the board's tx_boost setting"}
            else:
                w = dict((int(t[1:3], 16) & 0x7f, int(t[3:5], 16)) for t in tw if len(t) == 5 and int(t[1:3], 16) & 0x80)
                if 0x09 not in w or 0x5a not in w:
                    continue        # this request did not write both PA registers: the register-file stage (power request sequences) judges it
                pc, pd = w[0x09], w[0x5a]
                out = ((5 if pd == 0x87 else 2) + (pc & 15)) if pc & 0x80 else (pc & 15) - 1
                want = max(2, min(20, p)) if head["txboost"] == "1" else max(-1, min(14, p))
                if out != want:
                    return {"kind": "SX1272 programmed output power differs from the request clamped into the PA's range", "request": p, "decoded": out}
        elif a[0] == "rx" and a[1] == "s" and res.startswith("Ok"):
            n = int(a[2])
            if chip == "sx1262":
                val = next(int(t[3:5], 16) for t in tw if t.startswith("wa0"))
                if val < min(n, 248):
                    return {"kind": "SX126x symbol timeout shorter than requested", "requested": n, "programmed": val}
                reg = [t for t in tw if t.startswith("w0d0706")]
                if n > 0:
                    r = int(reg[0][7:9], 16)
                    mant, exp = r >> 3, r & 7
                    if mant * 2 ** (2 * exp + 1) != val:
                        return {"kind": "SX126x SynchTimeout register disagrees with SetLoRaSymbNumTimeout", "register": r, "value": val}
            else:
                w = dict((int(t[1:3], 16) & 0x7f, int(t[3:5], 16)) for t in tw if len(t) == 5 and int(t[1:3], 16) & 0x80)
                v = ((w[0x1e] & 3) << 8) | w[0x1f]
                if v != min(max(n, 4), 1023):
                    return {"kind": "SX127x symbol timeout differs from the request (clamped to 4..1023)", "requested": n, "programmed": v}
        elif a[0] == "status" and res.startswith("Ok(rssi"):
            m = re.match(r"Ok\(rssi=(-?\d+) snr=(-?\d+)\)", res)
            rssi, snr = int(m.group(1)), int(m.group(2))
            if chip == "sx1262":
                st, rr, ss = reads[rpos], reads[rpos + 1], reads[rpos + 2]
                rpos += 4
                if abs(rssi - (-rr / 2)) > 0.5 or abs(snr - s8(ss) / 4) > 0.5:
                    return {"kind": "SX126x packet status conversion off by more than rounding", "raw_rssi": rr, "raw_snr": ss, "rssi": rssi, "snr": snr}
            else:
                rr, ss = regs[26], regs[25]
                if chip == "sx1272":
                    off = -139
                else:
                    frf = (regs[6] << 16) | (regs[7] << 8) | regs[8]
                    off = -157 if (frf * 32000000) >> 19 > 525000000 else -164
                if abs(snr - s8(ss) / 4) >= 1:
                    return {"kind": "SX127x SNR conversion off by 1 dB or more", "raw_snr": ss, "snr": snr}
                exact = off + rr * 16 / 15 + (snr if snr < 0 else 0)
                if abs(rssi - exact) > 0.5 + 1e-9:
                    return {"kind": "SX127x packet RSSI conversion off by more than rounding", "raw_rssi": rr, "raw_snr": ss, "rssi": rssi, "expected": exact}
        elif a[0] == "status" and res.startswith("Err(OpError") and chip == "sx1262":
            rpos += 4
        elif a[0] == "rssi" and res.startswith("Ok") and chip == "sx1262":
            v = int(res[3:-1])
            if len(reads) == 2 and abs(v - (-reads[1] / 2)) > 0.5:
                return {"kind": "SX126x instantaneous RSSI conversion off", "raw": reads[1], "rssi": v}
    return None


def adapter_lines(rng, tier):
    lines = []
    for chip in ("sx1262", "sx1276"):
        for sf in range(8):
            for bw in range(10):
                if chip == "sx1276" and sf == 0:
                    continue
                mss = [0, 1, 5, 13, 50, 100, 333, 1000] + [rng.below(1001) for _ in range(4 if tier == "quick" else 60)]
                f = 868100000 if bw < 8 else 915000000
                lines.append("lwr chip=%s tcxo=- regs=- reads=- fill=0 buf=- | " % chip + " | ".join("setuprx %d %d 0 %d %d" % (sf, bw, f, ms) for ms in mss))
    return lines


def adapter_oracle(case, impl):
    chip = re.search(r"chip=(\S+)", case).group(1)
    ops = [p.strip() for p in case.split("|")][1:]
    for op, o in zip(ops, [x for x in impl.split(" ; ") if not x.startswith("new ")]):
        a = op.split()
        if o.startswith("PANIC"):
            return {"kind": "adapter panicked", "op": op}
        if not o.startswith("Ok"):
            continue
        sf, bw, ms = int(a[1]) + 5, int(a[2]), int(a[5])
        ts_us = (2 ** sf) * 1000000 // BW_HZ[bw]          # the library's microsecond-truncated symbol time
        need = 12.25 + ms * 1000 / ts_us
        m = re.search(r"mode=rxs(\d+)", o)
        n = int(m.group(1))
        if n < need:
            return {"kind": "adapter: symbols requested from the radio do not cover the preamble plus the margin", "symbols": n, "needed": need, "op": op}
        cap = 248 if chip == "sx1262" else 1023
        # and what reaches the chip (do_rx happens at rx time; here only the mode is set) -- checked by the rx s sweep above
        if n > 65535:
            return {"kind": "adapter: symbol count overflow"}
    return None


def power_history_lines(rng, tier):
    """SX127x: the PA registers after a SEQUENCE of power requests (PaDac is sticky across requests unless rewritten): every ordered pair
    over a grid of requests (thorough: every pair of -4..21), both PA paths, both chips; the register file is read back"""
    lines = []
    grid = list(range(-4, 22)) if tier == "thorough" else [-4, 0, 2, 5, 10, 14, 15, 17, 18, 19, 20, 21]
    for chip in ("sx1272", "sx1276"):
        for boost in (0, 1):
            for a in grid:
                for b in grid:
                    lines.append(HEAD % (chip, boost, "-", "-") + " | power %d - 1 | power %d - 1 | dumpregs" % (a, b))
    return lines


def power_history_oracle(case, impl):
    t = case.split(" | ")
    chip = "sx1272" if "chip=sx1272" in t[0] else "sx1276"
    boost = "txboost=1" in t[0]
    outs = impl.split(" ; ")
    if len(outs) < 3 or not outs[1].startswith("Ok"):
        return None
    m = re.search(r"regs=([0-9a-f]+)", outs[-1])
    if not m:
        return None
    regs = bytes.fromhex(m.group(1))
    pc = regs[0x09 - 1]
    pd = regs[(0x5a if chip == "sx1272" else 0x4d) - 1]
    p = int(t[2].split()[1])
    op_ = pc & 15
    if chip == "sx1272":
        out10 = 10 * (((5 if pd & 7 == 7 else 2) + op_) if pc & 0x80 else op_ - 1)
        want = max(2, min(20, p)) if boost else max(-1, min(14, p))
        lo10 = 10 * want
    else:
        mx = (pc >> 4) & 7
        out10 = (10 * ((5 if pd & 7 == 7 else 2) + op_)) if pc & 0x80 else (108 + 6 * mx - 10 * (15 - op_))
        want = max(2, min(20, p)) if boost else max(-4, min(14, p))
        lo10 = 10 * want - 2
    if not (lo10 <= out10 <= 10 * want):
        return {"kind": "SX127x: after a sequence of power requests the PA registers (PaConfig, PaDac) decode to another power than the last request "
                        "clamped into the PA's range", "chip": chip, "requests": [t[1], t[2]], "decoded_tenths_dBm": out10, "expected_dBm": want,
                "RegPaConfig": hex(pc), "RegPaDac": hex(pd)}
    return None


def run(rep, tier, rng):
    core.proof_stage(rep, ID, THEOREMS)
    if not core.build_both(rep):
        core.finish_proof_failures(rep)
        return
    lines = gen(rng, tier)
    core.diff_stage(rep, "X:C17:driver-operations(frequency, power, timeout, status)", lines, lambda c, i, m: oracle(c, i))
    io = core.run_lines(core.harness_bin(), lines)
    bad = 0
    nops = 0
    for c, o in zip(lines, io):
        nops += c.count("|")
        try:
            v = oracle(c, o)
        except Exception as e:
            v = {"kind": "driver output not understood by the decoder", "error": repr(e)}
        if v:
            bad += 1
            if bad <= 3:
                v.update({"case": c[:3000], "impl_output": o[:3000]})
                rep.violation(v, concrete=True)
    rep.cov["operations_decoded_by_the_datasheet_oracle"] = nops
    al = adapter_lines(rng, tier)
    core.diff_stage(rep, "X:C17:lorawan-adapter", al, lambda c, i, m: adapter_oracle(c, i))
    core.diff_stage(rep, "X:C17:sx127x power request sequences (register file)", power_history_lines(rng, tier), lambda c, i, m: power_history_oracle(c, i))
    ao = core.run_lines(core.harness_bin(), al)
    bad = 0
    for c, o in zip(al, ao):
        v = adapter_oracle(c, o)
        if v:
            bad += 1
            if bad <= 3:
                v.update({"case": c, "impl_output": o[:2000]})
                rep.violation(v, concrete=True)
    rep.cov["adapter_cases"] = sum(c.count("|") for c in al)
    rep.cov["rule"] = ("set_channel over every LoRaWAN channel frequency, band edges, a stride of %d Hz over 137-1020 MHz and random frequencies on SX1262 and SX1276; set_tx_power for every request "
                       "-128..127 and i32 extremes x {SX1261, SX1262, STM32WL HP/LP, SX1276 RFO/PA_BOOST, SX1272 RFO/PA_BOOST} x ramp x frequency band; symbol timeouts 0..1099 and a stride to 65535 "
                       "on SX1262/SX1276/SX1272; raw packet-status bytes (all 256 of each, pairs) on SX1262/SX1276/SX1272 incl. the 525 MHz offset boundary; the LoRaWAN adapter's ms->symbol conversion "
                       "for every (SF, BW) x margins 0..1000 ms; every written value decoded with datasheet formulas written independently in python" % (99991 if tier == "quick" else 997))
    core.finish_proof_failures(rep)
