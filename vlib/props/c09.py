"""C09 -- every transmission uses an enabled in-band channel, a legal data rate and power; channel selection terminates."""
import re
from .. import adevhist, ndevhist, core, machist, macstage, lw
from .c10 import DRS, FAM

ID = "C09"
THEOREMS = ["C09_plan_invariant_initial", "C09_plan_invariant_cflist", "C09_plan_invariant_new_channel", "C09_plan_invariant_dl_channel",
            "C09_dynamic_data_uplink", "C09_dynamic_join_request", "C09_fixed_data_uplink", "C09_join_data_rates", "C09_dynamic_usable_channel",
            "C09_fixed_usable_channel", "C09_dynamic_selection_progress", "C09_power_bound",
            "C09_termination_every_stream_refuted_join", "C09_termination_every_stream_refuted_data",
            "C09_every_selection_path_legal", "C09_send_transmission_legal", "C09_join_transmission_legal",
            "C09_nb_every_transmission_legal", "C09_nb_fresh_device",
            "C09_async_every_transmission_legal", "C09_async_fresh_device",
            "C09_dynamic_join_progress", "C09_fixed_selection_progress", "C09_every_enabled_channel_can_be_drawn",
            "C09_regional_constants_match_rp002", "C09_fixed_plan_channel_maps_match_rp002"]
FETX = re.compile(r"tx\[(\d+)/(\d+)/(\d+) pw=(-?\d+) ([0-9a-f]*)\]")
TXRE = re.compile(r"TX pw=(-?\d+) rf=(\d+)/(\d+)/(\d+)/(\d+)")
SNAP = re.compile(r"dr=(\d+) rx1_delay=(\d+) pw=(-?\d+) rx1off=(\d+) rx2dr=(-?\d+) rx2f=(-?\d+)")
# RP002, written independently of the implementation
BAND = {0: (915000000, 928000000), 1: (915000000, 928000000), 2: (915000000, 928000000), 3: (917000000, 920000000),
        4: (915000000, 928000000), 5: (863000000, 870000000), 6: (433050000, 434790000), 7: (865000000, 867000000), 8: (902000000, 928000000)}
MAX_EIRP = {0: 16, 1: 16, 2: 16, 3: 16, 4: 30, 5: 16, 6: 12.15, 7: 30, 8: 30}
JOIN_FREQS = {0: [923200000, 923400000], 1: [921400000, 921600000], 2: [916600000, 916800000], 3: [917300000, 917500000],
              5: [868100000, 868300000, 868500000], 6: [433175000, 433375000, 433575000], 7: [865062500, 865402500, 865985000]}
UPMAP = {8: [902300000 + 200000 * i for i in range(64)] + [903000000 + 1600000 * i for i in range(8)],
         4: [915200000 + 200000 * i for i in range(64)] + [915900000 + 1600000 * i for i in range(8)]}
JOIN_DR = {8: {False: (10, 7), True: (8, 9)}, 4: {False: (10, 7), True: (8, 9)}}   # US: DR0/DR4, AU: DR2/DR6 as (SF, BW index)
UPLINK_SFBW = {r: {v for k, v in DRS[FAM[r]].items() if k in machist.UPLINK_DR[r]} for r in range(9)}


def parse_plan(snap):
    """channel plan / mask of a snapshot -> ("dyn", [(freq|None)], maskbytes) or ("fix", maskbytes)"""
    tail = snap.split(" | ")[-1]
    m = re.search(r"dyn ch=(\S+) mask=\[([^\]]*)\]", tail)
    if m:
        chs = [None if c == "-" else int(c.split("/")[0]) for c in m.group(1).split(",")]
        return ("dyn", chs, [int(x, 16) for x in m.group(2).split(", ")])
    m = re.search(r"fix mask=\[([^\]]*)\]", tail)
    return ("fix", None, [int(x, 16) for x in m.group(1).split(", ")])


def bit(mask, i):
    return (mask[i // 8] >> (i % 8)) & 1 == 1


def usable(plan, wide=None):
    kind, chs, mask = plan
    if kind == "dyn":
        return any(chs[i] is not None and bit(mask, i) for i in range(16))
    return any(bit(mask, i) for i in (range(64, 72) if wide else range(64)))


def oracle(case, impl, model=None):
    parts = [p.strip() for p in case.split("|")]
    outs = impl.split(" ; ")
    head = dict(kv.split("=") for kv in parts[0].split()[1:] if "=" in kv)
    region, board, gain = int(head["r"]), int(head["p"]), int(head["g"])
    pre = None
    snapvals = None
    for i, op in enumerate(parts[1:]):
        if i >= len(outs):
            return None
        a, o = op.split(), outs[i]
        if o == "HANG" and a[0] in ("send", "otaa"):
            ds = [int(x) for x in a[4].split(",")]
            if a[0] == "send" and region in machist.FIXED or len(set(ds)) > 3:
                pass
            return {"kind": "channel selection did not terminate within the supplied random draws", "at_op": i, "op": op[:200], "ndraws": len(ds),
                    "distinct_draws": len(set(ds)), "state_before": (pre or "")[-400:]}
        if o == "PANIC" and a[0] in ("send", "otaa"):
            return {"kind": "transmission request panicked", "at_op": i, "op": op[:200], "state_before": (pre or "")[-400:]}
        if a[0] == "snap":
            pre = o
            m = SNAP.search(o)
            snapvals = [int(x) for x in m.groups()] if m else None
            continue
        if a[0] not in ("send", "otaa") or not o.startswith("TX"):
            continue
        pw, freq, sf, bw, _mp = [int(x) for x in TXRE.search(o).groups()]
        post = outs[i + 1] if i + 1 < len(outs) and parts[2 + i].startswith("snap") else None
        where = {"at_op": i, "op": op[:160], "tx": o[:120]}
        if not (BAND[region][0] <= freq <= BAND[region][1]):
            return dict(where, kind="transmission outside the region's band", freq=freq)
        if (sf, bw) not in UPLINK_SFBW[region]:
            return dict(where, kind="transmission with a data rate the region does not define for uplinks", sf=sf, bw=bw)
        join = a[0] == "otaa"
        if region in machist.FIXED:
            if freq not in UPMAP[region]:
                return dict(where, kind="fixed-plan transmission on a frequency that is no uplink channel", freq=freq)
            idx = UPMAP[region].index(freq)
            if (bw == 9) != (idx >= 64):
                return dict(where, kind="bandwidth of the data rate does not match the channel (125 kHz channels 0-63, 500 kHz channels 64-71)", channel=idx, sf=sf, bw=bw)
            if join and (sf, bw) != JOIN_DR[region][idx >= 64]:
                return dict(where, kind="join request not at the data rate the join channel mandates", channel=idx, sf=sf, bw=bw)
            if not join and post is not None:
                plan = parse_plan(post)
                if not bit(plan[2], idx):
                    return dict(where, kind="data uplink on a channel that is disabled in the channel mask", channel=idx, mask=plan[2])
        else:
            if join:
                if freq not in JOIN_FREQS[region]:
                    return dict(where, kind="join request on a frequency that is not a join channel", freq=freq)
            elif post is not None:
                plan = parse_plan(post)
                if not any(plan[1][k] == freq and bit(plan[2], k) for k in range(16)):
                    return dict(where, kind="data uplink on a frequency that is not a defined and enabled channel", freq=freq, channels=plan[1], mask=plan[2][:2])
        if not join and pre is not None and post is not None:
            pa, pb = parse_plan(pre), parse_plan(post)
            if usable(pa, bw == 9) and pa[2] != pb[2]:
                return dict(where, kind="a transmission changed the channel mask although a usable channel existed", before=pa[2], after=pb[2])
        # power
        limit = min(board, 127)
        if pw > limit:
            return dict(where, kind="conducted power above the radio's maximum", pw=pw, board_max=board)
        if pw > MAX_EIRP[region] - gain:
            return dict(where, kind="conducted power above regional maximum EIRP less antenna gain", pw=pw, max_eirp=MAX_EIRP[region], gain=gain)
        if not join and snapvals is not None and snapvals[2] >= 0 and pw > snapvals[2]:
            return dict(where, kind="power above the level the network last commanded", pw=pw, commanded=snapvals[2])
    return None


def cover(rng, n=40):
    """random draws followed by every residue 0..63 (so that a rejection sampler with a non-empty target set must terminate)"""
    return machist.draws(rng, n) + "," + ",".join(str(v + 64 * rng.below(1 << 24)) for v in range(64)) + "," + machist.draws(rng, 8)


def plan_history(rng, region, tier):
    """drives the channel plan / mask / data rate / power into corner states, a snapshot around every transmission"""
    board = rng.choice([0, 2, 10, 14, 20, 22, 30, 127, 200, 255])
    gain = rng.choice([0, 0, 2, -3, 6, 30, -128, 127])
    bias = "-"
    if region in machist.FIXED and rng.chance(1, 2):
        bias = "%d:%d" % (rng.range(1, 8), rng.choice([1, 2, 3, 10]))
    net = machist.Net(rng, region, board, gain, bias)
    otaa = rng.chance(2, 3)
    ok = machist.FREQ_OK[region]

    def tx(data=b"x", nd=80, first=None):
        net.snap()
        d = cover(rng, nd)
        if first is not None:
            d = "%d,%s" % (first, d)
        net.op("send %s 1 0 %s" % (core.hexs(data), d))
        net.snap()

    if otaa:
        for _ in range(rng.choice([1, 1, 2, 9])):
            net.snap()
            net.otaa_request(ndraws=140)
            net.snap()
            net.rx2c()
        net.snap()
        net.otaa_request(ndraws=140)
        net.snap()
        if region in machist.FIXED:
            cfl = rng.choice([b"", bytes(9), bytes(8) + b"\xff", bytes([1, 0, 0, 0, 0, 0, 0, 0, 0]), bytes([0, 0, 0, 0, 0, 0, 0, 0x80, 0]), rng.bytes(9), bytes([0xFF] * 9)])
            cfl = cfl + bytes(6) + b"\x01" if cfl else b""
        else:
            lo, hi = BAND[region]
            cfl = rng.choice([b"", None])
            if cfl is None:
                cfl = b"".join((rng.choice([ok, ok + 200000, 0, lo, hi, lo - 100, hi + 100, rng.below(1 << 24) * 100]) // 100).to_bytes(3, "little") for _ in range(5)) + b"\x00"
        net.join_accept(dl_settings=rng.below(256), rx_delay=1, cflist=cfl)
    else:
        net.abp()
    if rng.chance(1, 3):
        net.op("dr %d" % rng.choice(list(machist.UPLINK_DR[region])))
    tx()
    for _ in range(rng.range(1, 6 if tier == "quick" else 12)):
        k = rng.below(10)
        cmds = b""
        if k <= 2:
            if region in machist.FIXED:
                ctl = rng.choice([0, 1, 2, 3, 4, 5, 6, 7])
                m16 = rng.choice([0, 1, 3, 0xFF, 0xFF00, 0xFFFF, 1 << rng.below(16), rng.below(1 << 16)])
                nblk = rng.choice([1, 1, 2, 3])
                for b in range(nblk):
                    cmds += machist.link_adr(rng.choice([0, 1, 2, 3, 4, 5, 6, 8, 13, 15]), rng.choice([0, 1, 5, 10, 14, 15]), m16 if b == 0 else rng.below(1 << 16), ctl if b == 0 else rng.below(8))
            else:
                cmds = machist.link_adr(rng.choice([0, 1, 2, 3, 4, 5, 6, 7, 15]), rng.choice([0, 1, 2, 5, 7, 15]),
                                        rng.choice([1, 2, 4, 8, 7, 0x18, 0xFFFF, 0, 1 << rng.below(16), rng.below(1 << 16)]), rng.choice([0, 0, 0, 6, 5, 1]))
        elif k <= 5 and region not in machist.FIXED:
            idx = rng.choice([0, 2, 3, 3, 4, 5, 8, 15, 16])
            cmds = machist.new_channel(idx, rng.choice([ok, ok + 200000 * rng.below(4), 0, 0, BAND[region][0], BAND[region][1], BAND[region][1] + 100, rng.below(1 << 24) * 100]),
                                       rng.choice([5, 5, 6, 7, 15, 0]), rng.choice([0, 0, 3, 6]))
            if rng.chance(1, 2):
                cmds += machist.link_adr(15, 15, 1 << idx if idx < 16 else 1, 0)
        elif k == 6 and region not in machist.FIXED:
            cmds = machist.dl_channel(rng.choice([0, 1, 3, 4]), rng.choice([ok, ok + 400000, 0, rng.below(1 << 24) * 100]))
        elif k == 7:
            net.op("dr %d" % rng.choice(list(machist.UPLINK_DR[region])))
        elif k == 8:
            # ADR back-off: jump the ADR counter close to a back-off point
            net.op("patch adrcnt=%d" % rng.choice([95, 127, 159, 191, 223, 255]))
            tx()
            net.rx2c()
        else:
            cmds = machist.random_command(rng, region)
        if cmds:
            tx()
            net.downlink(cmds if len(cmds) <= 15 else b"", 0 if len(cmds) > 15 else None, cmds if len(cmds) > 15 else b"")
        tx()
        if rng.chance(1, 2):
            net.rx2c()
    return net


def bias_histories(rng, tier):
    """fixed plans with a join bias: a join accepted at the first / second attempt without a CFList, the application's data rate set to each
    uplink rate of the region (the 500 kHz rate included) before or after the join, then data uplinks while the bias is still in force"""
    lines = []
    for region in machist.FIXED:
        for dr in machist.UPLINK_DR[region]:
            for n in ((2, 10) if tier == "quick" else (1, 2, 3, 10)):
                for attempts in (1, 2):
                    for early in (False, True):
                        r = rng.fork("b%d.%d.%d.%d.%d" % (region, dr, n, attempts, early))
                        net = machist.Net(r, region, 22, 0, "%d:%d" % (r.range(1, 8), n))
                        if early:
                            net.op("dr %d" % dr)
                        for _ in range(attempts - 1):
                            net.snap()
                            net.otaa_request(ndraws=140)
                            net.snap()
                            net.rx2c()
                        net.snap()
                        net.otaa_request(ndraws=140)
                        net.snap()
                        net.join_accept(dl_settings=0, rx_delay=1, cflist=b"")
                        if not early:
                            net.op("dr %d" % dr)
                        for _ in range(4):
                            net.snap()
                            net.op("send 78 1 0 %s" % cover(r, 40))
                            net.snap()
                            net.rx2c()
                        lines.append(net.line())
    return lines


def single_channel_histories(rng, tier):
    """fixed plans: the network leaves exactly ONE channel enabled (each 500 kHz channel in turn with the 500 kHz data rate; the first and
    last 125 kHz channels with a 125 kHz rate); every later uplink must use that channel and the mask must stay as commanded"""
    lines = []
    for region in machist.FIXED:
        wide = 4 if region == 8 else 6
        cases = [(wide, 7, 1 << b) for b in range(8)] + [(0, 7, 0)]
        for dr, ctl, m16 in cases:
            for rep_ in range(1 if tier == "quick" else 4):
                r = rng.fork("sc%d.%d.%d.%d" % (region, dr, m16, rep_))
                net = machist.Net(r, region, 22, 0)
                net.abp()
                net.snap()
                net.op("send 78 1 0 %s" % cover(r, 40))
                net.snap()
                if m16:
                    net.downlink(machist.link_adr(dr, 15, m16, ctl), None, b"")
                else:
                    # only channel 0, then only channel 63
                    net.downlink(machist.link_adr(0, 15, 0x0000, 7) + machist.link_adr(0, 15, r.choice([0x0001]), 0), None, b"")
                for _ in range(5):
                    net.snap()
                    net.op("send 79 1 0 %s" % cover(r, 40))
                    net.snap()
                    net.rx2c()
                lines.append(net.line())
    return lines


def gen(rng, tier):
    lines = bias_histories(rng.fork("bias"), tier) + single_channel_histories(rng.fork("single"), tier)
    nh = 60 if tier == "quick" else 240      # thorough: ~50 000 histories (700 took 18 minutes)
    for region in range(9):
        r = rng.fork("p%d" % region)
        for k in range(nh):
            net = plan_history(r.fork("h%d" % k), region, tier)
            base = list(net.ops)
            lines.append(net.line())
            # every outcome of the first draw from the reached state
            if k % (6 if tier == "quick" else 3) == 0:
                for v in range(64):
                    net.ops = list(base)
                    net.snap()
                    net.op("send 01 1 0 %d,%s" % (v + 64 * r.below(1 << 20), cover(r, 40)))
                    net.snap()
                    lines.append(net.line())
                net.ops = base
    return lines


LA01 = None


def known_probes():
    """degenerate random streams: every draw misses although a usable channel exists (known finding rejection-sampling-degenerate-stream)"""
    nwk, app = bytes([1] * 16), bytes([2] * 16)
    la = lw.data_frame(3, 1, 0, 0, machist.link_adr(15, 15, 0x0003, 0) + machist.link_adr(15, 15, 0x0000, 1)[0:0], None, b"", nwk, app)
    la7 = lw.data_frame(3, 1, 0, 0, machist.link_adr(15, 15, 0x0000, 7) + machist.link_adr(15, 15, 0x0003, 0), None, b"", nwk, app)
    return [
        ("mac r=5 p=14 g=0 | otaa 1 2 000102030405060708090a0b0c0d0e0f 7," + ",".join(["3"] * 64),
         "EU868 join request with every channel draw = 3 (>= NUM_JOIN_CHANNELS)"),
        ("mac r=8 p=14 g=0 | abp %s %s 1 | send 01 1 0 %s | rx %s 0 250 | snap | send 01 1 0 %s" % (nwk.hex(), app.hex(), ",".join(["1"] * 8), la7.hex(), ",".join(["5"] * 64)),
         "US915 data uplink with only channels 0 and 1 enabled and every channel draw = 5"),
    ]


def frontend_oracle(case, impl, model=None):
    """every frame a front-end hands to the radio: in band / on the uplink channel map with the bandwidth of its kind, a LoRa data rate the
    region allows for uplinks (join requests: a default join channel / the join data rate of the channel kind), power <= 127 and <= the EIRP limit"""
    region = int(re.search(r"r=(\d+)", case).group(1))
    for f, sf, bw, pw, frame in FETX.findall(impl):
        f, sf, bw, pw = int(f), int(sf), int(bw), int(pw)
        join = frame.startswith("00")
        lo, hi = BAND[region]
        if not lo <= f <= hi:
            return {"kind": "front-end transmission outside the region's band", "freq": f, "band": [lo, hi]}
        if region in UPMAP:
            if f not in UPMAP[region]:
                return {"kind": "front-end transmission on a frequency that is not an uplink channel of the fixed plan", "freq": f}
            wide = UPMAP[region].index(f) >= 64
            if (bw == 9) != wide:
                return {"kind": "front-end transmission: bandwidth does not match the channel kind", "freq": f, "bw_index": bw}
            if join and (sf, bw) != JOIN_DR[region][wide]:
                return {"kind": "join request not at the join data rate of its channel kind", "sf_bw": [sf, bw]}
        elif join and f not in JOIN_FREQS[region]:
            return {"kind": "join request not on a default join channel", "freq": f}
        if (sf, bw) not in UPLINK_SFBW[region]:
            return {"kind": "front-end transmission at a data rate the region does not allow for uplinks", "sf_bw": [sf, bw]}
        if pw > 127 or pw > MAX_EIRP[region]:
            return {"kind": "front-end transmission above the regional power limit", "pw": pw}
    return None


def run(rep, tier, rng):
    core.proof_stage(rep, ID, THEOREMS)
    if not core.build_both(rep):
        core.finish_proof_failures(rep)
        return
    lines = gen(rng, tier)
    core.diff_stage(rep, "X:C09:mac-histories(tx)", lines, macstage.make_judge([], extra=oracle))
    macstage.oracle_pass(rep, lines, [], extra=oracle)
    # the front-ends (C09_nb_every_transmission_legal speaks of nb_device through this correspondence; async_device drives the same MAC)
    fe = ndevhist.histories(rng.fork("ndev"), tier) + adevhist.histories(rng.fork("adev"), tier)
    core.diff_stage(rep, "X:C09:front-ends", fe, frontend_oracle)
    # known finding: the literal "every random stream"
    known = core.load_known(ID)
    probes = known_probes()
    po = core.run_lines(core.harness_bin(), [c for c, _ in probes])
    for (c, what), o in zip(probes, po):
        if o.split(" ; ")[-1] == "HANG":
            if "rejection-sampling-degenerate-stream" in known:
                rep.known("id=rejection-sampling-degenerate-stream %s: the retry loop keeps drawing (theorems C09_termination_every_stream_refuted_*)" % what)
            else:
                rep.violation({"kind": "channel selection does not terminate on a random stream that never hits a usable channel", "case": c, "impl_output": o[-300:]}, concrete=True)
    rep.cov["known_finding_probes"] = len(probes)
    rep.cov["rule"] = ("9 regions x board power {0..255} x antenna gain {-128..127} x join bias x histories of JoinAccept CFLists (empty / 500 kHz only / single channel / random / out of band), "
                       "LinkADRReq blocks (all ChMaskCntl, data rates, powers), NewChannelReq create/remove, DlChannelReq, set_datarate, ADR back-off points; a state snapshot before and after "
                       "every transmission; from every 3rd/6th reached state all 64 outcomes of the first channel draw; judged by band / channel-map / data-rate / power rules written from RP002")
    core.finish_proof_failures(rep)
