"""C10 -- receive windows follow the regional parameters in force when the uplink was sent."""
import re
from .. import adevhist, chanops, core, machist, macstage, lw, ndevhist

ID = "C10"
THEOREMS = ["C10_rx1_rule", "C10_window_dr_total", "C10_no_panic_in_window_config", "C10_windows_from_the_uplink",
            "C10_delays", "C10_class_c_uses_rx2", "C10_fixed_plan_pairing",
            "C10_async_class_a_window_schedule", "C10_async_class_c_window_schedule", "C10_nb_class_a_window_schedule", "C10_schedule_premises_met", "C10_rx2_default_frequency", "C10_protocol_constants"]
TXRE = re.compile(r"TX pw=(-?\d+) rf=(\d+)/(\d+)/(\d+)/(\d+) rx1=(\d+)/(\d+)/(\d+)/(\d+) rx2=(\d+)/(\d+)/(\d+)/(\d+)")
# (SF, BW index) of the LoRa data rates per region family, from RP002 (not from the implementation)
DRS = {
    "eu": {0: (12, 7), 1: (11, 7), 2: (10, 7), 3: (9, 7), 4: (8, 7), 5: (7, 7), 6: (7, 8)},
    "us": {0: (10, 7), 1: (9, 7), 2: (8, 7), 3: (7, 7), 4: (8, 9), 8: (12, 9), 9: (11, 9), 10: (10, 9), 11: (9, 9), 12: (8, 9), 13: (7, 9)},
    "au": {0: (12, 7), 1: (11, 7), 2: (10, 7), 3: (9, 7), 4: (8, 7), 5: (7, 7), 6: (8, 9), 8: (12, 9), 9: (11, 9), 10: (10, 9), 11: (9, 9), 12: (8, 9), 13: (7, 9)},
}
FAM = {0: "eu", 1: "eu", 2: "eu", 3: "eu", 4: "au", 5: "eu", 6: "eu", 7: "eu", 8: "us"}
RX2DR = {0: 2, 1: 2, 2: 2, 3: 2, 4: 8, 5: 0, 6: 0, 7: 2, 8: 8}
US_DOWN = [923300000 + 600000 * i for i in range(8)]
BANDS = {0: (915000000, 928000000), 1: (915000000, 928000000), 2: (915000000, 928000000), 3: (917000000, 920000000),
         4: (915000000, 928000000), 5: (863000000, 870000000), 6: (433050000, 434790000), 7: (865000000, 867000000), 8: (902000000, 928000000)}


# RP002: largest RX1DROffset each region defines (AS923-1..4, AU915, EU868, EU433, IN865, US915)
RP_MAX_RX1_OFFSET = {0: 7, 1: 7, 2: 7, 3: 7, 4: 5, 5: 5, 6: 5, 7: 7, 8: 3}


def rp_rx1(region, dr, off):
    if region == 8:
        return min(13, max(8, 10 + dr - off)) if dr <= 4 and off <= 3 else None
    if region == 4:
        return min(13, max(8, 8 + dr - off)) if dr <= 6 and off <= 5 else None
    return max(dr - off, 0) if dr <= 5 and off <= 5 else None


def window_case(rng, region, dr, off, rx2dr, delay, rx2freq):
    net = machist.Net(rng, region)
    net.abp()
    net.op("dr %d" % dr)
    net.send(b"", 1, False, ndraws=40)
    cmds = machist.rx_param_setup(off, rx2dr, rx2freq) + machist.rx_timing(delay)
    net.downlink(cmds, None, b"")
    net.op("delays")
    net.snap()
    if region not in machist.FIXED and rng.chance(1, 2):
        net.send(b"", 1, False, ndraws=40)
        net.downlink(machist.dl_channel(rng.below(3), machist.FREQ_OK[region] + 200000 * rng.below(3)), None, b"")
    net.send(b"p", 2, False, ndraws=60)
    net.rx2c()
    net.op("rxcfg")
    return net.line()


def gen(rng, tier):
    lines = []
    for region in range(9):
        r = rng.fork("w%d" % region)
        for dr in machist.UPLINK_DR[region]:
            for off in range(8):
                for k in range(1 if tier == "quick" else 6):
                    rx2dr = r.choice([15, RX2DR[region], r.choice(list(machist.DEFINED[region]))])
                    lines.append(window_case(r, region, dr, off, rx2dr, (dr * 8 + off + k * 5) % 16, r.choice([machist.RX2[region], machist.FREQ_OK[region]])))
        # joins: fixed-plan join channels force the data rate; all 72 channels are reached by varying the draws
        for k in range(40 if tier == "quick" else 600):
            net = machist.Net(r, region, bias=("-" if k % 3 else "%d:%d" % (1 + k % 8, 1 + k % 3)))
            for _ in range(r.range(1, 4)):
                net.otaa_request(ndraws=30)
                net.rx2c()
            net.op("delays")
            lines.append(net.line())
        # JoinAccept DLSettings: every RX1DROffset x a few RX2 data rates, then uplinks at every data rate of the region
        for joff in range(8):
            for rx2 in ([RX2DR[region]] if tier == "quick" else [RX2DR[region], 0, r.choice(list(machist.DEFINED[region]))]):
                net = machist.Net(r, region)
                net.otaa_request(ndraws=30)
                if joff % 2 == 0:
                    # a previous session with another RxDelay: the re-join's value (0 = one second) replaces it
                    net.join_accept(dl_settings=0, rx_delay=r.choice([3, 7, 15]), cflist=b"")
                    net.snap()
                    net.send(b"p", 1, False, ndraws=40)
                    net.rx2c()
                    net.otaa_request(ndraws=30)
                net.join_accept(dl_settings=(joff << 4) | rx2, rx_delay=r.choice([0, 1, 2, 5]), cflist=b"")
                net.snap()
                for dr in machist.UPLINK_DR[region]:
                    net.op("dr %d" % dr)
                    net.send(b"j", 1, False, ndraws=40)
                    net.rx2c()
                lines.append(net.line())
        for k in range(30 if tier == "quick" else 500):
            lines.append(machist.random_history(r.fork("h%d" % k), region, 15, classc=True))
    lines += chanops.gen(rng, tier, lambda q: machist.draws(q, 40) + "," + ",".join(str(v) for v in range(32)))
    return lines


def oracle(case, impl, model=None):
    parts = [p.strip() for p in case.split("|")]
    outs = impl.split(" ; ")
    region = int(re.search(r"r=(\d+)", parts[0]).group(1))
    fam = DRS[FAM[region]]
    inv = {v: k for k, v in fam.items()}
    off = rx2dr = rx2f = None
    appkey = join_off = join_delay = None
    delay = 1000
    exp_dl = {}          # channel index -> downlink frequency negotiated by an effective DlChannelReq (dynamic plans)
    track = region not in machist.FIXED
    plan = None
    for i, op in enumerate(parts[1:]):
        if i >= len(outs) or outs[i] in ("PANIC", "HANG"):
            return None
        a, o = op.split(), outs[i]
        if a[0] in ("abp", "otaa"):
            exp_dl = {}
        if a[0] == "otaa":
            appkey = bytes.fromhex(a[3])
        if a[0] == "rx" and appkey is not None and o.startswith("JoinSuccess"):
            # the JoinAccept's DLSettings are in force from the join on (there is no answer that could refuse them): decrypt it as the
            # device does (AES-encrypt the body) and remember the RX1 offset when RP002 defines it for the region
            body = bytes.fromhex(a[1])[1:]
            pt = b"".join(lw.aes_enc(appkey, body[k:k + 16]) for k in range(0, len(body) - len(body) % 16, 16))
            if len(pt) >= 12:
                joff = (pt[10] >> 4) & 7
                join_off = joff if joff <= RP_MAX_RX1_OFFSET[region] else None
                join_delay = 1000 if (pt[11] & 15) <= 1 else (pt[11] & 15) * 1000      # RxDelay: 0 and 1 both mean one second
        if a[0] == "snap" and join_delay is not None:
            md = re.search(r"rx1_delay=(\d+)", o)
            if md:
                if int(md.group(1)) != join_delay:
                    return {"kind": "the RX1 delay of the accepted JoinAccept (RxDelay, 0 = 1 s) is not in force", "join_accept_delay_ms": join_delay,
                            "device_delay_ms": int(md.group(1))}
                join_delay = None
        if a[0] == "snap" and join_off is not None:
            mj = re.search(r"rx1off=(\d+)", o)
            if mj:
                if int(mj.group(1)) != join_off:
                    return {"kind": "the RX1 data-rate offset of the accepted JoinAccept (valid for the region) is not in force", "join_accept_offset": join_off,
                            "device_offset": int(mj.group(1))}
                join_off = None
        if a[0] == "snap":
            mm = re.search(r"dyn ch=(\S+) mask=\[([^\]]*)\]", o)
            if mm:
                plan = ([None if c == "-" else int(c.split("/")[0]) for c in mm.group(1).split(",")], [int(x, 16) for x in mm.group(2).split(", ")])
        if track and a[0] == "rx" and o.startswith("DownlinkReceived"):
            f = bytes.fromhex(a[1])
            fl = f[5] & 15
            body = f[8 + fl:-4]
            if body and body[0] == 0:
                track = False                       # encrypted port-0 commands: stop tracking for this history
            k, fo = 0, f[8:8 + fl]
            while track and k < len(fo):
                cid = fo[k]
                ln = {2: 2, 3: 4, 4: 1, 5: 4, 6: 0, 7: 5, 8: 1, 9: 1, 10: 4, 13: 5}.get(cid)
                if ln is None or k + 1 + ln > len(fo):
                    break
                p = fo[k + 1:k + 1 + ln]
                k += 1 + ln
                if cid == 3:
                    plan = None                     # mask may change: wait for the next snapshot
                if cid == 7:
                    exp_dl.pop(p[0], None)
                    plan = None
                if cid == 10:
                    idx, fq = p[0], int.from_bytes(p[1:4], "little") * 100
                    if plan is None:
                        track = False
                    elif idx < 16 and plan[0][idx] is not None and (plan[1][idx // 8] >> (idx % 8)) & 1 and BANDS[region][0] <= fq <= BANDS[region][1]:
                        if fq == plan[0][idx]:
                            exp_dl.pop(idx, None)
                        else:
                            exp_dl[idx] = fq
        if a[0] == "snap":
            m = re.search(r"rx1_delay=(\d+) pw=-?\d+ rx1off=(\d+) rx2dr=(-?\d+) rx2f=(-?\d+)", o)
            if m:
                delay, off, rx2dr, rx2f = int(m.group(1)), int(m.group(2)), int(m.group(3)), int(m.group(4))
        elif a[0] == "delays":
            d = [int(x) for x in o.split()]
            if d[1] != d[0] + 1000 or d[2] != 5000 or d[3] != 6000:
                return {"kind": "receive delays: RX2 must be RX1 + 1 s, join windows 5 s / 6 s", "delays": d}
        elif a[0] in ("send", "otaa") and o.startswith("TX") and off is not None:
            m = TXRE.search(o)
            g = [int(x) for x in m.groups()]
            txdr = inv.get((g[2], g[3]))
            rx1dr = inv.get((g[6], g[7]))
            want = rp_rx1(region, txdr, off) if txdr is not None else None
            if want is not None and want in fam and rx1dr != want and (g[6], g[7]) != fam.get(want):
                return {"kind": "RX1 data rate differs from the regional RX1 table for (uplink data rate, RX1 offset)",
                        "uplink_dr": txdr, "offset": off, "rx1": (g[6], g[7]), "expected_dr": want}
            if track and a[0] == "send" and i + 1 < len(outs) and parts[2 + i].startswith("snap"):
                mm = re.search(r"dyn ch=(\S+) mask=", outs[i + 1])
                if mm:
                    uls = [None if c == "-" else int(c.split("/")[0]) for c in mm.group(1).split(",")]
                    cands = [k for k, u in enumerate(uls) if u == g[1]]
                    if len(cands) == 1:
                        want1 = exp_dl.get(cands[0], g[1])
                        if g[5] != want1:
                            return {"kind": "RX1 is not on the downlink frequency paired with the uplink channel (DlChannelReq in force, else the uplink frequency)",
                                    "channel": cands[0], "uplink_freq": g[1], "rx1_freq": g[5], "expected": want1}
            if region in (4, 8):
                # RX1 frequency = downlink channel (uplink channel index mod 8)
                if g[5] not in US_DOWN:
                    return {"kind": "fixed-plan RX1 frequency is not a downlink channel", "rx1_freq": g[5]}
            exp_rx2f = rx2f if rx2f not in (None, -1) else machist.RX2[region]
            if g[9] != exp_rx2f:
                return {"kind": "RX2 frequency is neither the negotiated nor the regional default one", "rx2_freq": g[9], "expected": exp_rx2f}
            exp_rx2dr = rx2dr if rx2dr not in (None, -1) else RX2DR[region]
            if exp_rx2dr in fam and (g[10], g[11]) != fam[exp_rx2dr]:
                return {"kind": "RX2 data rate is neither the negotiated nor the regional default one", "rx2": (g[10], g[11]), "expected_dr": exp_rx2dr}
    return None


def async_timing(rng, tier):
    """both front-ends' timing arithmetic: RX1 = delay + end of TX - lead, RX2 = RX1 + 1 s; join 5 s / 6 s"""
    lines = []
    nwk, app = bytes([2] * 16), bytes([1] * 16)
    for region in (5, 8, 0):
        for delay in range(0, 16, 1 if tier == "thorough" else 3):
            for lead in (0, 15, 100):
                f = lw.data_frame(3, 5, 0, 1, machist.rx_timing(delay), None, b"", nwk, app)
                sess = "session=%s:%s:5:0" % (nwk.hex(), app.hex())
                for cc in (0, 1):
                    lines.append("adev r=%d lead=%d classc=%d fault=- %s | send 01 1 0 %s X%s | send 02 1 0 %s T,T" % (
                        region, lead, cc, sess, machist.draws(rng, 30), f.hex(), machist.draws(rng, 30)))
                lines.append("ndev r=%d fault=- %s | send 01 1 0 %s txdone | timeout | phy rx%s | send 02 1 0 %s txdone | timeout | timeout | timeout | timeout" % (
                    region, sess, machist.draws(rng, 30), f.hex(), machist.draws(rng, 30)))
        lines.append("adev r=%d lead=15 classc=0 fault=- | join 1 2 000102030405060708090a0b0c0d0e0f %s T,T" % (region, machist.draws(rng, 30)))
        lines.append("ndev r=%d fault=- | join 1 2 000102030405060708090a0b0c0d0e0f %s txdone | timeout | timeout | timeout | timeout" % (region, machist.draws(rng, 30)))
    return lines


def classc_listening(rng, tier):
    """Class C through the asynchronous front-end: a downlink in RX1 (or RX2) carries a valid RXParamSetupReq; from the moment it is
    processed the continuous listening must use the NEW RX2 frequency and data rate (the request is answered 0b111 in the next uplink)"""
    lines = []
    nwk, app = adevhist.NWK, adevhist.APP
    for region in range(9):
        for rx2dr in list(machist.DEFINED[region])[:: (1 if tier == "thorough" else 2)]:
            for win in (1, 2):
                f = lw.data_frame(3, adevhist.ADDR, 0, 1, machist.rx_param_setup(0, rx2dr, machist.FREQ_OK[region]), None, b"", nwk, app)
                sess = "session=%s:%s:%d:0" % (nwk.hex(), app.hex(), adevhist.ADDR)
                ev = "P,X%s" % f.hex() if win == 1 else "P,T,P,X%s" % f.hex()
                lines.append("adev r=%d lead=15 classc=1 fault=- bias=- %s | send 01 1 0 %s %s | send 02 1 0 %s P,T,P,T" % (
                    region, sess, machist.draws(rng, 30), ev, machist.draws(rng, 30)))
    return lines


def classc_oracle(case, impl):
    region = int(re.search(r"r=(\d+)", case).group(1))
    fr = bytes.fromhex(case.split(",X")[1].split()[0])
    rx2dr, freq = fr[9] & 15, int.from_bytes(fr[10:13], "little") * 100
    outs = impl.split(" ; ")
    if not outs[0].startswith("DownlinkReceived"):
        return None
    conts = re.findall(r"setup_rx\[(\d+)/(\d+)/(\d+)/\d+ cont\]", outs[0])
    want = DRS[FAM[region]].get(rx2dr)
    if conts and want is not None:
        f, sf, bw = (int(x) for x in conts[-1])
        if f != freq or (sf, bw) != want:
            return {"kind": "Class C: after a downlink carrying a valid RXParamSetupReq the continuous listening is not set up with the new RX2 parameters",
                    "listening": [f, sf, bw], "commanded": [freq, want[0], want[1]]}
    return None


def timing_oracle(case, impl):
    outs = impl.split(" ; ")
    if case.startswith("adev"):
        lead = int(re.search(r"lead=(\d+)", case).group(1))
        if "| join" in case:
            ats = [int(x) for x in re.findall(r"timer\.at\((\d+)\)", outs[0])]
            if ats[:2] != [5000 + 100 - lead, 6000 + 100 - lead]:
                return {"kind": "join windows not at 5 s / 6 s after end of transmission less the lead time", "timer_at": ats}
            return None
        f = bytes.fromhex(case.split(" X")[1].split()[0])
        d = f[9] & 15
        delay = 1000 if d <= 1 else d * 1000
        ats1 = [int(x) for x in re.findall(r"timer\.at\((\d+)\)", outs[0])]
        ats2 = [int(x) for x in re.findall(r"timer\.at\((\d+)\)", outs[1])] if len(outs) > 1 else []
        if ats1[:1] != [1000 + 100 - lead]:
            return {"kind": "RX1 not opened at the delay in force when the uplink was sent", "timer_at": ats1}
        if ats2[:2] != [delay + 100 - lead, delay + 1000 + 100 - lead]:
            return {"kind": "RX1/RX2 timing differs from negotiated delay + end of TX - lead (RX2 = RX1 + 1 s)", "timer_at": ats2, "delay": delay}
    else:
        reqs = [int(x) for x in re.findall(r"TimeoutRequest\((\d+)\)", impl)]
        if "| join" in case:
            if reqs[:1] != [5000 + 100 - 15] or (len(reqs) > 2 and reqs[2] != 6000 + 100 - 15):
                return {"kind": "nb join windows not at 5 s / 6 s", "timeouts": reqs}
            return None
        f = bytes.fromhex(case.split("phy rx")[1].split()[0])
        d = f[9] & 15
        delay = 1000 if d <= 1 else d * 1000
        # first uplink: t1 = 1000 + 100 - 15; second uplink: t1 = delay + 100 - 15, t2 = t1 + 1000
        if reqs[:1] != [1085]:
            return {"kind": "nb RX1 not at delay + end of TX + offset", "timeouts": reqs}
        second = reqs[2:] if len(reqs) >= 3 else []
        if second and second[0] != delay + 85:
            return {"kind": "nb RX1 of the next uplink does not use the negotiated delay", "timeouts": reqs, "delay": delay}
        if len(second) >= 3 and second[2] != delay + 85 + 1000:
            return {"kind": "nb RX2 is not RX1 + 1 s", "timeouts": reqs}
    return None


def run(rep, tier, rng):
    core.proof_stage(rep, ID, THEOREMS)
    if not core.build_both(rep):
        core.finish_proof_failures(rep)
        return
    lines = gen(rng, tier)
    core.diff_stage(rep, "X:C10:mac-histories(windows)", lines, macstage.make_judge([], extra=oracle))
    macstage.oracle_pass(rep, lines, [], extra=oracle)
    tl = async_timing(rng, tier)

    def tjudge(c, i, m):
        try:
            return timing_oracle(c, i)
        except Exception as e:
            return {"kind": "front-end timing output not understood", "error": repr(e)}
    # both front-ends are modelled (Model/AsyncDev.v, Model/NbDev.v): the schedule theorems speak of the code through this correspondence
    core.diff_stage(rep, "X:C10:front-end-timing", tl, tjudge)
    fe = adevhist.histories(rng.fork("adev"), tier) + ndevhist.histories(rng.fork("ndev"), tier)
    core.diff_stage(rep, "X:C10:front-end-histories", fe, lambda c, i, m: None)
    core.diff_stage(rep, "X:C10:class-c-listening-after-rxparamsetup", classc_listening(rng.fork("cc"), tier), lambda c, i, m: classc_oracle(c, i))
    rep.cov["frontend_timing_cases"] = len(tl)
    rep.cov["rule"] = ("9 regions x every uplink data rate x RX1 offsets 0..7 x RX2 overrides x RxDelay 0..15 x DlChannelReq mappings; joins over the fixed-plan channels "
                       "(biased and unbiased); Class C configuration; both front-ends' Timer::at / TimeoutRequest arguments for every RxDelay and several lead times; "
                       "windows judged against RP002 rules written independently of the code's tables")
    core.finish_proof_failures(rep)
