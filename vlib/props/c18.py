"""C18 -- reading a received packet never overruns the caller's buffer."""
import re
from .. import core

ID = "C18"
THEOREMS = ["C18_sx126x_length_check", "C18_sx127x_length_check", "C18_sx126x_never_overruns", "C18_sx127x_never_overruns", "C18_rest_of_buffer_untouched"]
BUFS = [0, 1, 12, 64, 255, 256]
CHIPBUF = bytes((i * 7 + 3) & 0xFF for i in range(256))


def gen(rng, tier):
    lines = []
    lens = range(256) if tier != "quick" else list(range(0, 20)) + list(range(20, 256, 7)) + [63, 64, 65, 254, 255]
    offs = range(256) if tier != "quick" else [0, 1, 2, 128, 200, 250, 254, 255] + [rng.below(256) for _ in range(4)]
    for ln in lens:
        for off in (offs if tier != "quick" or ln % 5 == 0 else [0, 255, rng.below(256)]):
            for implicit in (0, 1):
                for status in (0x00, 0x04, 0x24, 0x06, 0x08, 0x0A, 0xFF, 0x2C):
                    if tier == "quick" and status not in (0x04, 0x0A) and (ln + off) % 4:
                        continue
                    cfg_len = rng.choice([ln, 0, 255, rng.below(256)])
                    ops = " | ".join("rxpayload %d %d %d" % (implicit, cfg_len, b) for b in BUFS)
                    # SX126x: GetRxBufferStatus answers (status, len, offset) per call; implicit mode reads register 0x0702
                    reads = ("%02x%02x%02x" % (status, ln, off)) * len(BUFS)
                    lines.append("phy chip=sx1262 tcxo=- dcdc=0 rxboost=0 txboost=0 fault=- regs=1794:%d reads=%s fill=0 buf=%s | %s" % (cfg_len, reads, CHIPBUF.hex(), ops))
                    if status in (0x00, 0x04):
                        lines.append("phy chip=sx1276 tcxo=- dcdc=0 rxboost=0 txboost=0 fault=- regs=19:%d,16:%d reads=- fill=0 buf=%s | %s" % (ln, off, CHIPBUF.hex(), ops))
    # a fault at every pin event of the routine
    for k in range(12):
        for chip, regs in (("sx1262", "1794:5"), ("sx1276", "19:5,16:3")):
            lines.append("phy chip=%s tcxo=- dcdc=0 rxboost=0 txboost=0 fault=%d regs=%s reads=000503 fill=0 buf=%s | rxpayload 0 5 16 | rxpayload 1 5 16" % (chip, k, regs, CHIPBUF.hex()))
    return lines


def oracle(case, impl, model=None):
    head = dict(kv.split("=", 1) for kv in case.split("|")[0].split()[1:])
    chip = head["chip"]
    regs = dict((int(a), int(b)) for a, b in (p.split(":") for p in head["regs"].split(",")))
    reads = bytes.fromhex(head["reads"]) if head["reads"] != "-" else b""
    ops = [p.strip() for p in case.split("|")][1:]
    outs = impl.split(" ; ")
    pos = 0
    for op, o in zip(ops, outs):
        a = op.split()
        implicit, cfg_len, blen = a[1] == "1", int(a[2]), int(a[3])
        if o.startswith("PANIC"):
            return {"kind": "get_rx_payload panicked", "op": op, "chip": chip}
        res = o.split(" :: ")[0]
        m = re.match(r"(Ok\((\d+)\)|Err\((.*)\)) buf=(\S+)", res)
        if not m:
            return {"kind": "unexpected output", "out": o[:100]}
        buf = bytes.fromhex(m.group(4)) if m.group(4) not in ("-", "*") else b""
        if m.group(4) != "*" and len(buf) != blen:
            return {"kind": "caller buffer changed size"}
        faulted = "!" in o
        trace = o.split(" :: ")[1] if " :: " in o else ""
        if chip == "sx1262":
            t = re.search(r"w13,r([0-9a-f]{2}),r([0-9a-f]{2})([0-9a-f]{2})", trace)
            if not t:
                continue                                  # the status transaction itself failed
            status, ln, off = int(t.group(1), 16), int(t.group(2), 16), int(t.group(3), 16)
            want_len = regs.get(1794, 0) if implicit else ln
            err = (status & 0x0e) in (6, 8, 10)
        else:
            ln, off = regs.get(19, 0), regs.get(16, 0)
            want_len = cfg_len if implicit else ln
            err = False
        if m.group(2) is not None:
            n = int(m.group(2))
            if n > blen:
                return {"kind": "returned length exceeds the caller's buffer", "length": n, "buffer": blen}
            if n != want_len:
                return {"kind": "returned length is not the reported (explicit) / configured (implicit) length", "length": n, "expected": want_len}
            exp = bytes(CHIPBUF[(off + i) & 0xFF] for i in range(n))
            if buf[:n] != exp:
                return {"kind": "returned bytes are not the chip's buffer at the reported position", "got": buf[:n].hex()[:40], "expected": exp.hex()[:40]}
            if buf[n:] != bytes([0xA5] * (blen - n)):
                return {"kind": "bytes beyond the returned length were modified", "tail": buf[n:].hex()[:40]}
            if err:
                return {"kind": "a reception with an error status was returned as a packet", "status": status}
        else:
            if not faulted and not err and want_len <= blen:
                return {"kind": "a packet that fits the caller's buffer was refused", "error": m.group(3), "length": want_len, "buffer": blen}
    return None


def run(rep, tier, rng):
    core.proof_stage(rep, ID, THEOREMS)
    if not core.build_both(rep):
        core.finish_proof_failures(rep)
        return
    lines = gen(rng, tier)
    core.diff_stage(rep, "X:C18:get_rx_payload", lines, lambda c, i, m: oracle(c, i))
    io = core.run_lines(core.harness_bin(), lines)
    bad = 0
    for c, o in zip(lines, io):
        try:
            v = oracle(c, o)
        except Exception as e:
            v = {"kind": "output not understood", "error": repr(e)}
        if v:
            bad += 1
            if bad <= 3:
                v.update({"case": c[:1200], "impl_output": o[:2000]})
                rep.violation(v, concrete=True)
    # the LoRaWAN adapter hands the MAC exactly those bytes
    al = []
    for chip in ("sx1262", "sx1276"):
        for ln in (0, 1, 12, 13, 64, 200, 255):
            for off in (0, 3, 250):
                for blen in (0, 12, 64, 255, 256):
                    if chip == "sx1262":
                        al.append("lwr chip=sx1262 tcxo=- regs=- reads=- fill=0 buf=%s | setuprx 2 7 0 868100000 50 | @onirq=2:%s rxsingle %d" % (
                            CHIPBUF.hex(), "00%02x%02x" % (ln, off), blen))
                    else:
                        al.append("lwr chip=sx1276 tcxo=- regs=19:%d,16:%d reads=- fill=0 buf=%s | setuprx 2 7 0 868100000 50 | @onirq=64 rxsingle %d" % (ln, off, CHIPBUF.hex(), blen))
    core.diff_stage(rep, "X:C18:lorawan-adapter", al, lambda c, i, m: None)
    ao = core.run_lines(core.harness_bin(), al)
    bad = 0
    for c, o in zip(al, ao):
        last = o.split(" ; ")[-1]
        a = c.split("|")[-1].split()
        blen = int(a[-1])
        chip = re.search(r"chip=(\S+)", c).group(1)
        if chip == "sx1262":
            r = bytes.fromhex(re.search(r"@onirq=2:(\S+)", c).group(1))
            ln, off = r[1], r[2]
        else:
            ln, off = int(re.search(r"regs=19:(\d+)", c).group(1)), int(re.search(r"16:(\d+)", c).group(1))
        v = None
        if last.startswith("PANIC"):
            v = {"kind": "adapter rx_single panicked"}
        else:
            m = re.match(r"Ok\(Rx (\d+) .*?\) buf=(\S+)", last)
            if m:
                n = int(m.group(1))
                buf = bytes.fromhex(m.group(2)) if m.group(2) != "-" else b""
                exp = bytes(CHIPBUF[(off + i) & 0xFF] for i in range(n))
                if n > blen or n != ln or buf[:n] != exp or buf[n:] != bytes([0xA5] * (blen - n)):
                    v = {"kind": "adapter handed the MAC a length / bytes other than the received packet", "length": n, "reported": ln}
            elif ln <= blen and not last.startswith("Err"):
                v = {"kind": "adapter output not understood", "out": last[:120]}
        if v:
            bad += 1
            if bad <= 3:
                v.update({"case": c[:1200], "impl_output": o[-1500:]})
                rep.violation(v, concrete=True)
    rep.cov["adapter_cases"] = len(al)
    rep.cov["rule"] = ("reported lengths x offsets x caller buffer sizes {0,1,12,64,255,256} x explicit/implicit header x status codes (incl. the three error classes) on SX1262 and SX1276 with a "
                       "patterned 256-byte chip buffer (wrap-around offsets) and canary-filled caller buffers; a fault at every pin event; through the LoRaWAN adapter's rx_single; "
                       "quick samples the 256 x 256 grid, thorough enumerates it")
    core.finish_proof_failures(rep)
