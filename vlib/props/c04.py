"""C04 -- no received frame or network command can panic or hang the device."""
import itertools
import re
from .. import chanops, core, machist, macstage, lw
from . import c08, c09, c11

ID = "C04"
THEOREMS = ["C04_invariant_initial", "C04_every_command", "C04_every_command_stream", "C04_every_received_frame", "C04_window_end",
            "C04_send_panics_only_on_api_misuse", "C04_send_keeps_invariant", "C04_join_request_never_panics", "C04_selection_never_panics",
            "C04_async_send_never_panics_on_radio_input", "C04_async_join_never_panics", "C04_async_listen_never_panics",
            "C04_nb_event_never_panics"]
COVER = lambda r: c09.cover(r, 24)


def field_histories(rng, tier):
    """authentic downlinks enumerating every value of every field of every handled MAC command, in FOpts and on port 0"""
    lines = []
    quick = tier == "quick"
    for region in range(9):
        r = rng.fork("f%d" % region)
        ok = machist.FREQ_OK[region]
        freqs = [ok, 0, 100, 1677721500, c11.BAND[region][0], c11.BAND[region][1] + 100]
        cmds = []
        for b0 in range(256):                                                  # DataRate_TXPower x ChMaskCntl/NbTrans
            red = r.below(256) if quick else None
            for rd in ([red] if quick else range(b0 % 32, 256, 32)):        # thorough: 8 Redundancy bytes per DataRate_TXPower byte, all 256 over the grid
                cmds.append(bytes([0x03, b0]) + r.choice([b"\x00\x00", b"\xff\xff", b"\x01\x00", b"\x00\x80", r.bytes(2)]) + bytes([rd]))
        for rd in range(256):                                                  # every Redundancy byte
            cmds.append(bytes([0x03, r.choice([0xFF, 0x0F, 0x50, r.below(256)])]) + r.choice([b"\x00\x00", b"\xff\xff", b"\x07\x00", r.bytes(2)]) + bytes([rd]))
        for dls in range(256):                                                 # every DLSettings
            cmds.append(bytes([0x05, dls]) + (r.choice(freqs) // 100).to_bytes(3, "little"))
        for idx in list(range(18)) + [63, 64, 71, 72, 127, 128, 254, 255]:
            for f in freqs:
                cmds.append(machist.dl_channel(idx, f))
                for drr in ([r.below(256), 0x50, 0xFF, 0x05] if quick else range((idx + f // 100) % 8, 256, 8)):   # thorough: 32 DrRange bytes per (index, frequency), all 256 over the grid
                    cmds.append(bytes([0x07, idx]) + (f // 100).to_bytes(3, "little") + bytes([drr]))
        for v in range(256):
            cmds += [bytes([0x08, v]), bytes([0x09, v]), bytes([0x04, v])]
        cmds += [bytes([0x06]), bytes([0x02, 1, 2]), bytes([0x0D, 1, 2, 3, 4, 5])]
        for cid in [0, 1, 0x0B, 0x0C, 0x0E, 0x0F, 0x10, 0x20, 0x7F, 0x80, 0xFF]:  # unknown / proprietary CIDs, truncated commands
            cmds.append(bytes([cid]) + r.bytes(r.below(4)))
        cmds += [bytes([0x03, 0x50]), bytes([0x05, 1, 2]), bytes([0x07, 3, 1]), bytes([0x0A])]
        r2 = r.fork("mix")
        for _ in range(40 if quick else 600):                                   # mixtures
            cmds.append(b"".join(r2.choice(cmds[:2000]) for _ in range(r2.range(2, 5))))
        for k, cmd in enumerate(cmds):
            net = machist.Net(r, region, r.choice([0, 14, 30, 255]), r.choice([0, 2, -128, 127]), bias=r.choice(["-", "1:1", "8:2"]) if region in machist.FIXED else "-")
            if k % 3 == 0:
                net.otaa_request(ndraws=80)
                net.join_accept(dl_settings=r.below(256), rx_delay=r.below(16), cflist=r.choice(c11.cflist_variants(r, region)))
            else:
                net.abp()
            net.op("send 01 1 0 %s" % COVER(r))
            if len(cmd) <= 15 and k % 2 == 0:
                net.downlink(cmd, None, b"", confirmed=r.chance(1, 4))
            else:
                net.downlink(b"", 0, cmd[:200], confirmed=r.chance(1, 4))
            net.op("send 02 1 0 %s" % COVER(r))
            net.rx2c()
            net.op("send - 0 0 %s" % COVER(r))
            net.rx2c()
            net.op("send 03 2 1 %s" % COVER(r))
            lines.append(net.line())
    return lines


SUFFIX = ",".join(str(v) for v in range(64))


def covered(line):
    """append every residue 0..63 to the random draws of each send / join request, so that a rejection sampler with a non-empty
    target set must terminate: a HANG then means that no usable channel exists"""
    parts = [p.strip() for p in line.split("|")]
    for k, op in enumerate(parts):
        a = op.split()
        if a and a[0] in ("send", "otaa") and len(a) >= 5 and not a[4].endswith(SUFFIX):
            a[4] = a[4] + "," + SUFFIX
            parts[k] = " ".join(a)
    return " | ".join(parts)


def mac_oracle(case, impl, model=None):
    """every call returns; a joined device transmits when asked (known: prepare_buffer's panic!s on application misuse)"""
    parts = [p.strip() for p in case.split("|")]
    outs = impl.split(" ; ")
    joined = False
    for i, op in enumerate(parts[1:]):
        if i >= len(outs):
            return {"kind": "history output ends early (panic / hang)", "at_op": i}
        a, o = op.split(), outs[i]
        if o in ("PANIC", "HANG"):
            misuse = a[0] == "send" and ((a[2] == "0" and a[1] != "-") or len(core.unhex(a[1])) > 222)
            return {"kind": ("application misuse of send() panics (deliberate panic! in prepare_buffer)" if misuse else
                             "a call into the stack %s" % ("panicked" if o == "PANIC" else "did not return within the random-draw budget")),
                    "at_op": i, "op": op[:200], "misuse": misuse, "previous_op": parts[i][:300] if i > 0 else ""}
        if a[0] == "abp" or o.startswith("JoinSuccess"):
            joined = True
        elif a[0] == "otaa":
            joined = False
        if a[0] == "send" and joined and not o.startswith("TX") and not o.startswith("SessionExpired"):
            return {"kind": "a joined device could not transmit", "at_op": i, "response": o[:100]}
    return None


# ---- front-ends
NWK, APP, ADDR = bytes([2] * 16), bytes([1] * 16), 5


def downlinks(rng, region):
    """authentic downlinks for counters 1.. with nasty commands, a JoinAccept, garbage"""
    ok = machist.FREQ_OK[region]
    bad = [machist.link_adr(15, 15, 0x00FF, 4), machist.link_adr(8, 0, 0, 7), machist.link_adr(5, 2, 0, 0) + machist.link_adr(5, 2, 1, 5),
           machist.new_channel(3, 0, 5, 0) + machist.link_adr(15, 15, 0x0008, 0), machist.rx_param_setup(7, 15, 0), machist.dl_channel(255, 0),
           bytes([0x07, 255, 1, 2, 3, 0xF0]), machist.rx_timing(255), bytes([0xFF, 1, 2])]
    return bad


def nb_histories(rng, tier):
    """exhaustive over an event alphabet, depth 4 (quick) / 5 (thorough), both activation modes; authentic frames use consecutive counters"""
    lines = []
    depth = 4 if tier == "quick" else 5
    key = bytes(range(16))
    for region in ((5, 8) if tier == "quick" else (5, 8, 0, 4, 6, 7)):
        cmds = downlinks(rng, region)
        for otaa in (False, True):
            alphabet = ["S", "s", "D", "T", "R", "G", "E", "J", "A", "C"]
            seqs = itertools.product(alphabet, repeat=depth)
            for n, seq in enumerate(seqs):
                if rng.below(4 if tier == "quick" else 12) != 0:      # quick: a quarter of depth 4; thorough: a twelfth of depth 5 (x 6 regions)
                    continue
                fcnt = 0
                ops = []
                head = "ndev r=%d fault=-" % region
                if otaa:
                    ja = lw.join_accept(key, 1, 2, ADDR, rng.below(256), rng.below(16), rng.choice(c11.cflist_variants(rng, region)))
                    ops.append("join 1 2 %s %s txdone" % (key.hex(), machist.draws(rng, 40)))
                    ops.append("timeout")
                    ops.append("phy rx%s" % ja.hex())
                    nonce = None
                else:
                    head += " session=%s:%s:%d:0" % (NWK.hex(), APP.hex(), ADDR)
                for e in seq:
                    if e == "S":
                        ops.append("send 01 1 0 %s txdone" % COVER(rng))
                    elif e == "s":
                        ops.append("send 0102 2 1 %s txing" % COVER(rng))
                    elif e == "D":
                        ops.append("phy txdone")
                    elif e == "T":
                        ops.append("timeout")
                    elif e == "R" and not otaa:
                        fcnt += 1
                        ops.append("phy rx%s" % lw.data_frame(rng.choice([3, 5]), ADDR, 0, fcnt, rng.choice(cmds)[:15], None, b"", NWK, APP).hex())
                    elif e == "R":
                        ops.append("phy rx%s" % rng.bytes(rng.choice([12, 17, 33])).hex())
                    elif e == "G":
                        ops.append("phy rx%s" % rng.bytes(rng.choice([0, 1, 11, 12, 23, 255])).hex())
                    elif e == "E":
                        ops.append("phy err")
                    elif e == "J":
                        ops.append("join 1 2 %s %s txdone" % (key.hex(), machist.draws(rng, 40)))
                    elif e == "A":
                        ops.append("phy rx%s" % lw.join_accept(key, 3, 4, ADDR, rng.below(256), rng.below(16), rng.choice(c11.cflist_variants(rng, region))).hex())
                    elif e == "C":
                        ops.append("dr %d" % rng.choice([0, 5, 7, 8, 15]))
                # bring the device to rest and transmit again
                ops += ["phy txdone", "timeout", "timeout", "timeout", "timeout", "timeout", "send 09 1 0 %s txdone" % COVER(rng)]
                lines.append(head + " | " + " | ".join(ops))
    return lines


def async_histories(rng, tier):
    lines = []
    key = bytes(range(16))
    win = ["T", "X", "G", "E"]
    for region in ((5, 8) if tier == "quick" else (5, 8, 0, 4)):
        cmds = downlinks(rng, region)
        for classc in (0, 1):
            combos = list(itertools.product(win, repeat=2))
            for seq in itertools.product(combos, repeat=2 if tier == "quick" else 3):
                fcnt = 0
                ops = []
                head = "adev r=%d lead=15 classc=%d fault=- session=%s:%s:%d:0" % (region, classc, NWK.hex(), APP.hex(), ADDR)
                for (a, b) in seq:
                    scr = []
                    for w in (a, b):
                        if w == "X":
                            fcnt += 1
                            scr.append("X" + lw.data_frame(rng.choice([3, 5]), ADDR, 0, fcnt, rng.choice(cmds)[:15], None, b"", NWK, APP).hex())
                        elif w == "G":
                            scr.append("X" + rng.bytes(rng.choice([1, 12, 40])).hex())
                        else:
                            scr.append(w)
                    if classc:
                        scr = ["P"] + scr + ["P"]
                    ops.append("send 01 1 %d %s %s" % (rng.below(2), COVER(rng), ",".join(scr)))
                    if classc and rng.chance(1, 2):
                        fcnt += 1
                        ops.append("listen X%s" % lw.data_frame(3, ADDR, 0, fcnt, rng.choice(cmds)[:15], None, b"", NWK, APP).hex())
                ops.append("send 09 1 0 %s %s" % (COVER(rng), "P,T,T,P" if classc else "T,T"))
                lines.append(head + " | " + " | ".join(ops))
            # joins
            for (a, b) in combos:
                ja = lw.join_accept(key, 1, 2, ADDR, rng.below(256), rng.below(16), rng.choice(c11.cflist_variants(rng, region)))
                scr = [("X" + ja.hex()) if w == "X" else ("X" + rng.bytes(17).hex()) if w == "G" else w for w in (a, b)]
                lines.append("adev r=%d lead=15 classc=%d fault=- | join 1 2 %s %s %s | send 01 1 0 %s T,T | send 02 1 0 %s T,T" % (
                    region, classc, key.hex(), machist.draws(rng, 40), ",".join(scr), COVER(rng), COVER(rng)))
    return lines


def fe_oracle(case, impl):
    outs = impl.split(" ; ")
    for i, o in enumerate(outs):
        if o.startswith("PANIC") or o.startswith("HANG"):
            ops = [p.strip() for p in case.split("|")][1:]
            return {"kind": "front-end call %s" % ("panicked" if o.startswith("PANIC") else "did not return within the random-draw budget"),
                    "at_op": i, "op": ops[i][:200] if i < len(ops) else "?", "trace": o[:300]}
    # the last op is a send from rest: a joined device must hand a frame to the radio
    last = outs[-1]
    joined_from_start = "session=" in case
    if joined_from_start and " join " not in case and "tx[" not in last and "Tx(" not in last and "tx(" not in last.lower():
        if "SessionExpired" in impl or "NotJoined" in last:
            return None
        return {"kind": "after the history the device can no longer transmit", "last_output": last[:200]}
    return None


KNOWN_PROBES = [
    ("send-api-misuse-panics", "mac r=5 p=14 g=0 | abp %s %s 5 | send 0102 0 0 1,2,3,4,5,6,7,8" % (NWK.hex(), APP.hex()), "send(fport = 0, non-empty data)"),
    ("send-api-misuse-panics", "mac r=5 p=14 g=0 | abp %s %s 5 | dr 5 | send %s 1 0 1,2,3,4,5,6,7,8" % (NWK.hex(), APP.hex(), "00" * 243), "send(243-byte payload)"),
    ("send-api-misuse-panics", "mac r=5 p=14 g=0 | abp %s %s 5 | dr 5 | send 01 1 0 1,2,3,4,5,6,7,8 | rx %s 0 250 | send %s 1 0 1,2,3,4,5,6,7,8" % (
        NWK.hex(), APP.hex(), lw.data_frame(3, 5, 0, 1, machist.rx_param_setup(0, 0, 868100000) + machist.rx_timing(3), None, b"", NWK, APP).hex(), "00" * 241),
     "send(241-byte payload, legal at DR5) while 3 bytes of sticky MAC answers are queued"),
]


def run(rep, tier, rng):
    core.proof_stage(rep, ID, THEOREMS)
    if not core.build_both(rep):
        core.finish_proof_failures(rep)
        return
    known = core.load_known(ID)
    lines = field_histories(rng, tier)
    lines += c08.gen(rng.fork("c08"), "quick") + c09.gen(rng.fork("c09"), "quick")[::3] + c11.gen(rng.fork("c11"), "quick")[::4]
    lines += chanops.gen(rng.fork("co"), "quick", COVER)[::2]
    lines += chanops.default_channel_histories(rng.fork("dc"), tier, COVER)
    lines = [covered(l) for l in lines]
    core.diff_stage(rep, "X:C04:mac-histories(all field values)", lines, macstage.make_judge([], extra=mac_oracle))
    io = core.run_lines(core.harness_bin(), lines)
    bad = 0
    for l, o in zip(lines, io):
        v = mac_oracle(l, o)
        if v:
            bad += 1
            if bad <= 3:
                v.update({"case": l, "impl_output": o[-1500:]})
                rep.violation(v, concrete=True)
    rep.cov["mac_histories_checked_for_panic_or_hang"] = len(lines)
    fl = nb_histories(rng, tier) + async_histories(rng, tier)
    # both front-ends are modelled (Model/AsyncDev.v, Model/NbDev.v): model and implementation on the same histories
    from .. import adevhist, ndevhist
    fmod = fl + adevhist.histories(rng.fork('adev'), tier) + ndevhist.histories(rng.fork('ndev'), tier)
    core.diff_stage(rep, 'X:C04:front-ends', fmod, lambda c, i, m: fe_oracle(c, i))
    fo = core.run_lines(core.harness_bin(), fl)
    bad = 0
    for c, o in zip(fl, fo):
        v = fe_oracle(c, o)
        if v:
            bad += 1
            if bad <= 3:
                v.update({"case": c, "impl_output": o[-1500:]})
                rep.violation(v, concrete=True)
    rep.cov["frontend_histories"] = len(fl)
    # known finding probes
    po = core.run_lines(core.harness_bin(), [c for _, c, _ in KNOWN_PROBES])
    for (kid, c, what), o in zip(KNOWN_PROBES, po):
        if o.split(" ; ")[-1] == "PANIC":
            if kid in known:
                rep.known("id=%s %s panics (deliberate panic! in Session::prepare_buffer)" % (kid, what))
            else:
                rep.violation({"kind": "send() panics on application input", "case": c, "impl_output": o[-300:]}, concrete=True)
    rep.cov["rule"] = ("MAC level: 9 regions x {ABP, OTAA with every JoinAccept field class} x authentic downlinks enumerating every DataRate_TXPower byte, every Redundancy byte, every DLSettings, "
                       "NewChannelReq/DlChannelReq over 26 index classes x 6 frequency classes x DrRange, every RXTimingSetup/TxParamSetup/DutyCycle byte, unknown and truncated commands, mixtures, "
                       "in FOpts and on port 0, followed by three sends (the device must still transmit); plus the C08/C09/C11/channel-slot generators; "
                       "front-ends: nb_device event alphabet {send(txdone), send(txing), phy txdone, timeout, authentic rx with hostile commands, garbage rx, radio error, join, JoinAccept, set_datarate} "
                       "exhaustively to depth 4/5 for ABP and OTAA, async_device window alphabet {timeout, authentic, garbage, radio error}^2 per uplink for 2/3 uplinks with and without Class C, joins; "
                       "every output checked for PANIC / HANG (catch_unwind + random-draw budget with a covering suffix)")
    core.finish_proof_failures(rep)
