"""C01 -- every frame the library builds is byte-exact LoRaWAN 1.0.x."""
from .. import core, frames

ID = "C01"
THEOREMS = ["C01_build_data_spec", "C01_build_data_refuses", "C01_build_join_request_spec", "C01_build_join_accept_spec", "C01_exec_instance", "C01_build_data_exec"]


def gen(rng, tier):
    cases = []
    descs = frames.gen_descriptions(rng, tier)
    for i, (ft, addr, flags, fcnt, fo, pl, nwk, app) in enumerate(descs):
        fl = 0 if fo == "-" else len(fo) // 2
        total = frames.frame_len(fl, pl)
        variant = "dev" if i % 2 == 0 else "net"
        buflen = rng.choice([total, total, 255, 256, total + 1])
        cases.append(frames.frame_case(variant, ft, addr, flags, fcnt, fo, pl, nwk, app, buflen))
        if i % 7 == 0:     # buffer one byte short / empty
            cases.append(frames.frame_case(variant, ft, addr, flags, fcnt, fo, pl, nwk, app, rng.choice([total - 1, 0, total - 4])))
        if i % 11 == 0 and pl.startswith("data"):   # missing application key
            cases.append(frames.frame_case(variant, ft, addr, flags, fcnt, fo, pl, nwk, "none", 256))
    # forbidden: FOpts 16..20, FOpts together with port 0
    for _ in range(60 if tier == "quick" else 600):
        ft, addr, flags, fcnt = rng.below(4), rng.below(1 << 32), rng.below(16), rng.below(1 << 32)
        nwk, app = frames.rand_key(rng), frames.rand_key(rng)
        v = rng.choice(["dev", "net"])
        cases.append(frames.frame_case(v, ft, addr, flags, fcnt, rng.hex(rng.range(16, 20)),
                                       rng.choice(["none", "data:5:0102", "mac:02"]), nwk, app, 256))
        cases.append(frames.frame_case(v, ft, addr, flags, fcnt, rng.hex(rng.range(1, 15)), "mac:%s" % rng.hex(rng.below(5)), nwk, app, 256))
        cases.append(frames.frame_case(v, ft, addr, flags, fcnt, "-", "mac:%s" % rng.hex(rng.below(5)), nwk, "none", 256))
    # join request / join accept
    for _ in range(200 if tier == "quick" else 4000):
        key = frames.rand_key(rng)
        je, de, dn = rng.below(1 << 64), rng.below(1 << 64), rng.choice([0, 1, 0xFFFF, rng.below(1 << 16)])
        cases.append("build_jr %s %d %d %d %s %d" % (rng.choice(["dev", "net"]), je, de, dn, key, rng.choice([23, 22, 64, 0, 255])))
        cfl = rng.choice(["none", "dyn", "fix"])
        if cfl == "dyn":
            cfl = "dyn:" + ",".join(str(rng.choice([0, 8671000, 0xFFFFFF, rng.below(1 << 24)])) for _ in range(5))
        elif cfl == "fix":
            cfl = "fix:" + rng.hex(9)
        need = 17 if cfl == "none" else 33
        cases.append("build_ja %d %d %d %d %d %s %s %d" % (
            rng.below(1 << 24), rng.below(1 << 24), rng.below(1 << 32), rng.below(256), rng.choice([0, 1, 15, 16, 255, rng.below(256)]),
            cfl, key, rng.choice([need, need, need - 1, 64, 255])))
    return cases


def judge(case, impl, model):
    t = case.split()
    op = {"build_data": "spec_data", "build_jr": "spec_jr", "build_ja": "spec_ja"}.get(t[0])
    if op is None:
        return None
    spec = core.run_lines(core.model_bin(), [op + " " + " ".join(t[1:])], 1)[0]
    buflen = int(t[-1])
    it = impl.split()
    if spec == "FORBIDDEN":
        if it[0] != "ERR":
            return {"kind": "a description the specification forbids was not refused", "spec_output": spec}
        return None
    frame = spec.split()[1]
    flen = len(frame) // 2
    if buflen < flen:
        if it[0] != "ERR":
            return {"kind": "frame built into a buffer that is too small", "spec_output": spec}
        return None
    want = "OK %d %s%s" % (flen, frame, "aa" * (buflen - flen))
    if impl != want:
        return {"kind": "built bytes differ from the independent LoRaWAN 1.0.x implementation (or a legal description was refused)",
                "spec_output": want}
    return None


def run(rep, tier, rng):
    core.proof_stage(rep, ID, THEOREMS)
    if not core.build_both(rep):
        return
    kats = ["aes enc %s %s" % (rng.hex(16), rng.hex(16)) for _ in range(200)] + \
           ["aes dec %s %s" % (rng.hex(16), rng.hex(16)) for _ in range(200)] + \
           ["cmac %s %s %s %s" % (rng.choice(["dev", "net"]), rng.hex(16), rng.hex(rng.choice([0, 16])), rng.hex(rng.below(70))) for _ in range(300)]
    core.diff_stage(rep, "X:C01:aes+cmac(RustCrypto vs Crypto/AES.v,CMAC.v)", kats, lambda c, i, m: {"kind": "AES/CMAC primitive differs from FIPS-197 / RFC 4493 model", "spec_output": m})
    cases = gen(rng, tier)
    core.diff_stage(rep, "X:C01:build_into", cases, judge)
    ops = {}
    for c in cases:
        ops[c.split()[0]] = ops.get(c.split()[0], 0) + 1
    rep.cov["input_distribution"] = ops
    rep.cov["rule"] = ("frame descriptions: 4 types x 16 flag combinations x FOpts 0..15, every payload length 0..242 on an "
                       "application port and on port 0, counter boundaries, random keys/addresses, device- and network-side crypto, "
                       "buffers exact/short/long, forbidden descriptions (FOpts>15, FOpts+port 0, missing key); JoinRequest/JoinAccept "
                       "with/without CFList; distinct = distinct (case, output) pairs")
    core.finish_proof_failures(rep)
