"""C20 -- a persisted session restores losslessly and never rewinds counters."""
import copy
import json
import re
from .. import core, machist, macstage, lw

ID = "C20"
THEOREMS = ["C20_lossless", "C20_same_behaviour", "C20_new_session_representable", "C20_window_end_representable", "C20_uplink_representable",
            "C20_downlink_representable", "C20_accepted_document_representable", "C20_accepted_document_stable"]
PERSIST = ("serde", "serjson")


def with_snapshots(line, every=1):
    """insert a persist/restore (and a dump of the serialised text) after every `every`-th step"""
    parts = [p.strip() for p in line.split("|")]
    out = [parts[0]]
    for k, op in enumerate(parts[1:]):
        out.append(op)
        if op.split()[0] in ("snap",) or k % every:
            continue
        out += ["serjson", "serde", "serjson"]
    return " | ".join(out)


def strip_persist(line):
    parts = [p.strip() for p in line.split("|")]
    return " | ".join(p for p in parts if p.split()[0] not in PERSIST)


def boundary_history(rng, region):
    """sessions with full pending answers and counters at the 16/32-bit boundaries, persisted at every step"""
    net = machist.Net(rng, region)
    if rng.chance(1, 2):
        net.abp()
    else:
        net.otaa_request(ndraws=60)
        net.join_accept(dl_settings=rng.below(256), rx_delay=rng.below(16))
    ok = machist.FREQ_OK[region]
    up = rng.choice([0, 1, 0xFFFE, 0xFFFF, 0x10000, 0xFFFFFFFD, 0xFFFFFFFE, 0xFFFFFFFF])
    down = rng.choice(["none", "0", "65535", "65536", "4294967294", "4294967295"])
    cnt = rng.choice([0, 63, 64, 95, 96, 4294967295])
    net.op("patch up=%d down=%s adrcnt=%d" % (up, down, cnt))
    net.down = None if down == "none" else int(down)
    for _ in range(rng.range(2, 5)):
        net.send(rng.bytes(rng.below(5)), rng.range(1, 200), rng.chance(1, 2), ndraws=60)
        k = rng.below(4)
        if k == 0 and (net.down or 0) < 0xFFFFFFFF:
            # fill the pending answers: sticky answers up to and beyond the 15-byte limit
            cmds = b"".join(rng.choice([machist.rx_param_setup(1, 2, ok), machist.rx_timing(rng.below(16)), machist.dl_channel(rng.below(3), ok),
                                        machist.dev_status(), machist.link_adr(15, 15, 7, 0)]) for _ in range(rng.range(3, 8)))
            net.downlink(cmds[:15] if len(cmds) > 15 and rng.chance(1, 2) else b"", None if len(cmds) <= 15 else 0, cmds if len(cmds) > 15 else b"",
                         confirmed=rng.chance(1, 2)) if len(cmds) > 15 else net.downlink(cmds, None, b"", confirmed=rng.chance(1, 2))
        elif k == 1 and (net.down or 0) < 0xFFFFFFFF:
            net.downlink(b"", rng.range(1, 200), rng.bytes(3), confirmed=rng.chance(1, 2))
        else:
            net.rx2c()
    # a replayed and a fresh downlink after the last restore
    if net.down is not None:
        net.downlink(b"", 5, b"old", fcnt=net.down, accept=False)
    net.rx2c()
    net.send(b"z", 1, False, ndraws=60)
    return with_snapshots(net.line())


# ---- malformed documents
def genuine_docs(rng):
    docs = []
    for _ in range(6):
        n = rng.choice([0, 1, 3, 14, 15])
        docs.append({"uplink": {"confirmed": rng.chance(1, 2), "pending_len": n, "pending_data": [rng.below(256) for _ in range(n)] + [0] * (15 - n)},
                     "confirmed": rng.chance(1, 2), "nwkskey": [rng.below(256) for _ in range(16)], "appskey": [rng.below(256) for _ in range(16)],
                     "devaddr": [rng.below(256) for _ in range(4)], "fcnt_up": rng.choice([0, 7, 65535, 65536, 4294967295]),
                     "fcnt_down": rng.choice([None, 0, 65535, 4294967295]), "adr_ack_cnt": rng.choice([0, 64, 4294967295])})
    return docs


BAD_VALUES = [None, True, False, -1, 0, 1, 15, 16, 255, 256, 65536, 4294967295, 4294967296, 18446744073709551616, 10 ** 30, 1.0, 1.5, 1e3, "1", "", [], [0], {},
              [0] * 4, [0] * 15, [0] * 16, [0] * 17, [256] * 16, [-1] * 4, [[0] * 16], {"confirmed": False}]


def dumps(doc):
    return json.dumps(doc, separators=(",", ":"))


def mutated_documents(rng, tier):
    """(text, note) pairs"""
    out = []
    for doc in genuine_docs(rng):
        out.append(dumps(doc))
        keys = list(doc.keys())
        for k in keys:                                  # remove / duplicate / retype every field
            d = copy.deepcopy(doc)
            del d[k]
            out.append(dumps(d))
            t = dumps(doc)
            out.append(t[:-1] + "," + json.dumps(k) + ":" + json.dumps(doc[k], separators=(",", ":")) + "}")          # duplicate key
            for v in (BAD_VALUES if tier != "quick" else rng.sample(BAD_VALUES, 9)):
                d = copy.deepcopy(doc)
                d[k] = v
                out.append(dumps(d))
        for k in ("confirmed", "pending_len", "pending_data"):
            d = copy.deepcopy(doc)
            del d["uplink"][k]
            out.append(dumps(d))
            for v in (BAD_VALUES if tier != "quick" else rng.sample(BAD_VALUES, 9)):
                d = copy.deepcopy(doc)
                d["uplink"][k] = v
                out.append(dumps(d))
            t = dumps(doc["uplink"])
            d = dumps(doc).replace(t, t[:-1] + "," + json.dumps(k) + ":" + json.dumps(doc["uplink"][k], separators=(",", ":")) + "}")
            out.append(d)
        for n in range(0, 256, 1 if tier != "quick" else 17):      # every pending_len
            d = copy.deepcopy(doc)
            d["uplink"]["pending_len"] = n
            out.append(dumps(d))
        d = copy.deepcopy(doc)
        d["extra"] = 5
        out.append(dumps(d))                             # unknown field at the top level (ignored by a derived visitor)
        d = copy.deepcopy(doc)
        d["uplink"]["extra"] = 5
        out.append(dumps(d))                             # unknown field inside the hand-written visitor
        seq = [doc[k] for k in ("uplink", "confirmed", "nwkskey", "appskey", "devaddr", "fcnt_up", "fcnt_down", "adr_ack_cnt")]
        out += [dumps(seq), dumps(seq[:-1]), dumps(seq + [0]), dumps([seq]), dumps(seq[::-1])]
        s2 = list(seq)
        s2[0] = [doc["uplink"]["confirmed"], doc["uplink"]["pending_len"], doc["uplink"]["pending_data"]]
        out.append(dumps(s2))                            # Uplink given as a sequence
        t = dumps(doc)
        # "-0": serde_json reads it as the float -0.0, which no integer field accepts
        out += [t.replace(":0", ":-0", 1), t.replace(",0", ",-0", 1), t.replace("[0", "[-0", 1), t.replace(":0", ":-0")]
        out += [t[:-1], t + "}", t + " ", " " + t, t.replace(":", " : "), t.replace("null", "NULL"), t.replace("false", "0"), "[" + t + "]", "null", "{}", "[]", " ",
                t.replace('"fcnt_up":', '"fcnt_up":+'), t.replace('"fcnt_up":', '"fcnt_up":0'), t.replace('"fcnt_up":%d' % doc["fcnt_up"], '"fcnt_up":%d.0' % doc["fcnt_up"]),
                t.replace('"fcnt_up":%d' % doc["fcnt_up"], '"fcnt_up":1e2'), t.replace("[", "[ ").replace(",", " ,\n")]
        for _ in range(10 if tier == "quick" else 200):  # random byte edits
            b = bytearray(t.encode())
            k = rng.below(len(b))
            b[k] = rng.choice([ord(c) for c in '0123456789,:[]{}"-.e nulltrue'])
            out.append(b.decode(errors="replace") or " ")
    return out


def doc_history(rng, region, text):
    nwk, app = bytes([1] * 16), bytes([2] * 16)
    ops = ["mac r=%d p=14 g=0" % region, "abp %s %s 7" % (nwk.hex(), app.hex()), "dejson %s" % text.encode().hex(), "serjson",
           "send 01 1 0 %s" % machist.draws(rng, 60), "rx2c", "send - 0 1 %s" % machist.draws(rng, 60),
           "rx %s 0 250" % rng.bytes(20).hex(), "rx2c", "serde", "send 02 2 0 %s" % machist.draws(rng, 60), "serjson"]
    return " | ".join(ops)


def doc_oracle(case, impl, model=None):
    parts = [p.strip() for p in case.split("|")]
    outs = impl.split(" ; ")
    for i, o in enumerate(outs):
        if o in ("PANIC", "HANG"):
            return {"kind": "an operation on a session restored from an accepted document panicked / hung", "at_op": i, "op": parts[1 + i][:120]}
    text = bytes.fromhex(parts[2].split()[1]).decode(errors="replace")
    if len(outs) > 1 and outs[1].startswith("accepted "):
        try:
            doc = json.loads(text)
        except Exception:
            return {"kind": "a document that is not JSON was accepted", "document": text[:200]}
        back = json.loads(outs[1][9:])
        # what was accepted must be what the document said (object form): no field silently altered
        if isinstance(doc, dict):
            for k, v in back.items():
                if k in doc and k != "uplink" and doc[k] != v:
                    return {"kind": "an accepted document was restored with a different value of a field", "field": k, "document": doc[k], "restored": v}
            if isinstance(doc.get("uplink"), dict) and back["uplink"]["confirmed"] != doc["uplink"].get("confirmed"):
                return {"kind": "an accepted document was restored with a different owed-ACK flag"}
            n = back["uplink"]["pending_len"]
            if isinstance(doc.get("uplink"), dict) and (n != doc["uplink"].get("pending_len") or back["uplink"]["pending_data"][:n] != doc["uplink"]["pending_data"][:n]):
                return {"kind": "an accepted document was restored with different pending answers"}
            if "fcnt_down" not in doc and back["fcnt_down"] is not None:
                return {"kind": "a missing downlink counter was restored as a number"}
        if len(outs) > 2 and outs[2] != outs[1][9:]:
            return {"kind": "the session installed from an accepted document serialises differently from what was accepted", "accepted": outs[1][9:][:200], "then": outs[2][:200]}
    return None


def lossless_oracle(case, impl, model=None):
    """serjson | serde | serjson: the text before and after a restore is identical; a restore never fails"""
    parts = [p.strip() for p in case.split("|")][1:]
    outs = impl.split(" ; ")
    for i, op in enumerate(parts):
        if i >= len(outs):
            break
        if op == "serde":
            if outs[i] not in ("restored", "nosession"):
                return {"kind": "restoring a session from its own serialised form failed", "at_op": i, "response": outs[i][:200]}
            if i >= 1 and i + 1 < len(outs) and parts[i - 1] == "serjson" and parts[i + 1] == "serjson" and outs[i - 1] != outs[i + 1]:
                return {"kind": "serialise / restore / serialise does not give the same document (a field was lost or altered)", "at_op": i,
                        "before": outs[i - 1][:400], "after": outs[i + 1][:400]}
    return None


def run(rep, tier, rng):
    core.proof_stage(rep, ID, THEOREMS)
    if not core.build_both(rep):
        core.finish_proof_failures(rep)
        return
    lines = []
    n = 40 if tier == "quick" else 900
    for i in range(n):
        lines.append(with_snapshots(machist.random_history(rng.fork("h%d" % i), i % 9, 14, classc=(i % 2 == 0)), every=1 if i % 3 else 2))
    for i in range(120 if tier == "quick" else 3000):
        lines.append(boundary_history(rng.fork("b%d" % i), i % 9))
    core.diff_stage(rep, "X:C20:mac-histories(persist at every step)", lines, macstage.make_judge(["counter", "accepted", "acted upon"], extra=lossless_oracle))
    macstage.oracle_pass(rep, lines, ["counter", "accepted", "acted upon"], extra=lossless_oracle)
    # twin runs on the implementation: the same history without any persist/restore gives the same outputs for every other step
    plain = [strip_persist(l) for l in lines]
    a = core.run_lines(core.harness_bin(), lines)
    b = core.run_lines(core.harness_bin(), plain)
    bad = 0
    for l, oa, ob in zip(lines, a, b):
        ops = [p.strip() for p in l.split("|")][1:]
        keep = [o for op, o in zip(ops, oa.split(" ; ")) if op.split()[0] not in PERSIST]
        if keep != ob.split(" ; "):
            bad += 1
            if bad <= 3:
                k = next((i for i, (x, y) in enumerate(zip(keep, ob.split(" ; "))) if x != y), -1)
                rep.violation({"kind": "a device restored from its persisted session behaves differently from the original (twin run)", "case": l,
                               "first_difference": k, "restored": keep[k][:300] if k >= 0 else "", "original": ob.split(" ; ")[k][:300] if k >= 0 else ""}, concrete=True)
    rep.cov["twin_runs"] = len(lines)
    docs = mutated_documents(rng, tier)
    dl = [doc_history(rng, i % 9, t) for i, t in enumerate(docs)]
    core.diff_stage(rep, "X:C20:documents(genuine + structurally mutated)", dl, doc_oracle)
    io = core.run_lines(core.harness_bin(), dl)
    acc = sum(1 for o in io if " ; accepted " in o or o.split(" ; ")[1:2] and o.split(" ; ")[1].startswith("accepted"))
    bad = 0
    for c, o in zip(dl, io):
        v = doc_oracle(c, o)
        if v:
            bad += 1
            if bad <= 3:
                v.update({"case": c, "impl_output": o[:1500]})
                rep.violation(v, concrete=True)
    rep.cov["documents"] = len(dl)
    rep.cov["documents_accepted"] = acc
    rep.cov["rule"] = ("persist + restore (and a dump of the serialised text before and after) at every step of random and boundary histories in all regions: pending answers filled to "
                       "and beyond 15 bytes, counters patched to 0/0xFFFF/0x10000/2^32-2/2^32-1, 'no downlink yet', ADR counter up to 2^32-1, replayed and fresh downlinks after the restore; "
                       "model and implementation compared on every step incl. the serialised text; twin runs with and without persistence on the implementation; "
                       "documents: every field removed / duplicated / retyped with 31 hostile values, every pending_len 0..255, unknown fields, sequence forms, syntax damage, random byte edits, "
                       "each followed by send / receive / restore operations")
    core.finish_proof_failures(rep)
