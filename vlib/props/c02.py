"""C02 -- received frames are authenticated and decoded exactly per spec, else untouched."""
from .. import core, frames

ID = "C02"
THEOREMS = ["C02_parse_iff", "C02_layout_in_bounds", "C02_mic_iff", "C02_roundtrip", "C02_decrypt_any_hint", "C02_views",
            "C02_fctrl_accessors", "C02_failed_check_leaves_buffer", "C02_ja_roundtrip", "C02_ja_fields", "C02_derive_keys"]


def build_frames(descs):
    """Uses the extracted spec to build the valid frames the mutations start from."""
    lines = ["spec_data dev %d %d %d %d %s %s %s %s 0" % d for d in descs]
    out = core.run_lines(core.model_bin(), lines)
    return [(d, o.split()[1]) for d, o in zip(descs, out) if o.startswith("OK ")]


def mutate(rng, hexs):
    b = bytearray(core.unhex(hexs))
    k = rng.below(10)
    if k == 0 and b:                      # MHDR
        b[0] = rng.choice([b[0] ^ (1 << rng.below(8)), rng.below(256), b[0] | 1, b[0] & 0x1F, 0xE0 | (b[0] & 0x1F)])
    elif k == 1 and len(b) > 5:           # FCtrl / FOptsLen
        b[5] = rng.choice([b[5] ^ (1 << rng.below(8)), (b[5] & 0xF0) | rng.below(16), rng.below(256)])
    elif k == 2:                          # truncate
        b = b[:rng.below(len(b) + 1)]
    elif k == 3:                          # extend
        b += rng.bytes(rng.range(1, 20))
    elif k == 4 and len(b) >= 4:          # MIC bits
        b[len(b) - 1 - rng.below(4)] ^= 1 << rng.below(8)
    elif k == 5 and len(b) > 12:          # payload / header bit
        b[rng.below(len(b))] ^= 1 << rng.below(8)
    elif k == 6 and len(b) > 8:           # counter bytes
        b[6 + rng.below(2)] ^= 1 << rng.below(8)
    elif k == 7 and len(b) > 5:           # address
        b[1 + rng.below(4)] ^= 1 << rng.below(8)
    elif k == 8:
        b = bytearray(rng.bytes(rng.below(40)))
    return core.hexs(bytes(b))


def gen(rng, tier):
    cases = []
    descs = frames.gen_descriptions(rng, tier)
    if tier == "quick":
        descs = [d for i, d in enumerate(descs) if i % 2 == 0]
    built = build_frames(descs)
    for i, (d, fh) in enumerate(built):
        ft, addr, flags, fcnt, fo, pl, nwk, app = d
        # round trip with the right counter, with another counter of the same upper half, with a wrong upper half
        cases.append("parse_data check %s %s %s %d" % (fh, nwk, app, fcnt))
        if i % 3 == 0:
            other = (fcnt & 0xFFFF0000) | rng.below(1 << 16)
            cases.append("parse_data decrypt %s %s %s %d" % (fh, nwk, app, other))
            cases.append("parse_data mic %s %s none %d" % (fh, nwk, other))
            cases.append("parse_data check %s %s %s %d" % (fh, nwk, app, fcnt ^ 0x10000))
            # the checked decode authenticates against the WHOLE counter it is given: same upper half, another low half
            cases.append("parse_data check %s %s %s %d" % (fh, nwk, app, other))
            cases.append("parse_data check %s %s %s %d" % (fh, nwk, app, (fcnt + rng.choice([1, 0xFFFFFFFF, 2, 255, 256])) & 0xFFFFFFFF))
        if i % 5 == 0:
            cases.append("parse_data parse %s none none 0" % fh)
            cases.append("parse_phy %s" % fh)
            cases.append("parse_data check %s %s none %d" % (fh, nwk, fcnt))          # missing app key
            cases.append("parse_data check %s %s %s %d" % (fh, app, nwk, fcnt))         # keys swapped
        # mutated
        for _ in range(1 if tier == "quick" else 3):
            m = mutate(rng, fh)
            cases.append("parse_data check %s %s %s %d" % (m, nwk, app, fcnt))
            if rng.chance(1, 3):
                cases.append("parse_data decrypt %s %s %s %d" % (m, rng.choice([nwk, "none"]), rng.choice([app, "none"]), fcnt))
                cases.append("parse_phy %s" % m)
                cases.append("parse_data parse %s none none 0" % m)
    # structural lattice: short strings over a small alphabet
    alpha = [0x00, 0x40, 0x60, 0x80, 0xA0, 0x20, 0xE0, 0x41, 0x0F, 0x01, 0xFF]
    for ln in range(0, 14 if tier == "quick" else 20):
        for _ in range(40 if tier == "quick" else 400):
            bs = bytes(rng.choice(alpha) for _ in range(ln))
            cases.append("parse_phy %s" % core.hexs(bs))
            cases.append("parse_data check %s %s %s %d" % (core.hexs(bs), frames.rand_key(rng), frames.rand_key(rng), rng.below(1 << 32)))
    # join request / join accept
    jacases = []
    for _ in range(150 if tier == "quick" else 3000):
        key = frames.rand_key(rng)
        cfl = rng.choice(["none", "dyn", "fix", "rfu"])
        cflarg = {"none": "none", "dyn": "dyn:" + ",".join(str(rng.below(1 << 24)) for _ in range(5)), "fix": "fix:" + rng.hex(9),
                  "rfu": "dyn:" + ",".join(str(rng.below(1 << 24)) for _ in range(5))}[cfl]
        jacases.append(("spec_ja %d %d %d %d %d %s %s 0" % (rng.below(1 << 24), rng.below(1 << 24), rng.below(1 << 32), rng.below(256), rng.below(256), cflarg, key), key, cfl))
        cases.append("parse_jr %s %s" % (core.run_lines(core.model_bin(), ["spec_jr dev %d %d %d %s 0" % (rng.below(1 << 64), rng.below(1 << 64), rng.below(1 << 16), key)], 1)[0].split()[1] if rng.chance(1, 8) else rng.hex(rng.choice([23, 23, 22, 24, 0])), key))
    jo = core.run_lines(core.model_bin(), [c for c, _, _ in jacases])
    for (c, key, cfl), o in zip(jacases, jo):
        fh = o.split()[1]
        dn = rng.below(1 << 16)
        cases.append("ja_decrypt check %s %s %d" % (fh, key, dn))
        cases.append("ja_decrypt plain %s %s %d" % (fh, key, dn))
        cases.append("ja_decrypt check %s %s %d" % (fh, frames.rand_key(rng), dn))        # wrong key
        cases.append("ja_decrypt check %s %s %d" % (mutate(rng, fh), key, dn))
        cases.append("parse_phy %s" % fh)
    return cases


# ---- independent structural decoder (python) used only to judge disagreements
def py_decode(bs):
    if len(bs) < 12:
        return "TooShort"
    if bs[0] & 3:
        return "UnsupportedMajorVersion"
    mt = bs[0] >> 5
    if mt < 2 or mt > 5:
        return "NotADataFrame"
    fl = bs[5] & 15
    if 8 + fl + 4 > len(bs):
        return "TruncatedFhdr"
    return None


def judge(case, impl, model):
    t = case.split()
    if t[0] == "parse_data":
        mode, bs = t[1], core.unhex(t[2])
        err = py_decode(bs)
        if err is not None:
            want = "ERR " + err + (" buf=" + core.hexs(bs) if mode in ("check", "decrypt") else "")
            if impl != want:
                return {"kind": "malformed frame not rejected as the layout rules say (or buffer modified)", "spec_output": want}
            return None
        if mode in ("mic", "check"):
            spec = core.run_lines(core.model_bin(), ["spec_mic %s %s %s" % (t[2], t[3], t[5])], 1)[0]
            ok = spec == "MIC 1"
            if mode == "mic" and impl != spec:
                return {"kind": "MIC verdict differs from the reference MIC", "spec_output": spec}
            if mode == "check":
                if not ok and impl != "ERR InvalidMic buf=" + t[2]:
                    return {"kind": "frame with a wrong MIC not rejected, or buffer modified on failure", "spec_output": "ERR InvalidMic buf=" + t[2]}
                if ok and impl.startswith("ERR InvalidMic"):
                    return {"kind": "authentic frame rejected", "spec_output": spec}
        if impl.startswith("ERR") and mode in ("check", "decrypt") and not impl.endswith("buf=" + t[2]):
            return {"kind": "failed decoding modified the caller's buffer", "spec_output": "buf=" + t[2]}
        # remaining differences (field extraction / plaintext): the model is proven to return the description
        # (C02_roundtrip, C02_views); a differing implementation output on this input is a wrong decode
        return {"kind": "decoded fields / plaintext differ from the reference decoder", "spec_output": model}
    if t[0] in ("parse_phy", "parse_jr", "ja_decrypt"):
        return {"kind": "classification / join frame decoding differs from the reference decoder", "spec_output": model}
    return None


def run(rep, tier, rng):
    core.proof_stage(rep, ID, THEOREMS)
    if not core.build_both(rep):
        return
    cases = gen(rng, tier)
    core.diff_stage(rep, "X:C02:parse+validate_mic+decrypt_in_place", cases, judge)
    dist = {}
    for c in cases:
        k = " ".join(c.split()[:2]) if c.startswith(("parse_data", "ja_decrypt")) else c.split()[0]
        dist[k] = dist.get(k, 0) + 1
    rep.cov["input_distribution"] = dist
    rep.cov["rule"] = ("valid frames built by the extracted spec from C01's description space, decoded with matching / same-upper-half / "
                       "wrong counters, swapped or missing keys; mutated frames (MHDR, FCtrl, length, MIC, payload, counter, address, random); "
                       "short strings over an MHDR/FCtrl alphabet; JoinRequest / JoinAccept (valid, wrong key, mutated, RFU CFList type)")
    core.finish_proof_failures(rep)
