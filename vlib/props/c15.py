"""C15 -- low-data-rate optimisation decided identically everywhere (exhaustive finite domain)."""
from .. import core

ID = "C15"
THEOREMS = ["C15_same_decision_everywhere", "C15_rule", "C15_chip_programmed", "C15_lorawan_ends"]
CHIPS = ["sx1261", "sx1262", "stm32wl", "sx1276", "sx1272", "lr1110"]


def gen(rng, tier):
    cases = []
    for sf in range(5, 13):
        for bw in range(10):
            cases.append("ldro_toa %d %d" % (sf, bw))
            for chip in CHIPS:
                for freq in (868100000, 433175000, 399999999, 400000000):
                    if chip in ("sx1276", "sx1272"):
                        for prior in (0, 255):
                            cases.append("ldro %s %d %d %d %d" % (chip, sf, bw, freq, prior))
                    else:
                        cases.append("ldro %s %d %d %d" % (chip, sf, bw, freq))
    return cases


def judge(case, impl, model):
    t = case.split()
    sf, bw = t[1:3] if t[0] == "ldro_toa" else t[2:4]
    spec = core.run_lines(core.model_bin(), ["ldro_spec %s %s" % (sf, bw)], 1)[0]
    if t[0] == "ldro_toa":
        if impl != spec:
            return {"kind": "airtime calculator LDRO decision differs from the 16.384 ms rule", "spec_output": spec}
        return None
    if impl == "ERR" or model == "ERR":
        return None      # support matrix differs: correspondence broken, not an LDRO decision
    parts = impl.split()
    if parts[0] != spec or (len(parts) > 1 and parts[1] != spec):
        return {"kind": "driver LDRO decision / programmed bit differs from the 16.384 ms symbol-time rule",
                "spec_output": spec, "args": "chip sf bw_index freq [prior register byte]"}
    return None


def run(rep, tier, rng):
    core.proof_stage(rep, ID, THEOREMS)
    if not core.build_both(rep):
        return
    cases = gen(rng, tier)
    core.diff_stage(rep, "X:C15:create_modulation_params+set_modulation_params", cases, judge)
    rep.cov["rule"] = ("all 8 SF x 10 BW x 6 chip variants x 4 frequencies (both sides of the 400 MHz rule) x prior "
                       "register contents {0x00,0xff} for read-modify-write chips, plus the airtime calculator; exhaustive")
    rep.cov["exhaustive"] = True
    core.finish_proof_failures(rep)
