"""C15 -- low-data-rate optimisation decided identically everywhere (exhaustive finite domain)."""
import re
from .. import core

ID = "C15"
THEOREMS = ["C15_same_decision_everywhere", "C15_rule", "C15_chip_programmed", "C15_lorawan_ends",
            "C15_sx1272_modulation_writes_ldro", "C15_sx1272_packet_params_keep_ldro", "C15_sx1272_ldro_survives_prepare",
            "C15_sx1276_modulation_writes_ldro", "C15_sx1272_bus_modulation", "C15_sx1272_bus_packet"]
CHIPS = ["sx1261", "sx1262", "stm32wl", "sx1276", "sx1272", "lr1110"]


def gen(rng, tier):
    cases = []
    for sf in range(5, 13):
        for bw in range(10):
            cases.append("ldro_toa %d %d" % (sf, bw))
            for chip in CHIPS:
                for freq in (868100000, 433175000, 399999999, 400000000):
                    if chip in ("sx1276", "sx1272"):
                        for prior in (0, 255):
                            cases.append("ldro %s %d %d %d %d" % (chip, sf, bw, freq, prior))
                    else:
                        cases.append("ldro %s %d %d %d" % (chip, sf, bw, freq))
    return cases


def judge(case, impl, model):
    t = case.split()
    sf, bw = t[1:3] if t[0] == "ldro_toa" else t[2:4]
    spec = core.run_lines(core.model_bin(), ["ldro_spec %s %s" % (sf, bw)], 1)[0]
    if t[0] == "ldro_toa":
        if impl != spec:
            return {"kind": "airtime calculator LDRO decision differs from the 16.384 ms rule", "spec_output": spec}
        return None
    if impl == "ERR" or model == "ERR":
        return None      # support matrix differs: correspondence broken, not an LDRO decision
    parts = impl.split()
    if parts[0] != spec or (len(parts) > 1 and parts[1] != spec):
        return {"kind": "driver LDRO decision / programmed bit differs from the 16.384 ms symbol-time rule",
                "spec_output": spec, "args": "chip sf bw_index freq [prior register byte]"}
    return None


def gen_seq(rng, tier):
    """SX127x register level: set_modulation_params and set_packet_params in both orders, every supported SF x BW, every header / CRC / IQ
    flag combination, on all-zero, all-one and random prior register contents; the LDRO bit is read from the emulated register file"""
    lines = []
    for chip in ("sx1276", "sx1272"):
        for sf in range(1, 8):
            for bw in (range(7, 10) if chip == "sx1272" else range(10)):
                for flags in range(8):
                    im, crc, iq = flags & 1, (flags >> 1) & 1, (flags >> 2) & 1
                    for prior in ((0, 255, rng.below(256)) if tier == "thorough" else (rng.choice([0, 255]), rng.below(256))):
                        regs = "29:%d,30:%d,38:%d" % (prior, prior, prior)
                        head = "phy chip=%s tcxo=- dcdc=0 rxboost=0 txboost=0 fault=- regs=%s reads=- fill=0 buf=- | " % (chip, regs)
                        mod = "mod %d %d %d 868100000" % (sf, bw, rng.below(4))
                        pkt = "pkt %d %d %d %d %d %d" % (rng.choice([8, 12, 300]), im, rng.below(256), crc, iq, sf)
                        lines.append(head + mod + " | " + pkt + " | dumpregs")
                        if prior in (0, 255):
                            lines.append(head + pkt + " | " + mod + " | dumpregs")
    return lines


def seq_judge(spec):
    def judge(case, impl, model):
        t = case.split(" | ")
        chip = "sx1272" if "chip=sx1272" in t[0] else "sx1276"
        mod = [x for x in t if x.startswith("mod ")][0].split()
        sf, bw = int(mod[1]) + 5, int(mod[2])
        parts = impl.split(" ; ")
        modout = parts[[i for i, x in enumerate(t[1:]) if x.startswith("mod ")][0]]
        if "Err" in modout or "PANIC" in impl:
            return None      # an unsupported pair is refused (the support matrix is C13's and the correspondence's business)
        m = re.search(r"regs=([0-9a-f]+)", parts[-1])
        if not m:
            return None
        regs = bytes.fromhex(m.group(1))
        bit = (regs[0x26 - 1] >> 3) & 1 if chip == "sx1276" else regs[0x1d - 1] & 1
        if str(bit) != spec[(sf, bw)]:
            return {"kind": "after set_modulation_params and set_packet_params the chip's LDRO bit differs from the 16.384 ms symbol-time rule",
                    "chip": chip, "sf": sf, "bw_index": bw, "register_bit": bit, "rule": spec[(sf, bw)]}
        return None
    return judge


def run(rep, tier, rng):
    core.proof_stage(rep, ID, THEOREMS)
    if not core.build_both(rep):
        return
    cases = gen(rng, tier)
    core.diff_stage(rep, "X:C15:create_modulation_params+set_modulation_params", cases, judge)
    pairs = [(sf, bw) for sf in range(5, 13) for bw in range(10)]
    spec = dict(zip(pairs, core.run_lines(core.model_bin(), ["ldro_spec %d %d" % p for p in pairs], 1)))
    core.diff_stage(rep, "X:C15:sx127x set_modulation_params/set_packet_params sequences (register file)", gen_seq(rng, tier), seq_judge(spec))
    rep.cov["rule"] = ("all 8 SF x 10 BW x 6 chip variants x 4 frequencies (both sides of the 400 MHz rule) x prior "
                       "register contents {0x00,0xff} for read-modify-write chips, plus the airtime calculator; exhaustive; SX1276 / SX1272 register level: "
                       "set_modulation_params and set_packet_params in both orders x every supported SF x BW x every header / CRC / IQ flag combination on "
                       "all-zero, all-one and random prior register contents, LDRO bit read back from the emulated register file")
    rep.cov["exhaustive"] = True
    core.finish_proof_failures(rep)
