"""C19 -- MAC-command builders, parsers and identifier text forms round-trip."""
import os
from .. import core
from . import c03

ID = "C19"
THEOREMS = ["C19_byte_fields", "C19_getters", "C19_signed_margin", "C19_le_fields", "C19_nano_seconds", "C19_sequences",
            "C19_hex_text", "C19_device_time_seconds_refuted", "C19_device_time_seconds_is_byteswap"]

# creator id -> (set used to parse it back, [(field id, kind, accessor index | None)]) ; kinds: u8 u4 bool u16 u24 u32 i6 raw12 echo push grp
CREATORS = {
    1: ("dl_mac", [(0, "u8", 0), (1, "u8", 1)]),
    2: ("dl_mac", [(0, "u4", 0), (1, "u4", 1), (2, "u16", 2), (3, "u8", 3)]),
    3: ("dl_mac", [(0, "u4", 0)]),
    4: ("dl_mac", [(0, "u8", 0), (1, "u24x100", 3)]),
    5: ("dl_mac", [(0, "u8", 0), (1, "u24x100", 1), (2, "u8", None)]),
    6: ("dl_mac", [(0, "u4", 0)]),
    7: ("dl_mac", [(0, "bool", 0), (1, "bool", 1), (2, "u4", None)]),
    8: ("dl_mac", [(0, "u8", 0), (1, "u24x100", 1)]),
    9: ("dl_mac", [(0, "u32", 0), (1, "ns", 1)]),
    10: ("ul_mac", [(0, "bool", 0), (1, "bool", 1), (2, "bool", 2)]),
    11: ("ul_mac", [(0, "bool", 0), (1, "bool", 1), (2, "bool", 2)]),
    12: ("ul_mac", [(0, "u8", 0), (1, "i6", 1)]),
    13: ("ul_mac", [(0, "bool", 0), (1, "bool", 1)]),
    14: ("ul_mac", [(0, "bool", 0), (1, "bool", 1)]),
    15: ("ul_dut", [(0, "u16", None)]),
    18: ("ul_mc", [(0, "u8", 0), (1, "u8", 1)]),
    19: ("dl_mc", [(0, "u4m", 0), (1, "grp", None)]),
    20: ("dl_mc", [(0, "u2", 0), (1, "u32", 1), (2, "u32", 2), (3, "u32", 3)]),
    21: ("ul_mc", [(0, "u2", 0)]),
    22: ("dl_mc", [(0, "u2", 0)]),
    23: ("ul_mc", [(0, "u2", 0), (1, "bool", 1)]),
}
KNOWN_WITNESS = "mc_build 9 0=16909060"       # DeviceTimeAns.seconds = 0x01020304


def rnd_val(rng, kind):
    if kind in ("u8",):
        return rng.below(256)
    if kind in ("u4", "u4m", "u2"):
        return rng.choice([rng.below(16), rng.below(256)])
    if kind == "bool":
        return rng.below(2)
    if kind == "u16":
        return rng.choice([0, 1, 0xFFFF, 0x8000, rng.below(1 << 16)])
    if kind == "u24x100":
        return rng.choice([0, 1, 0xFFFFFF, 8681000, rng.below(1 << 24)])
    if kind == "u32":
        return rng.choice([0, 1, 0xFFFFFFFF, 0x01020304, 0x10000, rng.below(1 << 32)])
    if kind == "ns":
        return rng.choice([0, 3906249, 3906250, 500000000, 999999999, 1000000000, 1000000001, rng.below(1 << 32)])
    if kind == "i6":
        return rng.choice([-128, -33, -32, -1, 0, 1, 31, 32, 127, rng.range(0, 255) - 128])
    if kind == "grp":
        return rng.below(256)
    return 0


def gen(rng, tier, meta):
    cases = []
    # byte-wide fields: every value on a fresh creator
    for c, (_, fields) in CREATORS.items():
        for f, kind, _ in fields:
            if kind in ("u8", "u4", "u4m", "u2", "bool", "grp"):
                for v in range(256):
                    cases.append("mc_build %d %d=%d" % (c, f, v))
            elif kind == "i6":
                for v in range(-128, 128):
                    cases.append("mc_build %d %d=%d" % (c, f, v))
            else:
                for _ in range(40):
                    cases.append("mc_build %d %d=%d" % (c, f, rnd_val(rng, kind)))
        # random setter sequences (order, repetition: neighbours must be undisturbed)
        for _ in range(60 if tier == "quick" else 1000):
            seq = []
            for _ in range(rng.range(1, 6)):
                f, kind, _ = rng.choice(fields)
                seq.append("%d=%d" % (f, rnd_val(rng, kind)))
            cases.append("mc_build %d %s" % (c, " ".join(seq)))
    for _ in range(100 if tier == "quick" else 2000):
        cases.append("mc_build 16 0=x%s" % rng.hex(12))
        cases.append("mc_build 17 0=x%s" % (rng.hex(rng.choice([1, 2, 16, 100, 241, rng.range(1, 241)]))))
        seq = ["0=%d" % rng.below(256)] if rng.chance(1, 2) else []
        for _ in range(rng.range(0, 6)):
            seq.append("1=%d:%d" % (rng.choice([0, 1, 2, 3, 3, 4, 7, 8, 255, rng.below(4)]), rng.below(1 << 32)))
            if rng.chance(1, 5):
                seq.append("0=%d" % rng.below(256))
        cases.append("mc_build 24 %s" % " ".join(seq))
    for c in (31, 32, 33, 34, 35, 36):
        cases.append("mc_build %d" % c)
    # accessors on arbitrary payload bytes: every CID with exhaustive first payload byte, random rest
    for s in c03.SETS:
        for (_, _, cid, ln) in meta[s]:
            n = 6 if ln is None else ln
            for b0 in range(256):
                cases.append("mc_read %s %s" % (s, core.hexs(bytes([cid] + ([b0] if n else [])) + rng.bytes(max(0, n - 1)))))
            for _ in range(30):
                cases.append("mc_read %s %s" % (s, core.hexs(bytes([cid]) + rng.bytes(n))))
    # sequences
    dl = [1, 2, 3, 4, 5, 6, 7, 8, 9, 31]
    ul = [10, 11, 12, 13, 14, 32, 33, 34, 35, 36]
    for _ in range(200 if tier == "quick" else 4000):
        ids = [rng.choice(rng.choice([dl, ul])) for _ in range(rng.below(8))]
        cases.append("mc_seq %d %s" % (rng.choice([0, 1, 5, 15, 16, 64]), ",".join(map(str, ids)) or "-"))
    # identifier text forms: all 2^16 DevNonce values, boundary + random wider values, malformed strings
    for v in range(0, 1 << 16, 1 if tier == "thorough" else 1):
        cases.append("ident devnonce %d" % v)
    for t, bits in (("devaddr", 32), ("mcaddr", 32), ("joinnonce", 24), ("netid", 24), ("deveui", 64), ("joineui", 64)):
        for v in [0, 1, (1 << bits) - 1, 1 << (bits - 1), 0x0102030405060708 & ((1 << bits) - 1)] + [rng.below(1 << bits) for _ in range(300)]:
            cases.append("ident %s %d" % (t, v))
        w = bits // 4
        for _ in range(120):
            k = rng.below(6)
            sgood = "".join(rng.choice("0123456789abcdefABCDEF") for _ in range(w))
            s = [sgood, sgood[:-1], sgood + "0", "+" + sgood[1:], "-" + sgood[1:], sgood[:w // 2] + "g" + sgood[w // 2 + 1:]][k]
            if s:
                cases.append("ident parse %s %s" % (t, s))
    for _ in range(300):
        cases.append("ident key %s" % rng.hex(16))
        cases.append("ident keys_deveui %s" % rng.hex(8))
    return cases


def roundtrip_oracle(case, impl, readback=None):
    """Property-level judgement of the implementation alone: values set on a fresh creator must read back.
    readback: the implementation's own parse of what it built (fetched here when not supplied by the batched pass)."""
    t = case.split()
    if t[0] != "mc_build" or impl.startswith(("ERR", "PANIC", "CRASH")):
        return None
    c = int(t[1])
    if c not in CREATORS:
        return None
    setname, fields = CREATORS[c]
    last = {}
    for a in t[2:]:
        f, v = a.split("=")
        if ":" in v or v.startswith("x"):
            return None
        last[int(f)] = int(v)
    out = readback if readback is not None else core.run_lines(core.harness_bin(), ["mc_read %s %s" % (setname, impl)], 1)[0]
    try:
        vals = out.split(" | ")[1].split(" ; ")[0].split()
    except Exception:
        return {"kind": "built command does not parse back", "spec_output": "a whole command"}
    if c == 19 and 1 in last:
        return None      # req_group deliberately ORs further bits into the same mask
    for f, kind, acc in fields:
        if acc is not None and f not in last and acc < len(vals) and kind in ("bool", "u8", "u4", "u4m", "u2", "u16", "u32"):
            # a field that was never set reads as the creator's initial value (zero): setters must not disturb their neighbours
            if vals[acc].lstrip("-").isdigit() and int(vals[acc]) != 0:
                return {"kind": "a creator setter disturbed a neighbouring field: a field that was never set does not read back as its initial value",
                        "creator": c, "untouched_field": f, "read": int(vals[acc]), "spec_output": "0"}
        if acc is None or f not in last:
            continue
        v = last[f]
        want = {"u8": v & 255, "u4": v, "u4m": v & 15, "u2": v & 3, "bool": 1 if v else 0, "u16": v, "u24x100": v * 100,
                "u32": v, "i6": v, "ns": ((v // 3906250) % 256) * 3906250}.get(kind)
        if want is None or acc >= len(vals):
            continue
        if int(vals[acc]) != want:
            return {"kind": "field value set through the creator does not read back from the parsed command",
                    "creator": c, "field": f, "set": v, "read": int(vals[acc]), "spec_output": str(want)}
    return None


def readback_lines(cases, outs):
    """the mc_read line for each built command (None where the case is not a round-trip candidate)"""
    ls = []
    for c, o in zip(cases, outs):
        t = c.split()
        ok = t[0] == "mc_build" and not o.startswith(("ERR", "PANIC", "CRASH")) and int(t[1]) in CREATORS
        ls.append("mc_read %s %s" % (CREATORS[int(t[1])][0], o) if ok else None)
    return ls


def judge(case, impl, model):
    v = roundtrip_oracle(case, impl)
    if v is not None and not (case.split()[1] == "9" and v.get("field") == 0):
        return v
    if case.startswith("mc_build 24 ") and not impl.startswith(("ERR", "PANIC", "CRASH")):
        # McGroupStatusAns (TS005): CID 0x01, status = NbTotalGroups (bits 6..4) | AnsGroupMask (bits 3..0), then one item
        # (McGroupID, McAddr little-endian) per reported group -- whatever the order in which the setters were called
        total, groups = 0, []
        for a in case.split()[2:]:
            f, v = a.split("=")
            if f == "0":
                total = int(v) & 7
            elif ":" in v:
                g, addr = (int(x) for x in v.split(":"))
                groups.append((g, addr))
        if groups and len({g for g, _ in groups}) == len(groups) and all(0 <= g <= 3 for g, _ in groups):
            mask = 0
            for g, _ in groups:
                mask |= 1 << g
            want = "01%02x" % ((total << 4) | mask) + "".join("%02x" % g + addr.to_bytes(4, "little").hex() for g, addr in groups)
            if impl.split()[0] != want:
                return {"kind": "McGroupStatusAns: NbTotalGroups / AnsGroupMask / items set through the creator are not what the built command carries "
                                "(a setter disturbed a neighbouring field)", "built": impl.split()[0], "spec_output": want}
    if case.startswith("mc_build 17 "):
        # certification EchoIncPayloadAns: CID 0x08 followed by every request byte incremented by one (mod 256), up to 241 bytes
        req = bytes.fromhex(case.split("=x")[1])
        want = "08" + bytes((b + 1) & 0xFF for b in req[:241]).hex()
        if impl.split()[0] != want:
            return {"kind": "EchoIncPayloadAns does not carry the whole echo payload (each byte + 1): builder output does not parse back to what was built from",
                    "payload_len": len(req), "built_len": len(impl.split()[0]) // 2 - 1, "spec_output": want[:80] + "..."}
    if case.startswith("ident") and not case.startswith("ident parse"):
        t = case.split()
        parts = impl.split()
        if t[1] in ("key", "keys_deveui"):
            if len(parts) != 2 or parts[1] != t[2]:
                return {"kind": "key / EUI text form does not parse back to the same bytes", "spec_output": model}
        else:
            if len(parts) < 2 or parts[1] != t[2]:
                return {"kind": "identifier text form does not parse back to the same value", "spec_output": model}
            w = len(parts[0]) // 2
            if parts[0] != "%0*x" % (2 * w, int(t[2])):
                return {"kind": "identifier text form is not MSB-first hex", "spec_output": model}
    return None


def run(rep, tier, rng):
    tr = c03.translator()
    try:
        text, meta = tr.generate()
        dst = os.path.join(core.COQ, "Gen", "CmdTables.v")
        if not os.path.exists(dst) or open(dst).read() != text:
            open(dst, "w").write(text)
    except tr.Untranslatable as e:
        rep.violation({"kind": "translator-rejected-source", "tie": "T:Gen.CmdTables", "error": str(e)}, concrete=False)
        meta = None
    core.proof_stage(rep, ID, THEOREMS)
    if not core.build_both(rep) or meta is None:
        core.finish_proof_failures(rep)
        return
    cases = gen(rng, tier, meta)
    core.diff_stage(rep, "X:C19:creators+accessors+text-forms", cases, judge)
    # property-level pass over the implementation alone (independent of the model): fresh-creator round trips
    sample = [c for c in cases if c.startswith("mc_build")]
    outs = core.run_lines(core.harness_bin(), sample)
    known = core.load_known(ID)
    bad, known_hit = 0, False
    chk = 0
    sample = sample + [KNOWN_WITNESS]
    outs = outs + core.run_lines(core.harness_bin(), [KNOWN_WITNESS], 1)
    rb = readback_lines(sample, outs)          # every built command is parsed back by the implementation itself, in one batch
    rbo = iter(core.run_lines(core.harness_bin(), [l for l in rb if l is not None]))
    for c, o, l in zip(sample, outs, rb):
        if l is None:
            continue
        v = roundtrip_oracle(c, o, next(rbo))
        chk += 1
        if v is None:
            continue
        if v.get("creator") == 9 and v.get("field") == 0 and "device-time-seconds-byte-order" in known:
            known_hit = True
            continue
        bad += 1
        if bad <= 3:
            v.update({"case": c, "impl_output": o})
            rep.violation(v, concrete=True)
    rep.cov["roundtrip_oracle_checked"] = chk
    if known_hit:
        rep.known("id=device-time-seconds-byte-order DeviceTimeAnsCreator::set_seconds writes little-endian, DeviceTimeAnsPayload::seconds reads "
                  "big-endian (e.g. set 0x01020304 reads 0x04030201); both orders are pinned by tests test_device_time_ans / test_device_time_ans_creator")
    rep.cov["rule"] = ("every value of every byte-wide creator field, boundary/random wider values, random setter sequences, push/echo/raw creators, "
                       "accessors on every CID with exhaustive first payload byte, build_mac_commands sequences, all 2^16 DevNonce text forms, "
                       "boundary/random 24/32/64/128-bit identifiers and keys, malformed strings")
    core.finish_proof_failures(rep)
