"""C12 -- uplink header bits and ADR back-off follow the session history."""
from .. import core, machist, macstage

ID = "C12"
THEOREMS = ["C12_next_lower", "C12_timeout_step_refines", "C12_backoff_points", "C12_uplink_header", "C12_accepted_downlink"]
KINDS = ["ACK bit", "ADR bit", "ADRACKReq", "device address", "message type", "data rate"]


def adr_history(rng, region, uplinks):
    net = machist.Net(rng, region)
    net.abp()
    dr0 = rng.choice(list(machist.UPLINK_DR[region]))
    net.op("dr %d" % dr0)
    if rng.chance(1, 3):
        net.op("patch adrcnt=%d" % rng.choice([60, 62, 63, 90, 94, 95, 126, 127, 200]))
    for i in range(uplinks):
        net.send(rng.bytes(rng.below(3)), rng.range(1, 200), rng.chance(1, 5), ndraws=40)
        k = rng.below(40)
        if k == 0:
            net.downlink(port=rng.choice([None, 4]), payload=b"", confirmed=rng.chance(1, 2))          # accepted
        elif k == 1:
            net.downlink(port=4, payload=b"n", nwk=rng.bytes(16), accept=False)                          # rejected
            net.rx2c()
        elif k == 2:
            net.rx2c()
            net.op("adr %d" % rng.below(2))
        elif k == 3:
            net.rx2c()
            net.op("dr %d" % rng.choice(list(machist.UPLINK_DR[region])))
        elif k == 4:
            net.rx2c()
            net.downlink(port=rng.choice([None, 9]), payload=b"", confirmed=rng.chance(1, 2), rxc=True)   # Class C downlink between uplinks
        elif k == 5:
            net.downlink(port=9, payload=b"c", confirmed=rng.chance(1, 2), rxc=True)                       # Class C downlink before RX1/RX2
            net.rx2c()
        elif k == 6:
            # an ACK owed from a Class C downlink must survive a second accepted downlink (RX1/RX2) before the next uplink
            net.downlink(port=9, payload=b"c", confirmed=rng.chance(3, 4), rxc=True)
            net.downlink(port=rng.choice([None, 4]), payload=b"", confirmed=rng.chance(1, 4))
        elif k == 7:
            net.rx2c()
            for _ in range(rng.range(2, 3)):
                net.downlink(port=rng.choice([None, 9]), payload=b"", confirmed=rng.chance(1, 2), rxc=True)
        else:
            net.rx2c()
        if i % 8 == 0 or k < 8:
            net.snap()
    net.snap()
    return net.line()


def dr_oracle(case, impl, model=None):
    """the data rate used for an uplink = the reference's current data rate (steps down only at 96, 128, ...)"""
    from .. import refdev
    parts = [p.strip() for p in case.split("|")]
    outs = impl.split(" ; ")
    ref = refdev.Ref(parts[0])
    # SF/BW of each region-defined DR as the device reports them in TX lines: compare DR through the snapshot instead
    for i, op in enumerate(parts[1:]):
        if i >= len(outs) or outs[i] in ("PANIC", "HANG"):
            break
        try:
            ref.step(op, outs[i])
        except Exception:
            return None
        if op == "snap" and ref.joined and outs[i].startswith("dr="):
            dr = int(outs[i].split()[0][3:])
            if dr != ref.dr:
                return {"kind": "data rate differs from the ADR back-off rule (next lower region-defined rate after 96, 128, ... uplinks without downlink, never otherwise)",
                        "device_dr": dr, "reference_dr": ref.dr, "since_downlink": ref.since_dl, "at_op": i}
    return None


def threshold_history(rng, region, start, confirmed_mix):
    """a silent run across an ADR threshold (64: ADRACKReq; 96, 128: step down) made of confirmed and unconfirmed uplinks alike"""
    net = machist.Net(rng, region)
    net.abp()
    net.op("dr %d" % max(machist.UPLINK_DR[region]))
    net.op("patch adrcnt=%d" % start)
    net.snap()
    for i in range(12):
        conf = (i % 2 == 0) if confirmed_mix == 1 else (confirmed_mix == 2)
        net.send(rng.bytes(rng.below(3)), rng.range(1, 200), conf, ndraws=40)
        net.rx2c()
        net.snap()
    return net.line()


def gen(rng, tier):
    lines = [threshold_history(rng.fork("t%d-%d-%d" % (region, st, mix)), region, st, mix)
             for region in range(9) for st in (57, 89, 121) for mix in (0, 1, 2)]
    n, length = (4, 230) if tier == "quick" else (60, 600)
    for region in range(9):
        for i in range(n):
            lines.append(adr_history(rng.fork("a%d-%d" % (region, i)), region, length if i % 2 == 0 else 140))
    return lines


def run(rep, tier, rng):
    core.proof_stage(rep, ID, THEOREMS)
    if not core.build_both(rep):
        core.finish_proof_failures(rep)
        return
    lines = gen(rng, tier)
    core.diff_stage(rep, "X:C12:mac-histories(long)", lines, macstage.make_judge(KINDS, extra=dr_oracle))
    macstage.oracle_pass(rep, lines, KINDS, extra=dr_oracle)
    rep.cov["uplinks"] = sum(l.count("| send ") for l in lines)
    rep.cov["rule"] = ("histories of 140..600 uplinks per session in all 9 regions interleaved with accepted / rejected / confirmed downlinks, ADR toggles and "
                       "data-rate overrides, starting data rate over every region-defined uplink DR, ADR counts patched next to 64 / 96 / 128; model vs implementation "
                       "step by step, and every uplink's header bits and the data rate judged by the independent reference machine")
    core.finish_proof_failures(rep)
