"""C16 -- time on air equals the Semtech formula exactly (lora-modulation/src/lib.rs)."""
from .. import core

ID = "C16"
THEOREMS = ["C16_value", "C16_never_overflows", "C16_monotone"]


def gen(rng, tier):
    cases = []
    if tier == "thorough":
        pres = ["none"] + [str(p) for p in range(256)]
    else:
        pres = ["none", "0", "8", "255"] + sorted({str(rng.range(1, 254)) for _ in range(4)})
    for sf in range(5, 13):
        for bw in range(10):
            for cr in range(5, 9):
                for hdr in (0, 1):
                    for p in pres:
                        cases.append("toa_sweep %d %d %d %s %d" % (sf, bw, cr, p, hdr))
    # single boundary cases (the repaired div_ceil classes: numerator in (-den, 0])
    for sf in (11, 12):
        for bw in range(10):
            for hdr in (0, 1):
                for ln in range(0, 6):
                    cases.append("toa %d %d 5 none %d %d" % (sf, bw, hdr, ln))
    for sf in range(5, 13):
        for bw in range(10):
            for ms in (0, 1, 25, 1000, 4294967):
                cases.append("delay_in_symbols %d %d %d" % (sf, bw, ms))
            for n in (0, 1, 8, 1023, 8189):
                cases.append("symbols_to_ms %d %d %d" % (sf, bw, n))
    return cases


def expand(case):
    t = case.split()
    if t[0] != "toa_sweep":
        return None
    return ["toa %s %s %s %s %s %d" % (t[1], t[2], t[3], t[4], t[5], ln) for ln in range(256)]


def judge(case, impl, model):
    t = case.split()
    if t[0] != "toa":
        return None
    spec = core.run_lines(core.model_bin(), ["toa_spec " + " ".join(t[1:])], 1)[0]
    if impl != spec:
        return {"kind": "time-on-air differs from the Semtech formula", "spec_output": spec,
                "args": "sf bw_index cr_denominator preamble explicit_header len = " + " ".join(t[1:])}
    return None


def run(rep, tier, rng):
    core.proof_stage(rep, ID, THEOREMS)
    if not core.build_both(rep):
        return
    cases = gen(rng, tier)
    core.diff_stage(rep, "X:C16:time_on_air_us", cases, judge, expand)
    rep.cov["rule"] = ("toa_sweep = digest over all 256 payload lengths for one (sf,bw,cr,preamble,header); "
                       "quick: 8 preamble settings, thorough: all 257 (42.1 M cases, exhaustive); each sweep "
                       "counts as one evaluation; distinct = distinct (case, output) pairs")
    rep.cov["exhaustive"] = (tier == "thorough")
    rep.cov["cases_inside_sweeps"] = sum(256 for c in cases if c.startswith("toa_sweep"))
    core.finish_proof_failures(rep)
