"""C14 -- the PHY driver and the radio chip never disagree about the radio's state.

Three things run on every generated API history (LoRa<RK,DLY> and the LoRaWAN adapter, SX126x and SX127x emulated chips, scripted
interrupt outcomes, a pin fault at a chosen event, a wait that never completes):
  * the Coq model of the driver (Model/LoraDrv.v over Model/Sx126x.v / Sx127x.v) and the real driver must print the same results,
    driver fields and pin-level trace (correspondence);
  * the chip-side monitor (vlib/phymon.py here, Spec/ChipMon.v in Coq -- compared with each other on the real traces) reads the
    pin-level trace of the real driver and the rules of the property are judged on it (oracle below).
"""
import re
from .. import core, phymon

ID = "C14"
THEOREMS = ["C14_wrong_mode_refused_without_commanding", "C14_sx126x_every_history", "C14_sx126x_failed_operation", "C14_sx127x_every_history",
            "C14_sx127x_failed_operation", "C14_adapter_sx126x", "C14_adapter_sx127x", "C14_initial_state", "C14_sx126x_history_example", "C14_sx127x_failed_reset_history"]

F = [868100000, 433050000, 915000000]
CHIPS = [("sx1262", "2", 1), ("sx1261", "-", 0), ("stm32wl_hp", "-", 1), ("sx1276", "-", 0), ("sx1272", "2", 0)]


def fam(chip):
    return 127 if chip.startswith("sx127") else 126


def irq(chip, kind):
    if fam(chip) == 126:
        return {"txdone": "1", "rxdone": "2:000500", "timeout": "512", "crc": "66:000500", "hdr": "32", "spurious": "0", "preamble": "4",
                "caddone": "128", "cadhit": "384"}[kind]
    return {"txdone": "8", "rxdone": "64", "timeout": "128", "crc": "96", "hdr": "16", "spurious": "0", "preamble": "2", "caddone": "4", "cadhit": "5"}[kind]


def onirq(chip, kinds):
    return "@onirq=%s " % ",".join(irq(chip, k) for k in kinds) if kinds else ""


PTX = "ptx 2 7 0 868100000 14 0102"
PRX = {"s": "prx s 10 2 7 0 868100000", "c": "prx c 2 7 0 868100000", "d": "prx d 100 200 2 7 0 868100000"}
PCAD = "pcad 2 7 0 868100000"


def contexts(chip):
    c = {
        "standby": [], "sleep_cold": ["sleep 0"], "sleep_warm": ["sleep 1"], "tx_prepared": [PTX], "tx_in_flight": [PTX, "@pend=0 tx"],
        "tx_done": [PTX, onirq(chip, ["txdone"]) + "tx"], "tx_timed_out": [PTX, onirq(chip, ["timeout"]) + "tx"],
        "rx_prepared_single": [PRX["s"]], "rx_prepared_cont": [PRX["c"]], "rx_prepared_duty": [PRX["d"]],
        "receiving_single": [PRX["s"], "startrx"], "receiving_cont": [PRX["c"], "startrx"], "receiving_duty": [PRX["d"], "startrx"],
        "rx_timed_out": [PRX["s"], onirq(chip, ["timeout"]) + "rx 16"], "rx_done": [PRX["s"], onirq(chip, ["rxdone"]) + "rx 16"],
        "cad_prepared": [PCAD], "cad_in_flight": [PCAD, "@pend=0 cad 2"], "listening": ["listen 868100000 7"],
        "init_failed_after_reset": [PTX, "@fault=1 init"], "cold_start_failed": ["sleep 0", "@fault=6 " + PTX],
        "rx_prepared_then_init_failed": [PRX["c"], "@fault=2 init"], "init_failed_in_reset_sequence": [PTX, "@fault=0 init"],
    }
    return c


def op_variants(chip):
    v = ["init", "sleep 0", "sleep 1", PTX, "ptx 7 9 0 915000000 22 " + "ab" * 40, PRX["s"], PRX["c"], PRX["d"], "startrx", "switch 868300000",
         "listen 868300000 7", PCAD, "sync 5156", "sync 13380"]
    for ks in (["txdone"], ["timeout"], ["spurious", "txdone"], ["rxdone"], []):
        v.append(onirq(chip, ks) + "tx")
    for ks in (["rxdone"], ["timeout"], ["crc"], ["hdr", "timeout"], ["spurious", "preamble", "rxdone"], ["txdone"], []):
        v.append(onirq(chip, ks) + "completerx 16")
        v.append(onirq(chip, ks) + "rx 16")
    for ks in (["caddone"], ["cadhit"], ["timeout"], ["spurious"], []):
        v.append(onirq(chip, ks) + "cad 2")
    v.append("rxresult 16")
    return v


def probes(chip):
    """what follows the operation under test: anything wrongly left prepared gets started"""
    return [onirq(chip, ["txdone"]) + "tx", onirq(chip, ["rxdone"]) + "rx 16", onirq(chip, ["caddone"]) + "cad 2", "sleep 0", PTX, onirq(chip, ["txdone"]) + "tx"]


def head(chip, tcxo, dcdc, kind="lora"):
    return "%s chip=%s tcxo=%s dcdc=%d" % (kind, chip, tcxo, dcdc)


def bare(op):
    return [t for t in op.split() if not t.startswith("@")]


def pin_events(trace):
    return sum(1 for t in phymon.tokens(trace) if not t.startswith("DELAY") and t != "IRQ-PENDING")


def fault_positions(trace):
    """the positions the fault model has: SPI transactions, BUSY waits, IRQ waits (reset / RF-switch outputs do not count)"""
    return list(range(sum(1 for t in phymon.tokens(trace) if t[0] == "w" or t in ("BUSY", "IRQ"))))


def off_scope_fault(out):
    """a fault on the reset or RF-switch pins: outside the property's fault model (SPI / busy / IRQ)"""
    return any(t in out for t in ("RESET!", "SWRX!", "SWTX!", "SWOFF!"))


def irq_waits(trace):
    return sum(1 for t in phymon.tokens(trace) if t in ("IRQ", "IRQ!", "IRQ-PENDING"))


# ----------------------------------------------------------------------------------------------------------- the oracle
MON_ITEM = {"packet_type": 0, "sync_word": 1, "regulator": 2, "tcxo": 3, "buffer_bases": 4, "modulation": 5, "packet": 6, "irq": 7, "frequency": 8,
            "tx_params": 9, "pa_config": 10, "cad_params": 11, "lora_mode": 12, "frequency_mid": 13, "frequency_lsb": 14, "modulation2": 15,
            "modulation3": 16, "preamble_msb": 17, "preamble": 18, "payload_length": 19, "invert_iq": 20, "invert_iq2": 21, "irq_mask": 22,
            "dio_mapping": 23, "tx_base": 24, "rx_base": 25}
AGREE = {"tx": ("tx",), "rxs": ("rx1",), "rxc": ("rxc",), "rxd": ("duty",), "listen": ("rxc",), "cad": ("cad",)}


def mon_state(mon):
    return "mode=%s awake=%d asleep=%d start=%d valid=%s" % (
        mon.mode, 1 if mon.awake else 0, 1 if any("without waking" in v or "sleeps" in v for v in mon.viol) else 0,
        1 if any("not programmed" in v for v in mon.viol) else 0, ",".join(str(t) for t in sorted(MON_ITEM[i] for i in mon.valid)))


def judge(case, out, want_monline=False):
    """None when the history shows no violation of the property, else a dict; with want_monline also the chipmon line and the
    python monitor's state after each operation."""
    hd = dict(kv.split("=", 1) for kv in case.split("|")[0].split()[1:])
    chip = hd["chip"]
    mon = phymon.Chip(fam(chip), hd.get("tcxo", "-") != "-", hd.get("dcdc", "0") == "1")
    ops = [p.strip() for p in case.split("|")][1:]
    parts = out.split(" ; ")
    monops, monstates = [], []
    v = None
    if not parts[0].startswith("new Ok") or off_scope_fault(out):
        return (None, None, None) if want_monline else None
    mon.op = "new"
    tr0 = parts[0].split(" :: ")[1] if " :: " in parts[0] else ""
    for t in phymon.tokens(tr0):
        mon.event(t)
    monops.append("new : " + tr0)
    monstates.append(mon_state(mon))
    prev_mode = "standby"
    for idx, (op, o) in enumerate(zip(ops, parts[1:])):
        name = bare(op)[0]
        if o.startswith("PANIC"):
            break          # an unimplemented branch of the driver (SX127x duty-cycle status: todo!()); nothing this property speaks about follows a panic
        if o.startswith("OUT-OF-FUEL") or "EVENT-BUDGET" in o:
            v = v or {"kind": "the driver did not terminate", "op_index": idx, "op": op, "output": o[:200]}
            break
        p = phymon.parse_op(o)
        if p is None:
            if o.startswith("CreateErr") or o.startswith("BADOP"):
                continue
            v = v or {"kind": "output not understood", "op_index": idx, "op": op, "output": o[:200]}
            break
        res, dmode, cold, trace = p
        dm = re.sub(r"[0-9:]+$", "", dmode)
        mon.op = name
        nviol = len(mon.viol)
        mon.time_passes()
        for t in phymon.tokens(trace):
            mon.event(t)
        monops.append("%s : %s" % (name, trace))
        monstates.append(mon_state(mon))
        where = {"op_index": idx, "op": op, "result": res[:80], "driver_mode": dmode, "driver_cold_start": cold, "chip_mode": mon.mode}
        if v is None and len(mon.viol) > nviol:
            v = dict(where, kind=mon.viol[nviol])
        # (a) an operation invoked in the wrong mode is refused without commanding the chip
        if v is None and "InvalidRadioMode" in res and (trace.strip() or dmode != prev_mode):
            v = dict(where, kind="an operation refused for the radio mode still commanded the chip or changed the driver's state")
        failed = res.startswith("Err") and "InvalidRadioMode" not in res and not res.startswith("Err(NoRxParams")
        pin_fault = "!" in trace
        if v is None and failed and not pin_fault:
            # (d) after a failed or timed-out operation the chip is left in standby and the driver knows it:
            #   a timeout reported by the chip (the error paths of tx / complete_rx / cad): standby on both sides;
            #   a continuous reception goes on whatever one completion returned;
            #   an error found before the radio was started or after the reception had ended (unsupported mode, sizes, status):
            #   the chip is in standby and the driver is in standby or still in the prepared state it was in
            pm = re.sub(r"[0-9:]+$", "", prev_mode)
            if pm == "rxc" and dmode == prev_mode:
                ok = mon.mode in ("rxc", "stby")
            elif "Timeout" in res:
                ok = dmode == "standby" and mon.mode == "stby"
            else:
                ok = mon.mode == "stby" and (dmode == "standby" or dmode == prev_mode)
            if not ok:
                v = dict(where, kind="after a failed operation the chip is not in standby, or the driver does not know it")
        if v is None:
            # the agreement that every later operation relies on -- also after pin faults and cancelled waits
            if mon.mode == "sleep" and dm != "sleep":
                v = dict(where, kind="the chip sleeps while the driver believes it awake")
            elif dm == "standby" and mon.mode != "stby":
                v = dict(where, kind="the driver believes the chip in standby while it is not")
            elif mon.mode in ("tx", "rx1", "rxc", "duty", "cad", "fs") and mon.mode not in AGREE.get(dm, ()):
                v = dict(where, kind="the chip is in an active mode the driver does not know about")
            elif not cold and [i for i in mon.need("base") if i not in mon.valid]:
                v = dict(where, kind="the chip has lost its configuration but the driver's cold_start flag is clear")
        prev_mode = dmode
    if want_monline:
        line = "chipmon fam=%d tcxo=%d dcdc=%d | %s" % (fam(chip), 1 if mon.tcxo else 0, 1 if mon.dcdc else 0, " | ".join(monops))
        return v, line, " ; ".join(monstates)
    return v


# ----------------------------------------------------------------------------------------------------------- generation
def random_history(rng, chip, tcxo, dcdc, n):
    ops = []
    for _ in range(n):
        k = rng.choice(["init", "sleep", "ptx", "tx", "prx", "startrx", "completerx", "rx", "switch", "listen", "pcad", "cad", "sync", "tx", "rx", "ptx", "prx"])
        pre = ""
        r = rng.below(100)
        if r < 25:
            pre = "@fault=%d " % rng.below(45)
        elif r < 33:
            pre = "@pend=%d " % rng.below(3)
        kinds = [rng.choice(["txdone", "rxdone", "timeout", "crc", "hdr", "spurious", "preamble", "caddone", "cadhit"]) for _ in range(rng.below(3))]
        if k == "tx" and rng.chance(6, 10):
            kinds.append("txdone")
        if k in ("rx", "completerx") and rng.chance(6, 10):
            kinds.append(rng.choice(["rxdone", "timeout"]))
        if k == "cad" and rng.chance(6, 10):
            kinds.append("caddone")
        pre += onirq(chip, kinds)
        f = rng.choice(F)
        if k == "sleep":
            op = "sleep %d" % rng.below(2)
        elif k == "ptx":
            op = "ptx %d %d 0 %d %d %s" % (rng.choice([2, 7, 0]), rng.choice([7, 8, 9]), f, rng.range(-9, 22), rng.hex(rng.range(1, 30)))
        elif k == "prx":
            op = "prx %s %d 7 0 %d" % (rng.choice(["s 10", "c", "d 100 200", "s 0"]), rng.choice([2, 7]), f)
        elif k in ("completerx", "rx"):
            op = "%s %d" % (k, rng.choice([16, 4, 255]))
        elif k == "switch":
            op = "switch %d" % f
        elif k == "listen":
            op = "listen %d 7" % f
        elif k == "pcad":
            op = "pcad 2 7 0 %d" % f
        elif k == "cad":
            op = "cad 2"
        elif k == "sync":
            op = "sync %d" % rng.choice([13380, 5156, 4660])
        else:
            op = k
        ops.append(pre + op)
    return head(chip, tcxo, dcdc) + " | " + " | ".join(ops)


def lwr_ops(chip):
    v = ["setuprx 2 7 0 868100000 1000", "setuprx 7 7 0 869525000 50", "setuprx 2 7 0 868100000 c", "tx 2 7 0 868100000 14 0102030405", "lowpower"]
    for ks in (["txdone"], ["timeout"], []):
        v.append(onirq(chip, ks) + "tx 2 7 0 868300000 14 aabbcc")
    for ks in (["rxdone"], ["timeout"], ["crc"], ["spurious", "rxdone"], []):
        v.append(onirq(chip, ks) + "rxsingle 32")
        v.append(onirq(chip, ks) + "rxcont 32")
    return v


def run(rep, tier, rng):
    core.proof_stage(rep, ID, THEOREMS)
    if not core.build_both(rep):
        core.finish_proof_failures(rep)
        return
    quick = tier == "quick"
    # ---- systematic: every context x every operation (x interrupt outcome), followed by probes
    base = []
    for chip, tcxo, dcdc in CHIPS:
        if quick and chip in ("stm32wl_hp",):
            continue
        cx = contexts(chip)
        for cname, cops in cx.items():
            for opv in op_variants(chip):
                base.append((chip, tcxo, dcdc, cops, opv))
    lines = [head(c, t, d) + " | " + " | ".join(cops + [opv] + probes(c)) for (c, t, d, cops, opv) in base]
    # ---- pass 1 (no fault) tells how many pin events and interrupt waits the operation under test has
    out1 = core.run_lines(core.harness_bin(), lines)
    swept = []
    for (c, t, d, cops, opv), o in zip(base, out1):
        parts = o.split(" ; ")
        k = 1 + len(cops)
        if k >= len(parts):
            continue
        tr = parts[k].split(" :: ")[1] if " :: " in parts[k] else ""
        nw = irq_waits(tr)
        if "@fault" in opv or "@pend" in opv:
            continue
        ks = fault_positions(tr)
        if quick:
            ks = [x for x in ks if (x + len(opv) + len(cops)) % 6 == rng.below(6)] if c not in ("sx1262", "sx1276") else [x for x in ks if (x + len(opv)) % 3 == rng.below(3)]
        for x in ks:
            swept.append(head(c, t, d) + " | " + " | ".join(cops + ["@fault=%d %s" % (x, opv)] + probes(c)))
        for x in range(nw):
            swept.append(head(c, t, d) + " | " + " | ".join(cops + ["@pend=%d %s" % (x, opv)] + probes(c)))
    # ---- all ordered pairs / triples of operations from standby
    seqs = []
    alpha = {}
    for chip, tcxo, dcdc in (CHIPS[0], CHIPS[3]):
        al = ["init", "sleep 0", "sleep 1", PTX, onirq(chip, ["txdone"]) + "tx", onirq(chip, ["timeout"]) + "tx", PRX["s"], PRX["c"], PRX["d"], "startrx",
              onirq(chip, ["rxdone"]) + "completerx 16", onirq(chip, ["timeout"]) + "completerx 16", "switch 868300000", "listen 868300000 7", PCAD,
              onirq(chip, ["caddone"]) + "cad 2", "sync 5156", "@pend=0 tx", "@pend=0 rx 16"]
        alpha[chip] = al
        for a in al:
            for b in al:
                if quick:
                    seqs.append(head(chip, tcxo, dcdc) + " | " + " | ".join([a, b] + probes(chip)[:3]))
                else:
                    for c3 in al:
                        seqs.append(head(chip, tcxo, dcdc) + " | " + " | ".join([a, b, c3] + probes(chip)[:3]))
    # ---- random histories
    rnd = []
    for i in range(1500 if quick else 30000):
        chip, tcxo, dcdc = rng.choice(CHIPS)
        rnd.append(random_history(rng, chip, rng.choice(["-", "2"]), rng.below(2), rng.range(2, 9)))
    # ---- the LoRaWAN adapter
    lw = []
    for chip, tcxo, dcdc in CHIPS:
        ops = lwr_ops(chip)
        for a in ops:
            for b in ops:
                lw.append(head(chip, tcxo, dcdc, "lwr") + " | " + " | ".join([a, b, onirq(chip, ["txdone"]) + "tx 2 7 0 868100000 14 01"]))
    lw1 = core.run_lines(core.harness_bin(), lw[:])
    lwf = []
    for line, o in zip(lw, lw1):
        parts = o.split(" ; ")
        segs = [p.strip() for p in line.split("|")]
        if len(parts) < 3 or "@" in segs[2] and False:
            continue
        tr = parts[2].split(" :: ")[1] if " :: " in parts[2] else ""
        ks = fault_positions(tr)
        if quick:
            ks = [x for x in ks if x % 12 == rng.below(12)]
        else:
            ks = [x for x in ks if x % 2 == rng.below(2)]
        for x in ks:
            lwf.append(" | ".join([segs[0], segs[1], "@fault=%d %s" % (x, segs[2])] + segs[3:]))
    allc = lines + swept + seqs + rnd + lw + lwf
    rep.cov["case_mix"] = {"context_x_operation": len(lines), "fault_or_pending_at_every_position": len(swept), "operation_sequences": len(seqs),
                           "random_histories": len(rnd), "adapter_pairs": len(lw), "adapter_faults": len(lwf)}

    def jd(c, i, m):
        try:
            v = judge(c, i)
            return None if v and v.get("known") in core.load_known(ID) else v
        except Exception as e:
            return {"kind": "output not understood", "error": repr(e)}
    core.diff_stage(rep, "X:C14:lora-histories", allc, jd)
    # ---- the rules of the property judged on the real driver's traces, whatever the model says
    io = core.run_lines(core.harness_bin(), allc)
    known = core.load_known(ID)
    known_hits = {}
    bad, monlines, monwant = 0, [], []
    kinds = {}
    for c, o in zip(allc, io):
        try:
            v, ml, ms = judge(c, o, want_monline=True)
        except Exception as e:
            v, ml, ms = {"kind": "output not understood", "error": repr(e)}, None, None
        if ml:
            monlines.append(ml)
            monwant.append(ms)
        for p in o.split(" ; ")[1:]:
            r = p.split(" mode=")[0].split("(")[0] + ("(" + p.split("(")[1].split(")")[0].split(" ")[0] + ")" if p.startswith("Err(") else "")
            kinds[r[:40]] = kinds.get(r[:40], 0) + 1
        if v and v.get("known") in known:
            known_hits[v["known"]] = known_hits.get(v["known"], 0) + 1
        elif v:
            bad += 1
            if bad <= 3:
                v.update({"case": c, "impl_output": o[:6000]})
                rep.violation(v, concrete=True)
    for k, n in sorted(known_hits.items()):
        rep.known("id=%s %s (%d generated histories)" % (k, known[k][:300], n))
    rep.cov["result_kinds"] = dict(sorted(kinds.items(), key=lambda kv: -kv[1])[:25])
    # ---- the Coq monitor (Spec/ChipMon.v, extracted) against the python one on those traces
    step = 1 if not quick else 3
    ml, mw = monlines[::step], monwant[::step]
    mo = core.run_lines(core.model_bin(), ml)
    dis = [(a, b, c) for a, b, c in zip(ml, mo, mw) if b != c]
    rep.cov.setdefault("correspondence", {})["X:C14:chip-monitor"] = {"cases": len(ml), "disagreements": len(dis)}
    if dis:
        a, b, c = dis[0]
        rep.violation({"kind": "correspondence-broken", "correspondence": "X:C14:chip-monitor (Spec/ChipMon.v against vlib/phymon.py)",
                       "trace": a[:3000], "coq_monitor": b[:1500], "python_monitor": c[:1500]}, concrete=False)
    rep.cov["rule"] = ("every context (21: standby, asleep cold/warm, prepared, in flight, done, timed out, failed init / cold start ...) x every operation with "
                       "its interrupt outcomes (done, timeout, CRC error, header error, spurious, none) followed by probe operations; a fault at every pin event "
                       "and a never-completing wait at every await_irq of the operation under test (quick: a third to a sixth of the positions); all ordered "
                       "pairs (thorough: triples) of 19 operations; random histories with faults and cancellations; the LoRaWAN adapter's operation pairs with "
                       "faults; SX1261/SX1262/STM32WL and SX1276/SX1272 boards with and without TCXO / DC-DC")
    core.finish_proof_failures(rep)
