"""Histories for the async_device front-end (line kind `adev`), for the model/implementation correspondence of Model/AsyncDev.v:
joins (good / bad / late JoinAccept), sends whose receive windows see timeouts, errors, valid / foreign / replayed / oversized frames,
Class C receptions between the windows and in rxc_listen, data-rate and ADR changes, a fault at chosen radio-call positions,
counters near the 16-bit and 32-bit boundaries."""
from . import lw, machist

NWK, APP, ADDR = bytes([2] * 16), bytes([1] * 16), 5
KEY = bytes(range(16))


def frame(r, down, kind):
    if kind == "good":
        return lw.data_frame(r.choice([3, 5]), ADDR, r.choice([0, 0x20]), down, b"", r.choice([None, 7, 200]), r.bytes(r.below(6)), NWK, APP)
    if kind == "mac":        # MAC commands in FOpts / port 0
        cmds = r.choice([bytes([0x06]), bytes([0x02, 5, 1]), bytes([0x08, 3]), bytes([0x03, 0x50, 0xff, 0x00, 0x01]), bytes([0x0d])])
        if r.chance(1, 2):
            return lw.data_frame(3, ADDR, len(cmds), down, cmds, None, b"", NWK, APP)
        return lw.data_frame(3, ADDR, 0, down, b"", 0, cmds, NWK, APP)
    if kind == "foreign":
        return lw.data_frame(3, ADDR, 0, down, b"", 7, b"zz", r.bytes(16), APP)
    if kind == "replay":
        return lw.data_frame(3, ADDR, 0, max(down - 1, 0), b"", 7, b"re", NWK, APP)
    if kind == "big":
        return lw.data_frame(3, ADDR, 0, down, b"", 7, r.bytes(r.range(230, 242)), NWK, APP)
    return r.bytes(r.range(1, 40))


def script(r, st, classc):
    """window events for one send; st['down'] is the last accepted downlink counter"""
    ev = []
    n = r.range(1, 5)
    for _ in range(n):
        k = r.below(12)
        if k < 3:
            ev.append("T")
        elif k == 3:
            ev.append("E")
        elif k == 4 and classc:
            ev.append("P")
        else:
            kind = r.choice(["good", "good", "mac", "foreign", "replay", "big", "junk"])
            if kind in ("good", "mac", "big"):
                st["down"] += 1
            ev.append("X" + frame(r, st["down"], kind).hex())
        if classc and r.chance(1, 2):
            ev.append("P")
    return ",".join(ev)


def histories(rng, tier, n=None):
    lines = []
    n = n or (600 if tier == "quick" else 6000)
    for i in range(n):
        r = rng.fork("adev%d" % i)
        region = r.choice([5, 8, 0, 4, 6, 7, 1])
        classc = r.below(2)
        start = r.choice([0, 0, 3, 0xFFFE, 0xFFFF, 0xFFFFFFFD, 0xFFFFFFFE, 0xFFFFFFFF])
        lead = r.choice([15, 15, 0, 100, 999, 1001, 6000])
        fault = r.choice(["-", "-"] + [str(x) for x in range(0, 40)] + ["%dx%d" % (r.below(30), r.choice([2, 2, 3, 40])) for _ in range(12)])
        bias = r.choice(["-", "-", "2:3"]) if region in (4, 8) else "-"
        head = "adev r=%d lead=%d classc=%d fault=%s bias=%s" % (region, lead, classc, fault, bias)
        ops = []
        st = {"down": 0}
        mode = r.below(4)
        if mode == 0:
            head += " session=%s:%s:%d:%d" % (NWK.hex(), APP.hex(), ADDR, start)
        elif mode == 1:
            ops.append("abp %s %s %d" % (NWK.hex(), APP.hex(), ADDR))
        elif mode == 2:
            ja = lw.join_accept(KEY, r.below(1 << 24), r.below(1 << 24), r.below(1 << 32), r.below(256), r.below(16), b"")
            bad = lw.join_accept(r.bytes(16), 1, 2, 3, 0, 1, b"")
            sc = r.choice(["X" + ja.hex(), "T,X" + ja.hex(), "T,T", "X%s,X%s" % (bad.hex(), ja.hex()), "E", "T,E", "X" + bad.hex() + ",T",
                           "X" + frame(r, 1, "good").hex() + ",T"])
            if classc:
                sc = "P," + sc.replace(",", ",P,")
            ops.append("join 1 2 %s %s %s" % (KEY.hex(), machist.draws(r, 40), sc))
        for _ in range(r.range(1, 4)):
            k = r.below(10)
            if k < 6:
                ops.append("send %s %d %d %s %s" % (r.hex(r.below(5)), r.range(1, 223), r.below(2), machist.draws(r, 40), script(r, st, classc)))
            elif k == 6:
                ops.append("listen %s" % script(r, st, 1))
            elif k == 7:
                ops.append("dr %d" % r.below(8))
            elif k == 8:
                ops.append("adr %d" % r.below(2))
            else:
                ops.append("fcnt")
        ops.append("fcnt")
        lines.append(head + " | " + " | ".join(ops))
    return lines
