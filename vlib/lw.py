"""Pure-python LoRaWAN 1.0.x network-side codec used ONLY to generate test inputs (authentic downlinks, JoinAccepts)
and to decode uplinks in oracles.  AES-128 / CMAC written from FIPS-197 / RFC 4493."""

def _xt(a):
    a <<= 1
    return (a ^ 0x1B) & 0xFF if a & 0x100 else a

def _gm(a, b):
    p = 0
    for _ in range(8):
        if b & 1:
            p ^= a
        a = _xt(a)
        b >>= 1
    return p

def _mk_sbox():
    inv = [0] * 256
    for a in range(1, 256):
        for b in range(1, 256):
            if _gm(a, b) == 1:
                inv[a] = b
                break
    sb = []
    for a in range(256):
        x = inv[a]
        y = x
        for i in range(1, 5):
            y ^= ((x << i) | (x >> (8 - i))) & 0xFF
        sb.append(y ^ 0x63)
    return sb

SBOX = _mk_sbox()
INV = [0] * 256
for _i, _v in enumerate(SBOX):
    INV[_v] = _i
RCON = [1, 2, 4, 8, 16, 32, 64, 128, 27, 54]

import functools
_M = {k: [_gm(a, k) for a in range(256)] for k in (2, 3, 9, 11, 13, 14)}
_M2, _M3, _M9, _M11, _M13, _M14 = (_M[k] for k in (2, 3, 9, 11, 13, 14))

@functools.lru_cache(maxsize=4096)
def _expand(key):
    key = bytes(key)
    w = [list(key[i:i + 4]) for i in range(0, 16, 4)]
    for i in range(4, 44):
        t = list(w[i - 1])
        if i % 4 == 0:
            t = [SBOX[t[1]] ^ RCON[i // 4 - 1], SBOX[t[2]], SBOX[t[3]], SBOX[t[0]]]
        w.append([a ^ b for a, b in zip(w[i - 4], t)])
    return [sum(w[4 * r:4 * r + 4], []) for r in range(11)]

_SR = [0, 5, 10, 15, 4, 9, 14, 3, 8, 13, 2, 7, 12, 1, 6, 11]
_ISR = [0, 13, 10, 7, 4, 1, 14, 11, 8, 5, 2, 15, 12, 9, 6, 3]

def aes_enc(key, blk):
    return _aes_enc(bytes(key), bytes(blk))


@functools.lru_cache(maxsize=1 << 16)
def _aes_enc(key, blk):
    rk = _expand(key)
    s = [a ^ b for a, b in zip(blk, rk[0])]
    for r in range(1, 11):
        s = [SBOX[x] for x in s]
        s = [s[i] for i in _SR]
        if r < 10:
            n = []
            for c in range(4):
                a = s[4 * c:4 * c + 4]
                n += [_M2[a[0]] ^ _M3[a[1]] ^ a[2] ^ a[3], a[0] ^ _M2[a[1]] ^ _M3[a[2]] ^ a[3],
                      a[0] ^ a[1] ^ _M2[a[2]] ^ _M3[a[3]], _M3[a[0]] ^ a[1] ^ a[2] ^ _M2[a[3]]]
            s = n
        s = [a ^ b for a, b in zip(s, rk[r])]
    return bytes(s)

def aes_dec(key, blk):
    rk = _expand(bytes(key))
    s = [a ^ b for a, b in zip(blk, rk[10])]
    for r in range(9, -1, -1):
        s = [s[i] for i in _ISR]
        s = [INV[x] for x in s]
        s = [a ^ b for a, b in zip(s, rk[r])]
        if r > 0:
            n = []
            for c in range(4):
                a = s[4 * c:4 * c + 4]
                n += [_M14[a[0]] ^ _M11[a[1]] ^ _M13[a[2]] ^ _M9[a[3]], _M9[a[0]] ^ _M14[a[1]] ^ _M11[a[2]] ^ _M13[a[3]],
                      _M13[a[0]] ^ _M9[a[1]] ^ _M14[a[2]] ^ _M11[a[3]], _M11[a[0]] ^ _M13[a[1]] ^ _M9[a[2]] ^ _M14[a[3]]]
            s = n
    return bytes(s)

def _dbl(b):
    v = int.from_bytes(b, "big") << 1
    if v >> 128:
        v = (v & ((1 << 128) - 1)) ^ 0x87
    return v.to_bytes(16, "big")

def cmac(key, msg):
    return _cmac(bytes(key), bytes(msg))


@functools.lru_cache(maxsize=1 << 16)
def _cmac(key, msg):
    k1 = _dbl(aes_enc(key, bytes(16)))
    k2 = _dbl(k1)
    n = max(1, (len(msg) + 15) // 16)
    blocks = [msg[16 * i:16 * i + 16] for i in range(n)]
    last = blocks[-1]
    if len(last) == 16:
        last = bytes(a ^ b for a, b in zip(last, k1))
    else:
        last = last + b"\x80" + bytes(15 - len(last))
        last = bytes(a ^ b for a, b in zip(last, k2))
    x = bytes(16)
    for blk in blocks[:-1] + [last]:
        x = aes_enc(key, bytes(a ^ b for a, b in zip(x, blk)))
    return x

assert aes_enc(bytes(range(16)), bytes.fromhex("00112233445566778899aabbccddeeff")).hex() == "69c4e0d86a7b0430d8cdb78070b4c55a"
assert aes_dec(bytes(range(16)), bytes.fromhex("69c4e0d86a7b0430d8cdb78070b4c55a")).hex() == "00112233445566778899aabbccddeeff"
assert cmac(bytes.fromhex("2b7e151628aed2a6abf7158809cf4f3c"), bytes.fromhex("6bc1bee22e409f96e93d7e117393172a")).hex().startswith("070a16b4")

def _crypt(key, direction, addr, fcnt, data):
    fcnt &= 0xFFFFFFFF
    out = bytearray()
    for i in range(0, len(data), 16):
        a = bytes([1, 0, 0, 0, 0, direction]) + addr.to_bytes(4, "little") + fcnt.to_bytes(4, "little") + bytes([0, i // 16 + 1])
        s = aes_enc(key, a)
        out += bytes(x ^ y for x, y in zip(data[i:i + 16], s))
    return bytes(out)

def data_frame(mtype, addr, fctrl_flags, fcnt, fopts, port, payload, nwk, app, mic_fcnt=None):
    """mtype 2..5 (3/5 = downlink). fctrl_flags: upper nibble bits (adr 0x80, bit6, ack 0x20, bit4)."""
    direction = mtype & 1
    msg = bytes([mtype << 5]) + addr.to_bytes(4, "little") + bytes([(fctrl_flags & 0xF0) | len(fopts)]) + (fcnt & 0xFFFF).to_bytes(2, "little") + fopts
    if port is not None:
        key = nwk if port == 0 else app
        msg += bytes([port]) + _crypt(key, direction, addr, fcnt, payload)
    n = (fcnt if mic_fcnt is None else mic_fcnt) & 0xFFFFFFFF
    b0 = bytes([0x49, 0, 0, 0, 0, direction]) + addr.to_bytes(4, "little") + n.to_bytes(4, "little") + bytes([0, len(msg) & 0xFF])
    return msg + cmac(nwk, b0 + msg)[:4]

def join_accept(appkey, join_nonce, net_id, dev_addr, dl_settings, rx_delay, cflist=b""):
    msg = bytes([0x20]) + join_nonce.to_bytes(3, "little") + net_id.to_bytes(3, "little") + dev_addr.to_bytes(4, "little") + bytes([dl_settings, rx_delay]) + cflist
    clear = msg + cmac(appkey, msg)[:4]
    body = clear[1:]
    enc = b"".join(aes_dec(appkey, body[i:i + 16]) for i in range(0, len(body), 16))
    return bytes([0x20]) + enc

def session_keys(appkey, join_nonce, net_id, dev_nonce):
    tail = join_nonce.to_bytes(3, "little") + net_id.to_bytes(3, "little") + dev_nonce.to_bytes(2, "little") + bytes(7)
    return aes_enc(appkey, b"\x01" + tail), aes_enc(appkey, b"\x02" + tail)

def decode_uplink(frame, nwk=None, app=None, fcnt_hi=0):
    """structural decode of an uplink data frame (for oracles)."""
    if len(frame) < 12:
        return None
    mtype = frame[0] >> 5
    fl = frame[5] & 15
    d = {"mtype": mtype, "addr": int.from_bytes(frame[1:5], "little"), "fctrl": frame[5], "fcnt16": int.from_bytes(frame[6:8], "little"),
         "fopts": frame[8:8 + fl], "mic": frame[-4:]}
    rest = frame[8 + fl:-4]
    d["port"] = rest[0] if rest else None
    d["frm"] = rest[1:] if rest else b""
    if nwk is not None:
        # find the 32-bit counter (try the epoch given and the next one)
        for hi in (fcnt_hi, fcnt_hi + 1, max(0, fcnt_hi - 1)):
            n = (hi << 16) | d["fcnt16"]
            b0 = bytes([0x49, 0, 0, 0, 0, mtype & 1]) + frame[1:5] + (n & 0xFFFFFFFF).to_bytes(4, "little") + bytes([0, (len(frame) - 4) & 0xFF])
            if cmac(nwk, b0 + frame[:-4])[:4] == frame[-4:]:
                d["fcnt32"] = n
                if d["port"] is not None and (app is not None or d["port"] == 0):
                    d["plain"] = _crypt(nwk if d["port"] == 0 else app, mtype & 1, d["addr"], n, d["frm"])
                break
    return d
