"""History generators for the MAC-level correspondence (properties C04..C12, C20).
A history is one line `mac r=<rid> p=<maxpower> g=<gain> [bias=sb:n] | op | op ...` (see harness/src/macops.rs)."""
from . import core, lw

REGIONS = list(range(9))
FIXED = (4, 8)
DYN = (0, 1, 2, 3, 5, 6, 7)
# RP002 RX2 default frequencies, written from the specification (AS923-n: 923.2 MHz + group offset 0 / -1.8 / -6.6 / -5.9 MHz), not from the code
RX2 = {0: 923200000, 1: 923200000 - 1800000, 2: 923200000 - 6600000, 3: 923200000 - 5900000, 4: 923300000, 5: 869525000, 6: 434665000, 7: 866550000, 8: 923300000}
FREQ_OK = {0: 923300000, 1: 921800000, 2: 916900000, 3: 917900000, 4: 915200000, 5: 867100000, 6: 433975000, 7: 866100000, 8: 902300000}
# region-defined LoRa data rates (as the implementation's tables define them; regenerated tables are in Gen/RegionTables.v)
DEFINED = {0: range(0, 7), 1: range(0, 7), 2: range(0, 7), 3: range(0, 7), 4: list(range(0, 7)) + list(range(8, 14)),
           5: range(0, 6), 6: range(0, 7), 7: range(0, 6), 8: list(range(0, 5)) + list(range(8, 14))}
UPLINK_DR = {0: range(0, 7), 1: range(0, 7), 2: range(0, 7), 3: range(0, 7), 4: range(0, 7), 5: range(0, 6), 6: range(0, 7), 7: range(0, 6), 8: range(0, 5)}


def draws(rng, n=24):
    return ",".join(str(rng.below(1 << 32)) for _ in range(n))


class Net:
    """the network side of one device session"""

    def __init__(self, rng, region, maxpower=14, gain=0, bias="-"):
        self.rng, self.region = rng, region
        self.ops = []
        self.head = "mac r=%d p=%d g=%d%s" % (region, maxpower, gain, "" if bias == "-" else " bias=" + bias)
        self.nwk = self.app = None
        self.addr = 0
        self.down = None          # last accepted downlink counter as the network believes
        self.appkey = rng.bytes(16)
        self.dev_nonce = None
        self.joined = False

    def line(self):
        return self.head + " | " + " | ".join(self.ops)

    def op(self, s):
        self.ops.append(s)

    def snap(self):
        self.ops.append("snap")

    # ---- activation
    def abp(self):
        self.nwk, self.app, self.addr = self.rng.bytes(16), self.rng.bytes(16), self.rng.choice([1, 0x01020304, 0xFFFFFFFF, self.rng.below(1 << 32)])
        self.op("abp %s %s %d" % (self.nwk.hex(), self.app.hex(), self.addr))
        self.down, self.joined = None, True

    def otaa_request(self, ndraws=24):
        d0 = self.rng.below(1 << 32)
        self.dev_nonce = d0 & 0xFFFF
        self.op("otaa %d %d %s %d,%s" % (self.rng.below(1 << 64), self.rng.below(1 << 64), self.appkey.hex(), d0, draws(self.rng, ndraws)))

    def join_accept(self, dl_settings=0, rx_delay=1, cflist=b"", good=True, maxp=250):
        jn, nid = self.rng.below(1 << 24), self.rng.below(1 << 24)
        addr = self.rng.below(1 << 32)
        key = self.appkey if good else self.rng.bytes(16)
        ja = lw.join_accept(key, jn, nid, addr, dl_settings, rx_delay, cflist)
        self.op("rx %s %d %d" % (ja.hex(), self.rng.range(0, 20) - 10, maxp))
        if good:
            self.nwk, self.app = lw.session_keys(self.appkey, jn, nid, self.dev_nonce)
            self.addr, self.down, self.joined = addr, None, True
        return ja

    # ---- traffic
    def send(self, data=b"", port=1, confirmed=False, ndraws=24):
        self.op("send %s %d %d %s" % (core.hexs(data), port, 1 if confirmed else 0, draws(self.rng, ndraws)))

    def next_down(self, step=1):
        return (0 if self.down is None else self.down) + (step if self.down is not None else self.rng.choice([0, 1, 5]))

    def downlink(self, fopts=b"", port=None, payload=b"", confirmed=False, fcnt=None, accept=True, rxc=False, maxp=250,
                 snr=None, nwk=None, addr=None, mic_fcnt=None, flags=0, mtype=None):
        """an authentic (or deliberately not) downlink; accept=True advances the network's counter"""
        n = self.next_down() if fcnt is None else fcnt
        mt = mtype if mtype is not None else (5 if confirmed else 3)
        f = lw.data_frame(mt, self.addr if addr is None else addr, flags, n, fopts, port, payload,
                          self.nwk if nwk is None else nwk, self.app, mic_fcnt)
        if accept:
            self.down = n
        self.op("%s %s %d %d" % ("rxc" if rxc else "rx", f.hex(), self.rng.range(0, 40) - 20 if snr is None else snr, maxp))
        return f

    def raw_rx(self, data, rxc=False, maxp=250):
        self.op("%s %s %d %d" % ("rxc" if rxc else "rx", core.hexs(data), 0, maxp))

    def rx2c(self):
        self.op("rx2c")


# ---- MAC command encoders (network side)
def link_adr(dr, pw, mask16, ctl, nbtrans=1):
    return bytes([0x03, ((dr & 15) << 4) | (pw & 15), mask16 & 0xFF, (mask16 >> 8) & 0xFF, ((ctl & 7) << 4) | (nbtrans & 15)])

def rx_param_setup(rx1off, rx2dr, freq_hz):
    f = freq_hz // 100
    return bytes([0x05, ((rx1off & 7) << 4) | (rx2dr & 15), f & 0xFF, (f >> 8) & 0xFF, (f >> 16) & 0xFF])

def dev_status():
    return bytes([0x06])

def new_channel(index, freq_hz, maxdr, mindr):
    f = freq_hz // 100
    return bytes([0x07, index, f & 0xFF, (f >> 8) & 0xFF, (f >> 16) & 0xFF, ((maxdr & 15) << 4) | (mindr & 15)])

def rx_timing(delay):
    return bytes([0x08, delay & 0xFF])

def tx_param(v):
    return bytes([0x09, v & 0xFF])

def dl_channel(index, freq_hz):
    f = freq_hz // 100
    return bytes([0x0A, index, f & 0xFF, (f >> 8) & 0xFF, (f >> 16) & 0xFF])

def duty_cycle(v):
    return bytes([0x04, v & 0xFF])

def link_check_ans(m, g):
    return bytes([0x02, m, g])

def device_time_ans():
    return bytes([0x0D, 1, 2, 3, 4, 5])


def random_command(rng, region):
    k = rng.below(10)
    if k == 0:
        return link_adr(rng.below(16), rng.below(16), rng.choice([0, 1, 7, 0xFF, 0xFFFF, rng.below(1 << 16)]), rng.below(8))
    if k == 1:
        return rx_param_setup(rng.below(8), rng.below(16), rng.choice([FREQ_OK[region], RX2[region], 0, rng.below(1 << 24) * 100]))
    if k == 2:
        return dev_status()
    if k == 3:
        return new_channel(rng.choice([0, 1, 2, 3, 4, 7, 8, 15, 16, 255, rng.below(256)]),
                           rng.choice([FREQ_OK[region], 0, 0, rng.below(1 << 24) * 100]), rng.below(16), rng.below(16))
    if k == 4:
        return rx_timing(rng.below(256))
    if k == 5:
        return dl_channel(rng.choice([0, 1, 2, 3, 5, 16, 255]), rng.choice([FREQ_OK[region], 0, rng.below(1 << 24) * 100]))
    if k == 6:
        return duty_cycle(rng.below(256))
    if k == 7:
        return tx_param(rng.below(256))
    if k == 8:
        return link_check_ans(rng.below(256), rng.below(256))
    return device_time_ans()


def random_history(rng, region, length, otaa=None, classc=False, commands=True, snap_every=True, bias="-", maxpower=None, gain=None):
    """a plausible mostly-valid history with adversarial sprinkles"""
    net = Net(rng, region, maxpower if maxpower is not None else rng.choice([14, 20, 22, 30]),
              gain if gain is not None else rng.choice([0, 0, 2, -3]), bias)
    if otaa is None:
        otaa = rng.chance(1, 2)
    if otaa:
        net.otaa_request()
        if rng.chance(1, 4):
            net.join_accept(good=False)
            net.rx2c()
            net.otaa_request()
        cfl = b""
        if rng.chance(1, 2):
            if region in FIXED:
                m = bytearray(rng.bytes(9)) if rng.chance(1, 3) else bytearray([0xFF] * 9)
                if rng.chance(1, 2):
                    m[0] |= 3      # keep two 125 kHz channels usable (the all-off mask is a recorded finding)
                cfl = bytes(m) + bytes(6) + b"\x01"
            else:
                fs = [rng.choice([FREQ_OK[region] // 100, 0, FREQ_OK[region] // 100 + 2000]) for _ in range(5)]
                cfl = b"".join(f.to_bytes(3, "little") for f in fs) + b"\x00"
        net.join_accept(dl_settings=rng.choice([0, 0x10, rng.below(256)]), rx_delay=rng.choice([0, 1, 2, 15, rng.below(16)]), cflist=cfl)
    else:
        net.abp()
    if snap_every:
        net.snap()
    for _ in range(length):
        k = rng.below(12)
        if k <= 3:
            port = rng.choice([1, 1, 2, 200, 0])
            data = b"" if port == 0 else rng.bytes(rng.choice([0, 1, 5, 11, 20]))
            net.send(data, port, rng.chance(1, 3))
            # what happens in the windows
            w = rng.below(6)
            if w == 0:
                net.rx2c()
            elif w in (1, 2):
                fopts, port2, payload = b"", None, b""
                if commands and rng.chance(2, 3):
                    cmds = b"".join(random_command(rng, region) for _ in range(rng.range(1, 3)))
                    if len(cmds) <= 15 and rng.chance(2, 3):
                        fopts = cmds
                    else:
                        port2, payload = 0, cmds
                elif rng.chance(1, 2):
                    port2, payload = rng.range(1, 223), rng.bytes(rng.below(12))
                net.downlink(fopts, port2, payload, confirmed=rng.chance(1, 3))
            elif w == 3:
                # rejected frame then timeout
                kind = rng.below(5)
                if kind == 0:
                    net.raw_rx(rng.bytes(rng.below(30)))
                elif kind == 1:
                    net.downlink(port=5, payload=b"x", nwk=rng.bytes(16), accept=False)
                elif kind == 2 and net.down is not None:
                    net.downlink(port=5, payload=b"y", fcnt=net.down, accept=False)          # replay
                elif kind == 3 and net.down is not None and net.down + 16388 < (1 << 32):
                    net.downlink(port=5, payload=b"z", fcnt=net.down + 16385 + rng.below(3), accept=False)  # too far ahead
                else:
                    net.downlink(port=5, payload=rng.bytes(60), maxp=rng.choice([11, 51]), accept=False)  # oversized
                    if snap_every:
                        net.snap()
                    continue
                net.rx2c()
            else:
                net.rx2c()
        elif k == 4 and classc:
            net.downlink(port=rng.range(1, 200), payload=rng.bytes(rng.below(8)), rxc=True, confirmed=rng.chance(1, 4))
        elif k == 5:
            net.op("adr %d" % rng.below(2))
        elif k == 6:
            net.op("dr %d" % rng.choice(list(UPLINK_DR[region])))
        elif k == 7:
            net.op("serde")
        elif k == 8:
            net.op("delays")
        elif k == 9 and classc:
            net.op("rxcfg")
        else:
            net.send(rng.bytes(rng.below(6)), rng.range(1, 100), False)
            net.rx2c()
        if snap_every:
            net.snap()
    return net.line()
