"""MANIFEST.setup_cmd: build the Coq development, the extracted model driver and the harness."""
import sys
from . import core


def main():
    with core.Lock():
        bad = core.forbidden_scan()
        if bad:
            print("forbidden constructs:", bad)
        import subprocess, sys as _s
        subprocess.run([_s.executable, core.VERIF + '/tools/rs2v/cmdtables.py'])
        subprocess.run([_s.executable, core.VERIF + '/tools/rs2v/regiontables.py'])
        core.coq_makefile()
        rc, out = core.sh(["timeout", "7000", "make", "-j%d" % core.NCPU], cwd=core.COQ, timeout=7100)
        print(out[-3000:])
        if rc:
            print("setup: coq build failed")
            return 1
        ok, log = core.build_model()
        print(log[-1500:])
        if not ok:
            print("setup: model driver build failed")
            return 1
        ok, log = core.build_harness()
        print(log[-1500:])
        if not ok:
            print("setup: harness build failed")
            return 1
    print("setup ok")
    return 0
