"""Frame-description generators shared by C01/C02 (all randomness from the Rng passed in)."""
from . import core

COUNTERS = [0, 1, 0xFFFF, 0x10000, 0x1FFFF, 0xFFFFFFFF, 0xFFFF0000, 0x7FFFFFFF]


def rand_key(rng):
    return rng.hex(16)


def frame_case(variant, ft, addr, flags, fcnt, fopts_hex, payload, nwk, app, buflen):
    return "build_data %s %d %d %d %d %s %s %s %s %d" % (variant, ft, addr, flags, fcnt, fopts_hex, payload, nwk, app, buflen)


def frame_len(fopts_len, payload):
    n = 1 + 7 + fopts_len + 4
    if payload != "none":
        n += 1 + (len(payload.split(":")[-1]) // 2 if payload.split(":")[-1] != "-" else 0)
    return n


def gen_descriptions(rng, tier):
    """Yields (ft, addr, flags, fcnt, fopts_hex, payload, nwk, app) for buildable descriptions."""
    out = []
    lens_all = list(range(0, 243))
    ports = [1, 2, 223, 224, 255]

    def addr():
        return rng.choice([0, 1, 0x01020304, 0xFFFFFFFF, rng.below(1 << 32)])

    def cnt():
        return rng.choice(COUNTERS) if rng.chance(1, 2) else rng.below(1 << 32)

    # every frame type x all 16 flag combinations x FOpts length 0..15
    for ft in range(4):
        for flags in range(16):
            for fl in range(16):
                reps = 1 if tier == "quick" else 4
                for _ in range(reps):
                    plen = rng.choice([0, 1, 15, 16, 17, 31, 32, 33, 48, 64, 100, rng.below(200)])
                    kind = rng.below(3)
                    if kind == 0:
                        pl = "none"
                    else:
                        pl = "data:%d:%s" % (rng.choice(ports + [rng.range(1, 255)]), rng.hex(plen))
                    out.append((ft, addr(), flags, cnt(), rng.hex(fl), pl, rand_key(rng), rand_key(rng)))
    # every payload length 0..242, application port and port 0
    reps = 1 if tier == "quick" else 6
    for _ in range(reps):
        for ln in lens_all:
            ft = rng.below(4)
            out.append((ft, addr(), rng.below(16), cnt(), "-", "data:%d:%s" % (rng.range(1, 255), rng.hex(ln)), rand_key(rng), rand_key(rng)))
            out.append((rng.below(4), addr(), rng.below(16), cnt(), "-", "mac:%s" % rng.hex(ln), rand_key(rng), rand_key(rng)))
            fl = rng.range(1, 15)
            if ln + fl <= 242:
                out.append((rng.below(4), addr(), rng.below(16), cnt(), rng.hex(fl), "data:%d:%s" % (rng.range(1, 255), rng.hex(ln)), rand_key(rng), rand_key(rng)))
    # all counter boundaries with a two-block payload
    for c in COUNTERS + [0xFFFE, 0x10001, 0xFFFFFFFE, 0x80000000]:
        for ft in range(4):
            out.append((ft, addr(), rng.below(16), c, rng.hex(rng.below(4)), "data:%d:%s" % (rng.range(1, 255), rng.hex(20)), rand_key(rng), rand_key(rng)))
    return out
