"""./check --replay FILE : re-run the recorded case on the implementation and on the model."""
import json, sys
from . import core


def main(path):
    r = json.load(open(path))
    print(json.dumps(r, indent=1))
    cases = []
    if "case" in r:
        cases.append(r["case"])
    if "first_disagreeing_case" in r:
        cases.append(r["first_disagreeing_case"])
    cases += r.get("cases", [])
    if not cases:
        print("(no executable case recorded: the replay names the theorem / correspondence that no longer checks)")
        return 0
    with core.Lock():
        okm, lm = core.build_model()
        okh, lh = core.build_harness()
    if not (okm and okh):
        print(lm[-800:], lh[-800:])
        return 2
    mo = core.run_lines(core.model_bin(), cases, 1)
    io = core.run_lines(core.harness_bin(), cases, 1)
    for c, i, m in zip(cases, io, mo):
        print("case : %s\n impl : %s\n model: %s\n %s" % (c, i, m, "AGREE" if i == m else "DIFFER"))
    return 0 if all(i == m for i, m in zip(io, mo)) else 1
