#!/bin/sh
# usage: tools/seedtest.sh <patch.diff> <Cxx> [more Cyy ...] -- applies a seeded change to /repo, runs the checks, undoes it
P=$1; shift
cd /verif
# evidence of a trial with a seeded change must not replace the evidence of the real tree
export VERIF_EVIDENCE_DIR=/verif/.build/seed-evidence
git -C /repo apply "$P" || { echo "PATCH DOES NOT APPLY"; exit 2; }
for c in "$@"; do ./check $c 2>&1 | grep -E "VIOLATION|KNOWN|\[$c\]" | cut -c1-200 | head -6; done
git -C /repo checkout -- .
git -C /repo status --short | head -3
