#!/usr/bin/env python3
"""rs2v/cmdtables.py -- translator (tie T) for the MAC-command tables of lorawan-encoding.

Reads, from /repo's *current* source:
  * the `#[cmd(cid = C, len = L)]` / `#[cmd(cid = C)]` attributes of the six CommandHandler enums
    (maccommands.rs, certification.rs, multicast/mod.rs)  ->  Gen.CmdTables.<set>_table
  * for every `impl ...<Name>Payload...` block, the constant indices / ranges used on `self.0`
    ->  Gen.CmdTables.<set>_reads  (what the accessors of each fixed-length payload may index)
and writes coq/Gen/CmdTables.v.  Anything it cannot read is an error ("untranslatable"), which the
check reports as a broken tie.
"""
import os, re, sys

REPO = "/repo/lorawan-encoding/src"
SETS = [
    ("dl_mac", "maccommands.rs", "DownlinkMacCommand"),
    ("ul_mac", "maccommands.rs", "UplinkMacCommand"),
    ("dl_dut", "certification.rs", "DownlinkDUTCommand"),
    ("ul_dut", "certification.rs", "UplinkDUTCommand"),
    ("dl_mc", "multicast/mod.rs", "DownlinkRemoteSetup"),
    ("ul_mc", "multicast/mod.rs", "UplinkRemoteSetup"),
]
# len() helpers of the variable-length payloads (certification.rs / multicast/group_status.rs), by payload type.
# 0 = max(1, rest.len())   1 = 1 + 5 * popcount(rest[0] & 0x0f)
VARLEN = {"TxFramesCtrlReqPayload": 0, "EchoIncPayloadReqPayload": 0, "EchoIncPayloadAnsPayload": 0,
          "McGroupStatusAnsPayload": 1}
MAXLEN_FORMS = ("core::cmp::max(Self::min_len(), self.0.len())", "core::cmp::max(self.0.len(), Self::min_len())",
                "self.0.len().max(Self::min_len())", "Self::min_len().max(self.0.len())")
VARLEN_SRC = {  # the len() helper of each payload type must still read as one of these forms, else the translator refuses
    "TxFramesCtrlReqPayload": ("certification.rs", MAXLEN_FORMS),
    "EchoIncPayloadReqPayload": ("certification.rs", MAXLEN_FORMS),
    "EchoIncPayloadAnsPayload": ("certification.rs", MAXLEN_FORMS),
    "McGroupStatusAnsPayload": ("multicast/group_status.rs", ("1 + Self::required_len(self.0[0])", "Self::required_len(self.0[0]) + 1")),
}
CONSTS = {"McAddr::BYTE_LEN": 4, "McKey::byte_len()": 16, "size_of::<u32>()": 4, "McGroupStatusItem::len()": 5}


class Untranslatable(Exception):
    pass


def strip_comments(s):
    s = re.sub(r"/\*.*?\*/", "", s, flags=re.S)
    return re.sub(r"//[^\n]*", "", s)


def num(s):
    s = s.strip().replace("_", "")
    return int(s, 16) if s.lower().startswith("0x") else int(s)


def enum_body(src, name):
    m = re.search(r"pub enum %s(?:<'a>)?\s*\{" % name, src)
    if not m:
        raise Untranslatable("enum %s not found" % name)
    i, depth = m.end(), 1
    while depth:
        depth += {"{": 1, "}": -1}.get(src[i], 0)
        i += 1
    return src[m.end():i - 1]


def parse_table(src, name):
    body = enum_body(src, name)
    rows = []
    for m in re.finditer(r"#\[cmd\(([^)]*)\)\]\s*(\w+)\((\w+)(?:<'a>)?\)", body):
        attrs, variant, payload = m.group(1), m.group(2), m.group(3)
        kv = dict((a.split("=")[0].strip(), a.split("=")[1].strip()) for a in attrs.split(","))
        if "cid" not in kv:
            raise Untranslatable("cmd without cid: " + m.group(0))
        rows.append((variant, payload, num(kv["cid"]), num(kv["len"]) if "len" in kv else None))
    nvariants = len(re.findall(r"^\s*\w+\(\w+(?:<'a>)?\),", body, re.M))
    if nvariants != len(rows):
        raise Untranslatable("%s: %d variants but %d #[cmd] attributes" % (name, nvariants, len(rows)))
    return rows


def eval_expr(e, env):
    e = e.strip()
    for k, v in list(CONSTS.items()):
        e = e.replace(k, str(v))
    e = re.sub(r"\b[A-Za-z_][A-Za-z0-9_]*\b", lambda m: str(env[m.group(0)]) if m.group(0) in env else m.group(0), e)
    if not re.fullmatch(r"[0-9+\-* ()]+", e):
        raise Untranslatable("index expression " + e)
    return eval(e)


def impl_blocks(src, payload):
    for m in re.finditer(r"impl(?:<'a>)?\s+%s(?:<'_>|<'a>)?\s*\{" % payload, src):
        i, depth = m.end(), 1
        while depth:
            depth += {"{": 1, "}": -1}.get(src[i], 0)
            i += 1
        yield src[m.end():i - 1]


def reads_of(srcs, payload):
    """ranges [a, b) (b = None for open-ended) that accessors read from self.0"""
    out = set()
    for src in srcs:
        # module-level `const NAME: usize = <expr>;` (field offsets and the like), in file order
        genv = {}
        for c in re.finditer(r"^(?:pub(?:\([a-z]+\))?\s+)?const\s+(\w+)\s*:\s*usize\s*=\s*([^;]+);", src, re.M):
            try:
                genv[c.group(1)] = eval_expr(c.group(2), genv)
            except Untranslatable:
                pass
        for blk in impl_blocks(src, payload):
            # macro-generated readers
            for m in re.finditer(r"create_ack_fn!\(\s*\w+,\s*(\d+)\s*\)", blk):
                out.add((0, 1))
            for m in re.finditer(r"create_value_reader_fn!\(\s*\w+,\s*(\d+)\s*\)", blk):
                out.add((int(m.group(1)), int(m.group(1)) + 1))
            fns = {}  # name -> (extra parameter names, body)
            for fn in re.finditer(r"fn\s+(\w+)\s*\(([^)]*)\)[^{]*\{", blk):
                j, depth = fn.end(), 1
                while depth:
                    depth += {"{": 1, "}": -1}.get(blk[j], 0)
                    j += 1
                params = [q.split(":")[0].strip() for q in fn.group(2).split(",") if ":" in q and "self" not in q.split(":")[0]]
                fns[fn.group(1)] = (params, blk[fn.end():j - 1])

            called = set()

            def body_reads(body, env):
                env = dict(env)
                for c in re.finditer(r"const\s+(\w+)\s*:\s*usize\s*=\s*([^;]+);", body):
                    env[c.group(1)] = eval_expr(c.group(2), env)
                for ix in re.finditer(r"self\.0\[([^\]]+)\]", body):
                    e = ix.group(1)
                    if ".." in e:
                        a, b = e.split("..", 1)
                        incl = b.startswith("=")
                        b = b.lstrip("=")
                        a = eval_expr(a, env) if a.strip() else 0
                        if b.strip() == "":
                            out.add((a, None))
                        elif "self.len()" in b:
                            out.add((a, None))
                        else:
                            out.add((a, eval_expr(b, env) + (1 if incl else 0)))
                    else:
                        a = eval_expr(e, env)
                        out.add((a, a + 1))
                # private helpers taking an index: read at each call site's constant arguments
                for call in re.finditer(r"self\.(\w+)\(([^()]*)\)", body):
                    if call.group(1) in fns and fns[call.group(1)][0]:
                        ps, hb = fns[call.group(1)]
                        args = [a for a in call.group(2).split(",") if a.strip()]
                        if len(args) != len(ps):
                            raise Untranslatable("call of helper " + call.group(0))
                        called.add(call.group(1))
                        henv = dict(genv)
                        for q, a in zip(ps, args):
                            henv[q] = eval_expr(a, env)
                        body_reads(hb, henv)
            for name, (params, body) in fns.items():
                if not params:
                    body_reads(body, genv)
            for name, (params, body) in fns.items():
                if params and "self.0[" in body and name not in called:
                    raise Untranslatable("%s::%s indexes the payload with a parameter and no caller fixes it" % (payload, name))
    return sorted(out, key=lambda r: (r[0], -1 if r[1] is None else r[1]))


def generate():
    files = {}
    for f in ("maccommands.rs", "certification.rs", "multicast/mod.rs", "multicast/group_status.rs", "multicast/group_setup.rs"):
        files[f] = strip_comments(open(os.path.join(REPO, f)).read())
    for p, (f, forms) in VARLEN_SRC.items():
        body = None
        for blk in impl_blocks(files[f], p):
            m = re.search(r"pub fn len\(&self\) -> usize \{(.*?)\}", blk, re.S)
            if m:
                body = re.sub(r"\s+", " ", m.group(1)).strip()
        if body is None or body not in forms:
            raise Untranslatable("len() helper of %s changed (found `%s` in %s; expected one of %s)" % (p, body, f, list(forms)))
        if f == "certification.rs" and not re.search(r"const fn min_len\(\) -> usize \{\s*1\s*\}", files[f]):
            raise Untranslatable("min_len() of %s is no longer 1" % p)
    out = ["(* GENERATED by tools/rs2v/cmdtables.py from /repo/lorawan-encoding/src -- do not edit.",
           "   <set>_table : (cid, Some len | None (variable-length; helper kind in <set>_var)) in declaration order;",
           "   <set>_reads : per command, the index ranges [a, b) its payload accessors read (b = 0 encodes open-ended). *)",
           "From Coq Require Import NArith List.", "Import ListNotations.", "Open Scope N_scope.", ""]
    meta = {}
    for sname, f, enum in SETS:
        rows = parse_table(files[f], enum)
        ents, reads, names = [], [], []
        for variant, payload, cid, ln in rows:
            if ln is None:
                if payload not in VARLEN:
                    raise Untranslatable("variable-length payload %s has no known len() helper" % payload)
                ents.append("(%d, None, %d)" % (cid, VARLEN[payload]))
            else:
                ents.append("(%d, Some %d%%nat, 0)" % (cid, ln))
            rs = reads_of(files.values(), payload)
            reads.append("(%d, [%s])" % (cid, "; ".join("(%d%%nat, %d%%nat)" % (a, 0 if b is None else b) for a, b in rs)))
            names.append(variant)
        out.append("(* %s :: %s : %s *)" % (f, enum, ", ".join(names)))
        out.append("Definition %s_table : list (N * option nat * N) :=\n  [%s]." % (sname, ";\n   ".join(ents)))
        out.append("Definition %s_reads : list (N * list (nat * nat)) :=\n  [%s].\n" % (sname, ";\n   ".join(reads)))
        meta[sname] = rows
    out.append("Definition all_tables : list (list (N * option nat * N)) :=\n  [%s]." % "; ".join(s + "_table" for s, _, _ in SETS))
    out.append("Definition all_reads : list (list (N * option nat * N) * list (N * list (nat * nat))) :=\n  [%s]."
               % "; ".join("(%s_table, %s_reads)" % (s, s) for s, _, _ in SETS))
    return "\n".join(out) + "\n", meta


def main():
    dst = "/verif/coq/Gen/CmdTables.v"
    try:
        text, _ = generate()
    except Untranslatable as e:
        print("untranslatable: %s" % e)
        return 3
    old = open(dst).read() if os.path.exists(dst) else None
    if old != text:
        open(dst, "w").write(text)
        print("regenerated", dst)
    return 0


if __name__ == "__main__":
    sys.exit(main())
