#!/usr/bin/env python3
"""rs2v/regiontables.py -- translator (tie T) for the regional constant tables of lorawan-device.

Reads from /repo's current source, per region: the DATARATES table (SF, bandwidth, max MAC payload), MAX_EIRP,
DEFAULT_RX2_FREQ, MAX_RX1_DR_OFFSET, NUM_JOIN_CHANNELS + default channels (dynamic plans), the frequency range check,
the tx_power_adjust index range (and US_DBM cap), and the 72/8-entry channel maps (fixed plans); plus the protocol
constants of region/constants.rs.  Writes coq/Gen/RegionTables.v.  The per-region get_rx_datarate functions are code,
not tables: they are modelled by hand (Model/Region.v) and tied exhaustively by the correspondence run.
"""
import os, re, sys

R = "/repo/lorawan-device/src/region"
BW = {"_7KHz": 0, "_10KHz": 1, "_15KHz": 2, "_20KHz": 3, "_31KHz": 4, "_41KHz": 5, "_62KHz": 6, "_125KHz": 7, "_250KHz": 8, "_500KHz": 9}
# region id -> (name, source file, kind)
REGIONS = [
    (0, "AS923_1", "dynamic_channel_plans/as923.rs", "dyn"), (1, "AS923_2", "dynamic_channel_plans/as923.rs", "dyn"),
    (2, "AS923_3", "dynamic_channel_plans/as923.rs", "dyn"), (3, "AS923_4", "dynamic_channel_plans/as923.rs", "dyn"),
    (4, "AU915", "fixed_channel_plans/au915", "fix"), (5, "EU868", "dynamic_channel_plans/eu868.rs", "dyn"),
    (6, "EU433", "dynamic_channel_plans/eu433.rs", "dyn"), (7, "IN865", "dynamic_channel_plans/in865.rs", "dyn"),
    (8, "US915", "fixed_channel_plans/us915", "fix"),
]


class Untranslatable(Exception):
    pass


def strip(s):
    s = re.sub(r"/\*.*?\*/", "", s, flags=re.S)
    return re.sub(r"//[^\n]*", "", s)


def num(s, src=""):
    """value of a constant expression: decimal / hex literals (with _ separators and integer suffixes), + - * / and
    parentheses, `as <int type>` casts between unsigned types, and names of `const`s defined in the same file"""
    return cexpr(src, s, 0)


def cexpr(src, text, depth):
    t = re.sub(r"\bas\s+(?:u8|u16|u32|u64|usize)\b", "", text.strip())
    t = re.sub(r"\b(0x[0-9a-fA-F_]+|[0-9][0-9_]*)(?:u8|u16|u32|u64|usize)?\b", lambda m: str(int(m.group(1).replace("_", ""), 0)), t)

    def name(m):
        mm = re.search(r"const %s:\s*\w+\s*=\s*([^;]+);" % m.group(1), src)
        if not mm or depth > 6:
            raise Untranslatable("constant expression: cannot resolve %s" % m.group(0))
        return "(%d)" % cexpr(src, mm.group(1), depth + 1)
    t = re.sub(r"\b(?:Self::)?([A-Z][A-Z0-9_]*)\b", name, t)
    if not re.fullmatch(r"[0-9+\-*/ ()\n]+", t):
        raise Untranslatable("constant expression: " + text.strip()[:80])
    try:
        v = eval(t.replace("/", "//"))
    except Exception:
        raise Untranslatable("constant expression: " + text.strip()[:80])
    if v < 0:
        raise Untranslatable("negative constant: " + text.strip()[:80])
    return v


def datarates(src):
    m = re.search(r"const DATARATES:[^=]*=\s*\[(.*?)\n\];", src, re.S)
    if not m:
        raise Untranslatable("DATARATES table not found")
    body, out, i = m.group(1), [], 0
    for tok in re.finditer(r"Some\(Datarate\s*\{(.*?)\}\)|\bNone\b", body, re.S):
        if tok.group(0) == "None":
            out.append(None)
        else:
            f = tok.group(1)
            sf = re.search(r"spreading_factor:\s*SpreadingFactor::_(\d+)", f)
            bw = re.search(r"bandwidth:\s*Bandwidth::(\w+)", f)
            mx = re.search(r"max_mac_payload_size:\s*([^,}]+)", f)
            if not (sf and bw and mx) or bw.group(1) not in BW:
                raise Untranslatable("Datarate entry: " + f[:80])
            out.append((int(sf.group(1)), BW[bw.group(1)], num(mx.group(1), src)))
    if len(out) != 15:
        raise Untranslatable("DATARATES has %d entries, expected 15" % len(out))
    return out


def const(src, name):
    m = re.search(r"const %s:\s*(?:u\d+|usize)\s*=\s*([^;]+);" % name, src)
    if not m:
        raise Untranslatable("const %s not found" % name)
    return num(m.group(1), src)


def fn_range(src, fname):
    m = re.search(r"fn %s\((\w+): u32\) -> bool \{\s*\(([^.()]+)\.\.=([^.()]+)\)\.contains\(&\1\)\s*\}" % fname, src)
    if m:
        return num(m.group(2), src), num(m.group(3), src)
    # the same range written as a pair of comparisons
    m = re.search(r"fn %s\((\w+): u32\) -> bool \{\s*\1 >= ([^&|]+?)\s*&&\s*\1 <= ([^&|{}]+?)\s*\}" % fname, src)
    if m:
        return num(m.group(2), src), num(m.group(3), src)
    m = re.search(r"fn %s\((\w+): u32\) -> bool \{\s*([^&|]+?) <= \1\s*&&\s*\1 <= ([^&|{}]+?)\s*\}" % fname, src)
    if m:
        return num(m.group(2), src), num(m.group(3), src)
    raise Untranslatable("frequency check %s" % fname)


def chan_map(src, name, n):
    m = re.search(r"%s:\s*\[u32;\s*%d\]\s*=\s*\[(.*?)\];" % (name, n), src, re.S)
    if not m:
        raise Untranslatable("%s not found (as a written-out array of %d)" % (name, n))
    vals = [num(x, src) for x in m.group(1).split(",") if x.strip()]
    if len(vals) != n:
        raise Untranslatable("%s has %d entries" % (name, len(vals)))
    return vals


def power(src):
    m = re.search(r"fn tx_power_adjust\(pw: u8\) -> Option<u8> \{(.*?)\n    \}", src, re.S)
    if not m:
        raise Untranslatable("tx_power_adjust")
    b = m.group(1)
    r = re.search(r"0\.\.=(\d+)\s*=>\s*Some\((.*?)\),\s*_ => None", b, re.S)
    if not r:
        raise Untranslatable("tx_power_adjust body")
    expr = re.sub(r"\s+", "", r.group(2))
    if expr == "MAX_EIRP-(2*pw)":
        cap = 0
    elif expr == "core::cmp::min(US_DBM,MAX_EIRP-(2*pw))":
        cap = const(src, "US_DBM")
    else:
        raise Untranslatable("tx_power_adjust expression " + expr)
    return int(r.group(1)), cap


def generate():
    out = ["(* GENERATED by tools/rs2v/regiontables.py from /repo/lorawan-device/src/region -- do not edit.",
           "   region ids: 0 AS923_1, 1 AS923_2, 2 AS923_3, 3 AS923_4, 4 AU915, 5 EU868, 6 EU433, 7 IN865, 8 US915.",
           "   datarates: (SF, bandwidth index (7 = 125 kHz, 8 = 250 kHz, 9 = 500 kHz), max MAC payload) per DR 0..14. *)",
           "From Coq Require Import NArith List.", "Import ListNotations.", "Open Scope N_scope.", ""]
    cs = strip(open(os.path.join(R, "constants.rs")).read())
    for name in ("RECEIVE_DELAY1", "JOIN_ACCEPT_DELAY1", "JOIN_ACCEPT_DELAY2"):
        out.append("Definition c_%s : N := %d." % (name.lower(), const(cs, name)))
    for name in ("MAX_FCNT_GAP", "ADR_ACK_LIMIT", "ADR_ACK_DELAY", "NUM_DATARATES", "NUM_CHANNELS_DYNAMIC"):
        out.append("Definition c_%s : N := %d." % (name.lower(), const(cs, name)))
    out.append("")
    rows = []
    for rid, name, path, kind in REGIONS:
        if kind == "dyn":
            src = strip(open(os.path.join(R, path)).read())
            dts = datarates(src)
            if name.startswith("AS923"):
                m = re.search(r"type %s\s*=\s*DynamicChannelPlan<\s*AS923Region<\s*([^,<>]+),\s*([^,<>]+?)\s*>\s*>" % name, src)
                if not m:
                    raise Untranslatable("%s: type alias" % name)
                rx2, off = num(m.group(1).strip("{} "), src), num(m.group(2).strip("{} "), src)
                chans = [num(x, src) - off for x in re.findall(r"Channel::new\(\s*([^,()]+?) - OFFSET", src)]
                m = re.search(r"Region::%s => State::%s\(%s::(\w+)\(\)\)" % (name, name, name),
                              strip(open(os.path.join(R, "mod.rs")).read()))
                fchk = {"new_as924": "as924_generic_freq_check", "new_as924_4": "as924_4_freq_check"}.get(m.group(1) if m else None)
                if fchk is None:
                    raise Untranslatable("%s: constructor" % name)
                lo, hi = fn_range(src, fchk)
            else:
                rx2 = const(src, "DEFAULT_RX2_FREQ")
                chans = [num(x, src) for x in re.findall(r"Channel::new\(\s*([^,()]+?),\s*DR", src)]
                lo, hi = fn_range(src, "%s_freq_check" % name.lower())
            maxoff = const(src, "MAX_RX1_DR_OFFSET")
            nj = const(src, "NUM_JOIN_CHANNELS")
            if len(chans) != nj:
                raise Untranslatable("%s: %d default channels vs NUM_JOIN_CHANNELS %d" % (name, len(chans), nj))
            eirp = const(src, "MAX_EIRP")
            pmax, cap = power(src)
            up, down = [], []
            jdr = (0, 0)
        else:
            src = strip(open(os.path.join(R, path, "mod.rs")).read())
            dts = datarates(strip(open(os.path.join(R, path, "datarates.rs")).read()))
            fr = strip(open(os.path.join(R, path, "frequencies.rs")).read())
            up, down = chan_map(fr, "UPLINK_CHANNEL_MAP", 72), chan_map(fr, "DOWNLINK_CHANNEL_MAP", 8)
            rx2 = const(src, "DEFAULT_RX2_FREQ")
            maxoff = const(src, "MAX_RX1_DR_OFFSET")
            lo, hi = fn_range(src, "%s_default_freq" % name.lower())
            eirp = const(src, "MAX_EIRP")
            pmax, cap = power(src)
            nj, chans = 0, []
            m1 = re.search(r"const JOIN_DR_125KHZ: DR = DR::_(\d+);", src)
            m2 = re.search(r"const JOIN_DR_500KHZ: DR = DR::_(\d+);", src)
            if not m1 or not m2:
                raise Untranslatable("%s: join data rates" % name)
            jdr = (int(m1.group(1)), int(m2.group(1)))
        dstr = "; ".join("None" if d is None else "Some (%d, %d, %d)" % d for d in dts)
        out.append("(* %s *)" % name)
        out.append("Definition r%d_datarates : list (option (N * N * N)) := [%s]." % (rid, dstr))
        out.append("Definition r%d_consts : N * N * N * N * N * N * N * N := (%d, %d, %d, %d, %d, %d, %d, %d)."
                   % (rid, rx2, maxoff, lo, hi, eirp, pmax, cap, nj))
        out.append("Definition r%d_join_channels : list N := [%s]." % (rid, "; ".join(map(str, chans))))
        out.append("Definition r%d_uplink : list N := [%s]." % (rid, "; ".join(map(str, up))))
        out.append("Definition r%d_downlink : list N := [%s]." % (rid, "; ".join(map(str, down))))
        out.append("Definition r%d_join_dr : N * N := (%d, %d).\n" % (rid, jdr[0], jdr[1]))
        rows.append(rid)
    out.append("(* (datarates, (rx2_freq, max_rx1_dr_offset, freq_lo, freq_hi, max_eirp, max_power_index, power_cap (0 = none), num_join_channels),")
    out.append("    default join channels, uplink map, downlink map) by region id *)")
    out.append("Definition region_tables := [%s]." % "; ".join("(r%d_datarates, r%d_consts, r%d_join_channels, r%d_uplink, r%d_downlink)" % (r, r, r, r, r) for r in rows))
    out.append("(* data rates mandated for join requests on 125 kHz / 500 kHz channels (fixed plans; (0, 0) for dynamic plans) *)")
    out.append("Definition join_dr_table : list (N * N) := [%s]." % "; ".join("r%d_join_dr" % r for r in rows))
    return "\n".join(out) + "\n"


def main():
    dst = "/verif/coq/Gen/RegionTables.v"
    try:
        text = generate()
    except Untranslatable as e:
        print("untranslatable: %s" % e)
        return 3
    if not os.path.exists(dst) or open(dst).read() != text:
        open(dst, "w").write(text)
        print("regenerated", dst)
    return 0


if __name__ == "__main__":
    sys.exit(main())
