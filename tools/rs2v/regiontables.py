#!/usr/bin/env python3
"""rs2v/regiontables.py -- translator (tie T) for the regional constant tables of lorawan-device.

Reads from /repo's current source, per region: the DATARATES table (SF, bandwidth, max MAC payload), MAX_EIRP,
DEFAULT_RX2_FREQ, MAX_RX1_DR_OFFSET, NUM_JOIN_CHANNELS + default channels (dynamic plans), the frequency range check,
the tx_power_adjust index range (and US_DBM cap), and the 72/8-entry channel maps (fixed plans); plus the protocol
constants of region/constants.rs.  Writes coq/Gen/RegionTables.v.  The per-region get_rx_datarate functions are code,
not tables: they are modelled by hand (Model/Region.v) and tied exhaustively by the correspondence run.
"""
import os, re, sys

R = "/repo/lorawan-device/src/region"
BW = {"_7KHz": 0, "_10KHz": 1, "_15KHz": 2, "_20KHz": 3, "_31KHz": 4, "_41KHz": 5, "_62KHz": 6, "_125KHz": 7, "_250KHz": 8, "_500KHz": 9}
# region id -> (name, source file, kind)
REGIONS = [
    (0, "AS923_1", "dynamic_channel_plans/as923.rs", "dyn"), (1, "AS923_2", "dynamic_channel_plans/as923.rs", "dyn"),
    (2, "AS923_3", "dynamic_channel_plans/as923.rs", "dyn"), (3, "AS923_4", "dynamic_channel_plans/as923.rs", "dyn"),
    (4, "AU915", "fixed_channel_plans/au915", "fix"), (5, "EU868", "dynamic_channel_plans/eu868.rs", "dyn"),
    (6, "EU433", "dynamic_channel_plans/eu433.rs", "dyn"), (7, "IN865", "dynamic_channel_plans/in865.rs", "dyn"),
    (8, "US915", "fixed_channel_plans/us915", "fix"),
]


class Untranslatable(Exception):
    pass


def strip(s):
    s = re.sub(r"/\*.*?\*/", "", s, flags=re.S)
    return re.sub(r"//[^\n]*", "", s)


def num(s, src=""):
    """value of a constant expression: decimal / hex literals (with _ separators and integer suffixes), + - * / and
    parentheses, `as <int type>` casts between unsigned types, and names of `const`s defined in the same file"""
    return cexpr(src, s, 0)


def cexpr(src, text, depth):
    t = re.sub(r"\bas\s+(?:u8|u16|u32|u64|usize)\b", "", text.strip())
    t = re.sub(r"\b(0x[0-9a-fA-F_]+|[0-9][0-9_]*)(?:u8|u16|u32|u64|usize)?\b", lambda m: str(int(m.group(1).replace("_", ""), 0)), t)

    def name(m):
        mm = re.search(r"const %s:\s*\w+\s*=\s*([^;]+);" % m.group(1), src)
        if not mm or depth > 6:
            raise Untranslatable("constant expression: cannot resolve %s" % m.group(0))
        return "(%d)" % cexpr(src, mm.group(1), depth + 1)
    t = re.sub(r"\b(?:Self::)?([A-Z][A-Z0-9_]*)\b", name, t)
    if not re.fullmatch(r"[0-9+\-*/ ()\n]+", t):
        raise Untranslatable("constant expression: " + text.strip()[:80])
    try:
        v = eval(t.replace("/", "//"))
    except Exception:
        raise Untranslatable("constant expression: " + text.strip()[:80])
    if v < 0:
        raise Untranslatable("negative constant: " + text.strip()[:80])
    return v


def datarates(src):
    m = re.search(r"const DATARATES:[^=]*=\s*\[(.*?)\n\];", src, re.S)
    if not m:
        raise Untranslatable("DATARATES table not found")
    body, out, i = m.group(1), [], 0
    for tok in re.finditer(r"Some\(Datarate\s*\{(.*?)\}\)|\bNone\b", body, re.S):
        if tok.group(0) == "None":
            out.append(None)
        else:
            f = tok.group(1)
            sf = re.search(r"spreading_factor:\s*SpreadingFactor::_(\d+)", f)
            bw = re.search(r"bandwidth:\s*Bandwidth::(\w+)", f)
            mx = re.search(r"max_mac_payload_size:\s*([^,}]+)", f)
            if not (sf and bw and mx) or bw.group(1) not in BW:
                raise Untranslatable("Datarate entry: " + f[:80])
            out.append((int(sf.group(1)), BW[bw.group(1)], num(mx.group(1), src)))
    if len(out) != 15:
        raise Untranslatable("DATARATES has %d entries, expected 15" % len(out))
    return out


def const(src, name):
    m = re.search(r"const %s:\s*(?:u\d+|usize)\s*=\s*([^;]+);" % name, src)
    if not m:
        raise Untranslatable("const %s not found" % name)
    return num(m.group(1), src)


def fn_range(src, fname):
    m = re.search(r"fn %s\((\w+): u32\) -> bool \{\s*\(([^.()]+)\.\.=([^.()]+)\)\.contains\(&\1\)\s*\}" % fname, src)
    if m:
        return num(m.group(2), src), num(m.group(3), src)
    # the same range written as a pair of comparisons
    m = re.search(r"fn %s\((\w+): u32\) -> bool \{\s*\1 >= ([^&|]+?)\s*&&\s*\1 <= ([^&|{}]+?)\s*\}" % fname, src)
    if m:
        return num(m.group(2), src), num(m.group(3), src)
    m = re.search(r"fn %s\((\w+): u32\) -> bool \{\s*([^&|]+?) <= \1\s*&&\s*\1 <= ([^&|{}]+?)\s*\}" % fname, src)
    if m:
        return num(m.group(2), src), num(m.group(3), src)
    raise Untranslatable("frequency check %s" % fname)


def chan_map(src, name, n):
    m = re.search(r"%s:\s*\[u32;\s*%d\]\s*=\s*\[(.*?)\];" % (name, n), src, re.S)
    if not m:
        raise Untranslatable("%s not found (as a written-out array of %d)" % (name, n))
    vals = [num(x, src) for x in m.group(1).split(",") if x.strip()]
    if len(vals) != n:
        raise Untranslatable("%s has %d entries" % (name, len(vals)))
    return vals


def power(src):
    m = re.search(r"fn tx_power_adjust\(pw: u8\) -> Option<u8> \{(.*?)\n    \}", src, re.S)
    if not m:
        raise Untranslatable("tx_power_adjust")
    b = m.group(1)
    r = re.search(r"0\.\.=(\d+)\s*=>\s*Some\((.*?)\),\s*_ => None", b, re.S)
    if not r:
        raise Untranslatable("tx_power_adjust body")
    expr = re.sub(r"\s+", "", r.group(2))
    if expr == "MAX_EIRP-(2*pw)":
        cap = 0
    elif expr == "core::cmp::min(US_DBM,MAX_EIRP-(2*pw))":
        cap = const(src, "US_DBM")
    else:
        raise Untranslatable("tx_power_adjust expression " + expr)
    return int(r.group(1)), cap


def read_source():
    """textual reading: (protocol constants, per-region rows)"""
    cs = strip(open(os.path.join(R, "constants.rs")).read())
    consts = [(name, const(cs, name)) for name in CONST_NAMES]
    rows = []
    for rid, name, path, kind in REGIONS:
        if kind == "dyn":
            src = strip(open(os.path.join(R, path)).read())
            dts = datarates(src)
            if name.startswith("AS923"):
                m = re.search(r"type %s\s*=\s*DynamicChannelPlan<\s*AS923Region<\s*([^,<>]+),\s*([^,<>]+?)\s*>\s*>" % name, src)
                if not m:
                    raise Untranslatable("%s: type alias" % name)
                rx2, off = num(m.group(1).strip("{} "), src), num(m.group(2).strip("{} "), src)
                chans = [num(x, src) - off for x in re.findall(r"Channel::new\(\s*([^,()]+?) - OFFSET", src)]
                m = re.search(r"Region::%s => State::%s\(%s::(\w+)\(\)\)" % (name, name, name),
                              strip(open(os.path.join(R, "mod.rs")).read()))
                fchk = {"new_as924": "as924_generic_freq_check", "new_as924_4": "as924_4_freq_check"}.get(m.group(1) if m else None)
                if fchk is None:
                    raise Untranslatable("%s: constructor" % name)
                lo, hi = fn_range(src, fchk)
            else:
                rx2 = const(src, "DEFAULT_RX2_FREQ")
                chans = [num(x, src) for x in re.findall(r"Channel::new\(\s*([^,()]+?),\s*DR", src)]
                lo, hi = fn_range(src, "%s_freq_check" % name.lower())
            maxoff = const(src, "MAX_RX1_DR_OFFSET")
            nj = const(src, "NUM_JOIN_CHANNELS")
            if len(chans) != nj:
                raise Untranslatable("%s: %d default channels vs NUM_JOIN_CHANNELS %d" % (name, len(chans), nj))
            eirp = const(src, "MAX_EIRP")
            pmax, cap = power(src)
            up, down = [], []
            jdr = (0, 0)
        else:
            src = strip(open(os.path.join(R, path, "mod.rs")).read())
            dts = datarates(strip(open(os.path.join(R, path, "datarates.rs")).read()))
            fr = strip(open(os.path.join(R, path, "frequencies.rs")).read())
            up, down = chan_map(fr, "UPLINK_CHANNEL_MAP", 72), chan_map(fr, "DOWNLINK_CHANNEL_MAP", 8)
            rx2 = const(src, "DEFAULT_RX2_FREQ")
            maxoff = const(src, "MAX_RX1_DR_OFFSET")
            lo, hi = fn_range(src, "%s_default_freq" % name.lower())
            eirp = const(src, "MAX_EIRP")
            pmax, cap = power(src)
            nj, chans = 0, []
            m1 = re.search(r"const JOIN_DR_125KHZ: DR = DR::_(\d+);", src)
            m2 = re.search(r"const JOIN_DR_500KHZ: DR = DR::_(\d+);", src)
            if not m1 or not m2:
                raise Untranslatable("%s: join data rates" % name)
            jdr = (int(m1.group(1)), int(m2.group(1)))
        if cap >= eirp:
            cap = 0  # a cap that never binds: same function as no cap
        rows.append(dict(rid=rid, name=name, dts=dts, rx2=rx2, maxoff=maxoff, lo=lo, hi=hi, eirp=eirp, pmax=pmax, cap=cap, nj=nj,
                         chans=chans, up=up, down=down, jdr=jdr))
    return consts, rows


CONST_NAMES = ("RECEIVE_DELAY1", "JOIN_ACCEPT_DELAY1", "JOIN_ACCEPT_DELAY2", "MAX_FCNT_GAP", "ADR_ACK_LIMIT", "ADR_ACK_DELAY",
               "NUM_DATARATES", "NUM_CHANNELS_DYNAMIC")
BW_HZ = {7810: 0, 10420: 1, 15630: 2, 20830: 3, 31250: 4, 41670: 5, 62500: 6, 125000: 7, 250000: 8, 500000: 9}


def read_dump(lines):
    """semantic reading: the same (constants, rows) from the output of `vph regiontables <rid>` (the compiled code asked through
    the cfg(lora_rs_verif) hooks Configuration::verif_tables / verif_frequency_valid / verif_snapshot)"""
    consts, rows = None, []
    for (rid, name, _, kind), line in zip(REGIONS, lines):
        kv = dict(t.split("=", 1) for t in line.split() if "=" in t)
        if kv.get("r") != str(rid):
            raise Untranslatable("dump line for region %d: %s" % (rid, line[:80]))
        c = [int(x) for x in kv["consts"].split(",")]
        if consts is not None and c != consts:
            raise Untranslatable("protocol constants differ between regions")
        consts = c
        d = kv["dr"].split(",")
        if len(d) != 16 or d[15] != "-":
            raise Untranslatable("%s: data-rate slots %s" % (name, d))
        dts = []
        for e in d[:15]:
            if e == "-":
                dts.append(None)
            else:
                sf, hz, mx = (int(x) for x in e.split("/"))
                if hz not in BW_HZ:
                    raise Untranslatable("%s: bandwidth %d" % (name, hz))
                dts.append((sf, BW_HZ[hz], mx))
        offs = [int(x) for x in kv["off"].split(",") if x != ""]
        if offs != list(range(len(offs))) or not offs:
            raise Untranslatable("%s: accepted RX1 offsets %s are not 0..max" % (name, offs))
        pw = kv["pw"].split(",")
        vals = []
        for x in pw:
            if x == "-":
                break
            vals.append(int(x))
        if not vals or any(x != "-" for x in pw[len(vals):]):
            raise Untranslatable("%s: TX power steps %s" % (name, pw))
        pmax = len(vals) - 1
        eirp = vals[pmax] + 2 * pmax
        cap = vals[0] if vals[0] < eirp else 0
        if any(v != (min(cap, eirp - 2 * i) if cap else eirp - 2 * i) for i, v in enumerate(vals)):
            raise Untranslatable("%s: TX power steps %s are not min(cap, MAX_EIRP - 2*index)" % (name, vals))
        rg = kv["range"].split(",")
        if len(rg) != 1 or rg[0].endswith("open") or rg[0] == "":
            raise Untranslatable("%s: frequency check accepts %s (not one closed interval)" % (name, rg))
        lo, hi = (int(x) for x in rg[0].split("-"))
        fresh = kv["fresh"]
        if kind == "dyn":
            m = re.search(r"ch=([^;]*)", fresh)
            slots = m.group(1).split(",")
            chans = []
            for sl in slots:
                if sl == "-":
                    break
                chans.append(int(sl.split("/")[0]))
            if any(sl != "-" for sl in slots[len(chans):]):
                raise Untranslatable("%s: default channels are not the leading slots" % name)
            up, down, jdr, nj = [], [], (0, 0), len(chans)
        else:
            up = [int(x) for x in kv["up"].split(",")]
            down = [int(x) for x in kv["down"].split(",")]
            if len(up) != 72 or len(down) != 8:
                raise Untranslatable("%s channel maps %d/%d" % (name, len(up), len(down)))
            a, b = kv["joindr"].split("/")
            jdr, chans, nj = (int(a), int(b)), [], 0
        rows.append(dict(rid=rid, name=name, dts=dts, rx2=int(kv["rx2"]), maxoff=offs[-1], lo=lo, hi=hi, eirp=eirp, pmax=pmax, cap=cap,
                         nj=nj, chans=chans, up=up, down=down, jdr=jdr))
    if len(rows) != len(REGIONS):
        raise Untranslatable("dump has %d regions" % len(rows))
    return list(zip(CONST_NAMES, consts)), rows


def render(consts, rows):
    out = ["(* GENERATED by tools/rs2v/regiontables.py from /repo/lorawan-device/src/region -- do not edit.",
           "   region ids: 0 AS923_1, 1 AS923_2, 2 AS923_3, 3 AS923_4, 4 AU915, 5 EU868, 6 EU433, 7 IN865, 8 US915.",
           "   datarates: (SF, bandwidth index (7 = 125 kHz, 8 = 250 kHz, 9 = 500 kHz), max MAC payload) per DR 0..14. *)",
           "From Coq Require Import NArith List.", "Import ListNotations.", "Open Scope N_scope.", ""]
    for name, v in consts:
        out.append("Definition c_%s : N := %d." % (name.lower(), v))
    out.append("")
    ids = []
    for w in rows:
        rid = w["rid"]
        dstr = "; ".join("None" if d is None else "Some (%d, %d, %d)" % d for d in w["dts"])
        out.append("(* %s *)" % w["name"])
        out.append("Definition r%d_datarates : list (option (N * N * N)) := [%s]." % (rid, dstr))
        out.append("Definition r%d_consts : N * N * N * N * N * N * N * N := (%d, %d, %d, %d, %d, %d, %d, %d)."
                   % (rid, w["rx2"], w["maxoff"], w["lo"], w["hi"], w["eirp"], w["pmax"], w["cap"], w["nj"]))
        out.append("Definition r%d_join_channels : list N := [%s]." % (rid, "; ".join(map(str, w["chans"]))))
        out.append("Definition r%d_uplink : list N := [%s]." % (rid, "; ".join(map(str, w["up"]))))
        out.append("Definition r%d_downlink : list N := [%s]." % (rid, "; ".join(map(str, w["down"]))))
        out.append("Definition r%d_join_dr : N * N := (%d, %d).\n" % (rid, w["jdr"][0], w["jdr"][1]))
        ids.append(rid)
    out.append("(* (datarates, (rx2_freq, max_rx1_dr_offset, freq_lo, freq_hi, max_eirp, max_power_index, power_cap (0 = none), num_join_channels),")
    out.append("    default join channels, uplink map, downlink map) by region id *)")
    out.append("Definition region_tables := [%s]." % "; ".join("(r%d_datarates, r%d_consts, r%d_join_channels, r%d_uplink, r%d_downlink)" % (r, r, r, r, r) for r in ids))
    out.append("(* data rates mandated for join requests on 125 kHz / 500 kHz channels (fixed plans; (0, 0) for dynamic plans) *)")
    out.append("Definition join_dr_table : list (N * N) := [%s]." % "; ".join("r%d_join_dr" % r for r in ids))
    return "\n".join(out) + "\n"


def generate():
    return render(*read_source())


def differences(a, b):
    """where two readings (constants, rows) disagree"""
    out = []
    if a[0] != b[0]:
        out.append("protocol constants: %s vs %s" % (a[0], b[0]))
    for x, y in zip(a[1], b[1]):
        for k in x:
            if x[k] != y[k]:
                out.append("%s.%s: source text %s vs compiled code %s" % (x["name"], k, x[k], y[k]))
    return out


def main():
    """usage: regiontables.py [--dump FILE]
    Without --dump: the textual reading alone.  With --dump (the output of `vph regiontables 0..8`): both readings; they must
    agree; when the source text cannot be read the tables are taken from the compiled code (exit 0, a note on stdout)."""
    dst = "/verif/coq/Gen/RegionTables.v"
    dump = None
    if len(sys.argv) == 3 and sys.argv[1] == "--dump":
        try:
            dump = read_dump([l for l in open(sys.argv[2]).read().splitlines() if l.startswith("r=")])
        except (Untranslatable, KeyError, ValueError, AttributeError, IndexError) as e:
            print("note: dump unreadable: %s" % e)
    try:
        src = read_source()
    except (Untranslatable, AttributeError) as e:
        if dump is None:
            print("untranslatable: %s" % e)
            return 3
        print("note: source text not readable by the textual translator (%s); tables taken from the compiled code" % e)
        src = dump
    if dump is not None and src is not dump:
        d = differences(src, dump)
        if d:
            print("readings-disagree: " + "; ".join(d[:8]))
            return 4
    text = render(*src)
    if not os.path.exists(dst) or open(dst).read() != text:
        open(dst, "w").write(text)
        print("regenerated", dst)
    return 0


if __name__ == "__main__":
    sys.exit(main())
