#!/usr/bin/env python3
"""Rewrites the '### Cxx' blocks of DESIGN.md section 5 from tools/mkmanifest.py's CHECKS and each vlib/props/cxx.py THEOREMS list."""
import importlib, os, re, sys
V = os.path.dirname(os.path.dirname(os.path.abspath(__file__)))
sys.path.insert(0, V)
sys.path.insert(0, os.path.join(V, "tools"))
import mkmanifest


def block(pid):
    c = mkmanifest.CHECKS[pid]
    mod = importlib.import_module("vlib.props." + pid.lower())
    th = ", ".join("`%s`" % t for t in mod.THEOREMS)
    note = c["note"].replace(mkmanifest.COMMON_NOTE, "(common trusted base, section 4) ")
    return "### %s\n\n*Theorems:* %s\n\n%s\n\n*Trusted / partial:* %s\n\n" % (pid, th, c["text"], note)


def main():
    p = os.path.join(V, "DESIGN.md")
    s = open(p).read()
    for pid in sorted(mkmanifest.CHECKS):
        m = re.search(r"### %s\n.*?(?=\n### C\d\d\n|\n## 6\. )" % pid, s, re.S)
        if not m:
            print("no block for", pid)
            continue
        s = s[:m.start()] + block(pid).rstrip("\n") + "\n" + s[m.end():]
    open(p, "w").write(s)


if __name__ == "__main__":
    main()
