#!/usr/bin/env python3
"""Regenerates /verif/MANIFEST.json from the table below (kept in one place so it stays valid)."""
import json, os, subprocess
V = os.path.dirname(os.path.dirname(os.path.abspath(__file__)))

COMMON_NOTE = ("Trusted: Coq 8.16.1 kernel; the hand-written Gallina model (coq/Model) as far as the correspondence run "
               "(differential test against /repo through /verif/harness) does not exercise it; hand-written spec (coq/Spec); "
               "extraction (ExtrOcamlBasic only), ocaml/driver.ml, Rust harness, python generators. ")

CHECKS = {
 "C01": dict(
  text="Coq theorems (Props/C01.v): for ARBITRARY block cipher and MAC functions with 16-byte outputs, the model of DataFrame::build_into returns exactly "
       "the frame of the declarative LoRaWAN 1.0.x spec (Spec/L2Frame.v: LE fields, FCtrl bits by direction, A_i keystream with key by FPort, B0|msg CMAC with the "
       "full 32-bit counter and direction) for every description the spec allows (any payload length up to the 255-byte PHY limit, proved by induction on blocks, no "
       "enumeration), writes it at the front of the buffer leaving the tail untouched, and refuses FOpts>15 / FOpts+port 0 / missing key / short buffer with the documented "
       "error; same for JoinRequest and JoinAccept (with/without CFList, AES-decrypt wrapping). The model is tied to the code by running model (instantiated with a Gallina "
       "AES-128/CMAC proved against FIPS-197/RFC 4493 vectors) and implementation (device- and network-side RustCrypto variants) on the same generated descriptions.",
  note=COMMON_NOTE + "RustCrypto aes/cmac are external code: modelled by Crypto/AES.v, CMAC.v and compared on random blocks. Theorems assume only the 16-byte output length of cipher and MAC.",
  tech="machine-checked proof in Coq (builder model = declarative L2 spec, all inputs) + differential correspondence with an independent Gallina AES/CMAC", ref="6 C01"),
 "C02": dict(
  text="Coq theorems (Props/C02.v), for arbitrary cipher/MAC functions with 16-byte outputs: a data frame parses iff it is structurally well formed and every layout "
       "offset is in bounds; validate_mic accepts iff the frame's MIC equals the reference MIC for the given 32-bit counter and the frame's own direction bit; "
       "check_mic_and_decrypt_in_place of ANY frame the spec builds returns the description it was built from (header fields, FOpts, port, plaintext; induction over "
       "keystream blocks, no length enumeration) and decrypt_in_place needs only the upper counter half; a failing checked decode returns the buffer unchanged; "
       "JoinAccept decrypt+verify round trip and field accessors (under the named premise enc(dec b)=b), session-key derivation = LoRaWAN 1.0.x. Tied to the code by "
       "running model and implementation on valid frames (matching / near / wrong counters, swapped or missing keys), bit-mutated frames, a structural lattice of "
       "short strings, JoinRequest/JoinAccept frames incl. wrong keys, comparing decoded fields AND the caller's buffer after every call.",
  note=COMMON_NOTE + "Premises: 16-byte outputs of cipher and MAC (proved for the Gallina AES/CMAC); enc_dec only for the JoinAccept round trip (checked on random blocks against RustCrypto and AES.v by C01's primitive comparison).",
  tech="machine-checked proof in Coq (parser/decryptor model vs declarative L2 spec; round trip) + differential correspondence incl. mutated frames", ref="6 C02"),
 "C03": dict(
  text="Coq theorems (Props/C03.v): C03_command_lengths_match_lorawan -- CIDs and payload lengths of the regenerated MAC-command tables are those of LoRaWAN 1.0.x section 5 (independent table in Spec/MacCmdSpec.v); for EVERY command table and EVERY byte string: the iterator model (the framing the CommandHandler derive generates + the fused "
       "MacCommands iterator) yields a finite list: whole commands whose bytes form a prefix of the input, then at most one error, then nothing (fused), never an "
       "out-of-bounds access, and length+1 steps always suffice (termination). The six command tables and the index ranges every payload accessor reads are REGENERATED "
       "from /repo's source on every run by tools/rs2v/cmdtables.py, and a computed sweep proves every accessor range lies inside the length the framing guarantees. "
       "Frame parsers: a successful parse puts every offset inside the buffer. Tied to the code by exhaustive sweeps of all strings up to 2 (quick) / 3 (thorough, 16.8 M x 6 sets) "
       "bytes through all six iterators with every accessor called under catch_unwind, every CID x truncation point, mutated 255-byte streams, and the frame parsers. "
       "The public payload constructors (a second way to obtain a view): C03_fixed_constructor_view (macro template: exactly len bytes), C03_mcgroupstatus_constructor_view / "
       "_refuses_short / C03_constructor_matches_iterator (the view is the status byte plus one whole 5-byte item per bit of AnsGroupMask, as long as the stream iterator makes it; "
       "shorter input is refused; C03_channel_mask_constructor: ChannelMask::new refuses fewer than N bytes and keeps the first N of anything longer), tied to the code "
       "over every status byte x lengths 0..23, mask lengths 0..13, with every accessor called and independent oracles.",
  note=COMMON_NOTE + "The proc-macro itself is not verified: its generated behaviour is modelled generically (Model/MacCmd.v) and tied by the exhaustive differential run; its table input is tied by the translator (trusted python, ~200 lines). Memory safety of safe Rust is the compiler's business.",
  tech="machine-checked proof in Coq (generic over command tables) + translator-regenerated tables/index sets + exhaustive short-string correspondence", ref="6 C03"),
 "C17": dict(
  text="Coq theorems (Props/C17.v) about the pure functions the driver models use to compute what they write: SX126x synthesiser word = nearest step for EVERY frequency up to 4.09 GHz "
       "(|word*32e6/2^25 - f| <= 0.48 Hz, no u32 overflow; linear arithmetic with division, no enumeration) and its four bytes recompose it; SX127x Frf = the step at or below, under 61.04 Hz off, "
       "fits 24 bits up to 1023.99 MHz; SX126x symbol timeout mant*2^(2exp+1) covers min(n, 248) (at most 7 symbols more) for every n and equals the byte sent (sweep over the 250 classes lifted to all n); "
       "SX127x writes exactly min(n, 1023); the adapter's 14 + floor(ms*1000/t_sym) symbols cover 12.25 symbols + ms for every t_sym and ms (nia); for EVERY requested power the SetPaConfig/SetTxParams "
       "values taken from the regenerated PA tables decode, by datasheet / ST anchors written in Spec/PhySpec.v, to the request clamped into the PA's range with a legal SetTxParams byte "
       "(clamping lemma + sweep), SX1276/SX1272 RegPaConfig/RegPaDac likewise (SX1276 RFO <= 0 dBm: 0.2 dB under, never above); RSSI/SNR of every raw byte within rounding of the datasheet conversion, "
       "no overflow. Tied to the code by running model and driver on set_channel over every LoRaWAN channel frequency + a stride over 137-1020 MHz, every power -128..127 and i32 extremes x 8 chip/PA "
       "variants, symbol timeouts 0..65535 (stride in quick), raw status bytes on three chips, and the adapter through LorawanRadio::setup_rx; every written value is also decoded by python datasheet formulas.",
  note=COMMON_NOTE + "Opcodes, registers, parameter codes, PA tables and constants are regenerated from /repo by tools/rs2v/phytables.py. SX127x packet RSSI follows Semtech's reference (16/15 linearisation in both SNR branches). "
       "Repaired while building: SX126x SNR i8 overflow for raw 126/127; adapter window a quarter symbol short.",
  tech="machine-checked proof in Coq (arithmetic for all inputs; finite sweeps lifted by clamping lemmas) + translator-regenerated PHY tables + driver-operation correspondence at pin level + independent datasheet decoder", ref="6 C17"),
 "C18": dict(
  text="Coq theorems (Props/C18.v): running the model of get_rx_payload of either driver on ANY emulated chip state (any status byte, reported length, offset, register and buffer contents), with a "
       "fault at any pin event or none, for ANY caller buffer size, yields an error or a length not exceeding the caller's buffer together with exactly that many bytes (induction over the "
       "program tree: safe_prog / safe_run); the length is the reported one (explicit header) or the configured one (implicit header); the caller's buffer keeps its size, holds the data at the front "
       "and is untouched behind it. Tied to the code by running model and driver over reported lengths x offsets x buffer sizes {0,1,12,64,255,256} x explicit/implicit x status codes on SX1262 and "
       "SX1276 with a patterned chip buffer (wrap-around offsets) and canary-filled caller buffers, a fault at every pin event, and through the LoRaWAN adapter's rx_single; an independent oracle "
       "recomputes the expected bytes.",
  note=COMMON_NOTE + "Memory safety of the slice operations is Rust's; the model shows the length check precedes the read and the read length equals the checked length.",
  tech="machine-checked proof in Coq (safety of the program tree for all chip states and fault positions) + pin-level correspondence + canary oracle", ref="6 C18"),
 "C19": dict(
  text="Coq theorems (Props/C19.v): every byte-wide field of every creator, for EVERY prior byte content and EVERY argument (exhaustive 256x256 sweep per field, lifted by "
       "forallb_forall): the setter refuses exactly the out-of-range values of range-checked fields, else stores the value truncated to the field, and leaves all other bits and "
       "bytes unchanged; accessors read those bits back (sweep); signed 6-bit margin; every wider field round-trips by a little-endian write/read lemma (all widths, all values); "
       "a stream of whole commands parses back to the same sequence (any table); MSB-first hex text forms parse back to the value for every width and value (induction on bytes). "
       "Known finding proved as C19_device_time_seconds_refuted / _is_byteswap. Tied to the code by running model and implementation on every value of every byte field, random "
       "setter sequences, push/echo/raw creators, accessors over every CID, build_mac_commands sequences, all 2^16 DevNonce strings, random/boundary identifiers and keys, malformed "
       "strings; plus a property-level round-trip oracle run on the implementation alone.",
  note=COMMON_NOTE + "hex crate / core::fmt / from_str_radix are modelled as digit-list functions (incl. the accepted leading '+'). Multicast mc_key (AES wrap) setter and certification payloads without accessors are compared byte-wise only.",
  tech="machine-checked proof in Coq (exhaustive byte sweeps + LE/hex induction lemmas) + differential correspondence + round-trip oracle on the implementation", ref="6 C19"),
 "C04": dict(
  text="Coq theorems (Props/C04.v). The model returns Panic wherever the Rust code indexes, unwraps, overflows (checked build) or calls panic!. Under the shape invariant mac_ok (region id < 9; "
       "dynamic plan: 16 slots, in-band channels, join channels defined, 9-byte mask; fixed plan: 9-byte masks and bounded join-channel bookkeeping; configured data rate an uplink data rate; "
       "RX1 offset < 8), which holds for every freshly built MAC (sweep over the regenerated tables) and is KEPT by every operation: every MAC command of every CID with every payload is handled "
       "without panic (C04_every_command, by cases over the command handler), hence every command stream and EVERY received byte string in Class A windows and Class C reception, in every activation "
       "state, incl. JoinAccepts with any DLSettings/RxDelay/CFList (C04_every_received_frame); channel selection never panics for any random stream; a join request never panics; send panics only "
       "inside prepare_buffer's two deliberate panic!s (application misuse: known finding) and otherwise keeps the invariant, so the device can transmit afterwards. Hangs: see C09 (a usable channel always "
       "exists; progress; the degenerate-stream finding). Front-ends: both are modelled (Model/AsyncDev.v, Model/NbDev.v) and compared with the code on the same histories; "
       "C04_async_send_never_panics_on_radio_input / C04_async_join_never_panics / C04_async_listen_never_panics: no radio behaviour during async send, join or rxc_listen (any byte strings in RX1 / RX2 / "
       "Class C reception, errors, timeouts, pending receptions, a fault at any radio call) makes them panic, except prepare_buffer's deliberate panic!s; C04_nb_event_never_panics: the same for every "
       "state, event and radio answer of the nb_device state machine, with the MAC invariant kept along every event sequence. "
       "Tied to the code by MAC histories enumerating every value of every field of every handled command (FOpts and port 0) and JoinAccept field classes in all regions with three sends afterwards, "
       "the C08/C09/C11/channel-slot generators, and front-end event sequences exhaustive to depth 4/5 (nb_device) and over {timeout, authentic, garbage, radio error}^2 windows (async_device, Class C), "
       "every output checked for PANIC/HANG under catch_unwind with a random-draw budget that covers every residue.",
  note=COMMON_NOTE + "Found and repaired while proving: LinkADRReq ChMaskCntl=4 indexed bank 9 of the 9-byte mask (remote panic in every region). Overflow checks and debug assertions are enabled in the harness build.",
  tech="machine-checked proof in Coq (invariant + totality of the whole receive and transmit path of the MAC model) + translator-regenerated tables + exhaustive-field MAC histories and exhaustive front-end event sequences under catch_unwind", ref="6 C04"),
 "C05": dict(
  text="Coq theorems (Props/C05.v): C05_max_payload_tables_match_rp002 -- every data rate of the regenerated regional tables has RP002's spreading factor, bandwidth and maximum MACPayload size (independent table in Spec/RP002.v; failed for EU433 DR2 = 123 until /repo fix 72dc2a1); for ALL last < 2^32 and wire < 2^16, next_fcnt_down accepts with n iff n is the unique counter = wire (mod 2^16) with last < n <= last+16384 "
       "and n < 2^32 (bit-level lemmas + linear arithmetic, no enumeration); never backwards, no replay; the session model acts on a frame exactly under the reference rule "
       "spec_accepts (well-formed, fits the data rate, reference MIC for the fresh counter) -- otherwise identity -- and then remembers n, decrypts with n, restarts the ADR count. "
       "Tied to the code: the real next_fcnt_down (hook) against the model on digests of all 2^16 wire values for `last` on a stride through +-70000 of every boundary class; "
       "MAC-level histories (model vs Mac through the hook, state snapshot after every step) with counters walking across 16-bit epochs up to 2^32-1, replays, reordering, "
       "far-future, wrong-epoch MIC and forged frames, Class A and C paths; every response also judged by an independent python reference (own AES-CMAC), which also recomputes the delivered payload under the accepted counter. Along whole "
       "histories (C05_nb_downlinks_strictly_increase, Proofs/DownHistory.v): within a session, over EVERY sequence of nb_device events (send requests, radio events with any answer and any "
       "received bytes, timeouts, a fault at any radio call) the counters reported as DownlinkReceived are strictly increasing and above the last accepted one -- no frame acted on twice, never "
       "backwards; C05_async_downlinks_strictly_increase: the same for every sequence of async_device send / rxc_listen calls against any radio script; both front-end models are tied to the code by front-end histories with valid / replayed / foreign / oversized / junk frames.",
  note=COMMON_NOTE + "Hook lorawan_device::mac::verif (cfg lora_rs_verif) drives the crate-private Mac and dumps its state; it only copies fields.",
  tech="machine-checked proof in Coq (counter arithmetic for all inputs; acceptance = reference rule) + MAC-history correspondence through a read-only hook + independent reference oracle", ref="6 C05"),
 "C06": dict(
  text="Coq theorems (Props/C06.v). MAC core: every send hands out exactly the current FCntUp and does not move it; rx2_complete moves it by +1 or reports SessionExpired at 2^32-1 "
       "(never wraps); a receive never rewinds it. Asynchronous front-end (Model/AsyncDev.v: Device::send / join / rxc_listen, RX1/RX2 windows, Class C reception between the windows): "
       "C06_async_send_concludes_the_uplink -- for EVERY radio behaviour (any script of timeouts, errors, frames, pending receptions; one failing radio call or an outage of any number of calls in a row; Class C or not) a send that "
       "returns, with a value or an error, has moved the session's counter past the counter of the frame it built or reports SessionExpired with the counter space exhausted, keys unchanged; "
       "C06_async_counters_strictly_increase -- any two uplinks of one session are built from strictly increasing counters whatever happened in between. Non-blocking front-end "
       "(Model/NbDev.v: the state machine of nb_device/state.rs as a pure function of state, MAC, event and the radio's answer): C06_nb_counters_strictly_increase -- for EVERY sequence of "
       "events (sends, radio events answered with Txing / TxDone / Idle / Rxing / an error / any packet, timeouts) and one failing radio call or an outage of any number of calls in a row, two frames of a session are built from "
       "strictly increasing counters until expiry is reported. Both front-end models are tied to the code by running model and implementation on the same histories (responses and the trace "
       "of radio / timer calls compared); every frame handed to the radio by either front-end is also decoded with an independent codec and must carry strictly increasing 32-bit counters.",
  note=COMMON_NOTE + "The front-end models cover the default feature set (class-c; no multicast / certification); the async executor is a 20-line no-waker poller and the scripted timer completes at once. "
       "Repaired while proving: nb_device left FCntUp unchanged when the radio answered a TxRequest with an unexpected response (counter reuse).",
  tech="machine-checked proof in Coq (MAC core + both front-ends over all radio behaviours / event sequences) + model/implementation correspondence on front-end histories + independent decoding oracle", ref="6 C06"),
 "C07": dict(
  text="Coq theorems (Props/C07.v): for every session state, configuration, channel plan and byte string: if the reference codec does not accept the frame (spec_accepts: "
       "reference MIC + freshness) and it is not oversized, handle_rx returns EXACTLY the same session, configuration, region and buffer with response NoUpdate (state equality, "
       "hence twin runs stay equal at every step; C07_rejected_frame_keeps_the_downlink_queue: nor is the application's queue of uncollected downlinks touched); an oversized "
       "frame only ends a Class A window like a timeout and is ignored in Class C; an invalid JoinAccept leaves the MAC "
       "unchanged. Tied to the code by model/implementation MAC histories and by running twin histories on the implementation that differ only by frames rejected by "
       "construction (random bytes, replays, other-session frames, MIC flips, far-future, wrong-key JoinAccepts, forged MAC commands) inserted at receive opportunities of "
       "histories that create sticky answers / owed ACKs / ADR counts, comparing every later output and state snapshot. Through the front-ends (Model/AsyncDev.v, Model/NbDev.v): "
       "C07_async_window_rejected_frame_is_timeout (an RX1/RX2 window of async_device that hears a rejected frame = the window timing out: same device, same radio calls, same "
       "outcome, for every device state and the rest of any script), C07_async_rxc_rejected_frame_is_skipped (Class C reception: costs one rx call, nothing else), "
       "C07_nb_rejected_frame_keeps_the_window_open (nb_device: RxDone with a rejected frame = the radio still receiving: same state, MAC, response NoUpdate); tied to the code by "
       "the front-end correspondence and by twin runs through the real async_device / nb_device (rejected frame vs nothing heard in the same window; Class C: rejected frames heard "
       "while listening between the Class A windows vs nothing heard -- windows, timer calls and every later response identical).",
  note=COMMON_NOTE + "'Rejected' is spec_accepts of Spec/L2Frame.v (size + reference MIC for the fresh counter), as C05 states acceptance: the stack does not compare the frame's DevAddr with "
       "the session's (the MIC covers the frame's own address), so a frame bearing another address but authentic under this session's NwkSKey is ACCEPTED by code, model and reference alike; "
       "such a frame is not in the rejected classes.",
  tech="machine-checked proof in Coq (reject = identity, state equality; front-end twin equalities) + twin-run (2-safety) differential runs on the implementation incl. both front-ends", ref="6 C07"),
 "C08": dict(
  text="Coq theorems (Props/C08.v) about the model of handle_downlink_macs, for all states and command bytes: RXParamSetupReq: answer 0b111 iff frequency in band, RX1 offset within "
       "the region's limit and RX2 data rate defined (15 = keep), then exactly those three fields change, otherwise the configuration is unchanged; RXTimingSetupReq sets exactly the "
       "RX1 delay (0,1 -> 1 s); DlChannelReq / NewChannelReq: any NAK bit => channel plan identical, full ACK => exactly the commanded channel change; LinkADRReq blocks: one identical "
       "answer per request, 0b111 => data rate, power and mask applied exactly (15 = keep), otherwise configuration and plan untouched, an RFU ChMaskCntl never ACKed (C08_dynamic_plan_rejects_rfu_chmaskcntl: in the 16-channel plans every value but 0 and 6, alone or as the last request of a block; C08_rfu_chmaskcntl_poisons_the_block / C08_block_poison_persists / C08_poisoned_block_is_rejected: anywhere inside a block it makes the whole block rejected; C08_linkadr_keep_is_the_live_configuration: 15 = keep in a later request of the same downlink means the "
       "value in force at that point of the sequence); answers are whole "
       "commands within 15 bytes, queued in request order, and once one is dropped all later ones are dropped; sticky answers = exactly the whole DlChannelAns/RXParamSetupAns/"
       "RXTimingSetupAns; C08_accepted_linkadr_governs_next_uplink: once an accepted LinkADRReq has set the mask, the next data uplink is chosen through that mask at the configured data "
       "rate from EVERY region state (a fixed plan in the middle of a join-sub-band bias included). Tied to the code by model/implementation histories enumerating the field values of the "
       "six handled requests per region (FOpts and port 0, blocks, mixtures, sequences of downlinks; fixed plans with a join bias: OTAA join, first data uplinks, LinkADRReq repeating or "
       "changing the mask) with state snapshots, and an independent oracle decoding the next two uplinks (order, copies, sticky) and checking ACK => effect / NAK => unchanged on the snapshot "
       "and on the data rate of the very next transmission; for downlinks carrying several requests the oracle applies the fully acknowledged LinkADRReq blocks, "
       "RXParamSetupReq and RXTimingSetupReq in sequence and compares data rate, 'power kept', RX1 delay / offset and RX2 parameters with the snapshot; NewChannelReq aimed at "
       "a default channel must not be fully acknowledged (RP002).",
  note=COMMON_NOTE + "Regional validity (band limits, defined data rates, offset limits) in the theorems refers to the tables regenerated from /repo by tools/rs2v/regiontables.py; TX power index ranges likewise. NbTrans is not implemented by the stack and not judged.",
  tech="machine-checked proof in Coq (per-command atomicity lemmas) + translator-regenerated regional tables + exhaustive-field MAC-history correspondence + independent answer/effect oracle", ref="6 C08"),
 "C09": dict(
  text="Coq theorems (Props/C09.v). C09_regional_constants_match_rp002 / C09_fixed_plan_channel_maps_match_rp002: band limits, maximum EIRP, highest TXPower index, largest RX1DROffset, default join channels, the 72 + 8 channel frequencies of US915 / AU915 and their join data rates, all REGENERATED from /repo, equal the RP002 values written independently in Spec/RP002.v. Dynamic plans: the invariant dyn_ok (16 slots, every defined channel inside the band of the regenerated table, join channels defined on the default join frequencies) "
       "holds initially (sweep over the regenerated tables) and is kept by a JoinAccept CFList, NewChannelReq and DlChannelReq; under it a data uplink goes out on a defined channel, enabled in the mask "
       "left in force, in band, at the configured region-defined data rate, a join request on a default join frequency; fixed plans: a mask-driven data uplink uses an enabled channel of the uplink map "
       "whose kind (125/500 kHz) matches the bandwidth of the data rate; the join data rates of the regenerated table have the bandwidth of their channel kind; after the fall-back a usable channel "
       "always exists and the fall-back changes nothing when one existed; every sampling loop (dynamic data and join, fixed 125 / 500 kHz) ends at the first draw that hits what it looks for, and a hitting draw value always exists (progress: C09_dynamic_selection_progress, C09_dynamic_join_progress, C09_fixed_selection_progress, C09_every_enabled_channel_can_be_drawn); conducted power <= min(127, the limit handed to "
       "adjust_power) and <= EIRP - gain. Along whole histories (Proofs/TxHistory.v): C09_every_selection_path_legal -- EVERY path of select_tx_channel (dynamic data / join, fixed plan through the mask, "
       "through the join-channel bookkeeping incl. the join bias, first data channel after a biased join) from every region state with the shape invariant yields a channel of the region (in band / on "
       "the uplink map, index <= 71, bandwidth of the data rate = channel kind) at a region-defined data rate; C09_send_/C09_join_transmission_legal -- what send / join_otaa hand to the radio is such a "
       "channel with the rf parameters of its data rate and power <= min(127, board limit); the invariant is kept by every MAC operation (C04) and no operation changes the region identity or the board "
       "limit (handle_cmd_rid ... mac_handle_rx_dev); C09_nb_every_transmission_legal / C09_nb_fresh_device -- along EVERY event sequence of nb_device (requests, radio events with any answer and any received "
       "bytes, timeouts, a fault at any call) from a fresh device of any region every frame handed to the radio is legal; C09_async_every_transmission_legal / C09_async_fresh_device -- the same for "
       "async_device after ANY sequence of join / send / rxc_listen calls against any radio script, whatever each call returned. PARTIAL: the literal 'terminates for every random stream' is REFUTED for the "
       "rejection samplers (C09_termination_every_stream_refuted_*: known finding); 'enabled in the mask in force' is proved per transmission for the mask-driven paths (join channels are not governed by "
       "the mask), the whole-history theorem carries band / map / data rate / power. Tied to the code by MAC histories over board powers 0..255, "
       "gains -128..127, join bias, CFLists, LinkADRReq blocks, NewChannelReq/DlChannelReq, set_datarate, ADR back-off, with a snapshot around every transmission and all 64 outcomes of the first channel draw "
       "from reached states; every TX judged by band / channel-map / data-rate / power rules written from RP002; both front-ends run model against code on event histories (join bias, faults, "
       "hostile frames) with every handed-over frame judged by the same rules.",
  note=COMMON_NOTE + "Region tables (bands, channel maps, data rates, join data rates, EIRP) are regenerated from /repo by tools/rs2v/regiontables.py. The oracle reads the channel plan / mask from the hook's snapshot.",
  tech="machine-checked proof in Coq (plan invariant + legality of every selection path + fall-back + power bound, lifted to every nb_device event sequence and every async_device call sequence; termination on every stream refuted by a witness) + translator-regenerated tables + MAC-history and front-end correspondence with exhaustive first-draw enumeration + RP002 oracle", ref="6 C09"),
 "C10": dict(
  text="Coq theorems (Props/C10.v): C10_protocol_constants (RECEIVE_DELAY1, JOIN_ACCEPT_DELAY1/2, MAX_FCNT_GAP, ADR_ACK_LIMIT/DELAY regenerated from constants.rs = the specification's values); C10_rx2_default_frequency -- the RX2 default frequency of every region's regenerated table is the RP002 value (AS923-n: 923.2 MHz + group offset; this theorem failed on AS923-3 = 916.5 MHz until /repo fix 4a1b5b8); the RX1 data-rate function of each of the 9 regions equals the RP002 rule (EU/AS/IN: max(dr-off,0); US915: min(13,max(8,10+dr-off)); AU915: "
       "min(13,max(8,8+dr-off))) on the whole scope where RP002 defines it (sweep of all 9x16x8 inputs of the regenerated tables, lifted by forallb_forall) and is TOTAL (no panic, "
       "a region-defined LoRa data rate) on all 16x8 inputs; for every MAC state and TX configuration rx_windows yields RX1 on the downlink frequency paired with the channel actually "
       "used at the table rate of the data rate actually used, RX2 on the negotiated-or-default frequency/data rate, both by value; delays: RX1 = negotiated delay, RX2 = RX1 + 1 s, "
       "join 5 s / 6 s; Class C listens on the RX2 parameters; fixed plans pair uplink channel n with downlink channel n mod 8. Tied to the code by MAC histories over every region x "
       "uplink data rate x RX1 offset 0..7 x RX2 overrides x RxDelay 0..15 x DlChannelReq, joins over the fixed-plan channels, Class C; an oracle written from RP002 judges every TX's windows; "
       "both front-ends' Timer::at / TimeoutRequest arguments are checked against delay + end-of-TX - lead for every RxDelay. "
       "The asynchronous front-end's whole schedule is proved (C10_async_class_a_window_schedule / _class_c_): on a radio that accepts every call and hears nothing, after ANY successful "
       "uplink (every MAC state, payload, lead time <= 100 ms) the device makes exactly the calls tx, timer.reset, [low power | Class C: continuous RX on the RX2 parameters], "
       "timer.at(RxDelay1 + 100 - lead), setup_rx(the RX1 window computed when the uplink was built), rx_single, then the same one second later with the RX2 window, and nothing else; "
       "likewise nb_device (C10_nb_class_a_window_schedule): TimeoutRequest((RxDelay1 + end of TX + offset) mod 2^32), RxRequest(RX1 window of the uplink), close after 100 ms, "
       "RxRequest(RX2 window) one second after RX1, close, conclude, MAC untouched in between; "
       "both front-end models (Model/AsyncDev.v, Model/NbDev.v) are tied to the code by the front-end correspondence stages of this check.",
  note=COMMON_NOTE + "The radio's own symbol timeout / preamble detection is outside (C17). The schedule theorem is stated for the quiet radio (no fault, nothing heard); other scripts are covered by "
       "the correspondence and the timing oracle only. The schedule theorems take the radio's Timings (offset -15 ms, duration 100 ms for the scripted radio) as the model's constants. Timer resolution/jitter is the embedded timer's.",
  tech="machine-checked proof in Coq (regional window functions vs RP002 rules, total over all inputs; async front-end call schedule for every uplink) + translator-regenerated region tables + MAC-history and front-end correspondence + RP002 oracle + front-end timer oracle", ref="6 C10"),
 "C11": dict(
  text="Coq theorems (Props/C11.v) for arbitrary cipher/MAC functions with 16-byte outputs: join_otaa emits exactly the 23-byte JoinRequest of the spec (identifiers, DevNonce = draw mod 2^16, "
       "MIC under the root key) and remembers that DevNonce; a frame is acted on iff it is an authentic JoinAccept (size 17/33, MHDR, CMAC under the root key over the AES-encrypted body: "
       "spec_ja_accepts), otherwise the whole MAC state is returned unchanged and the window end reports NoJoinAccept; an authentic accept yields a fresh session (counters 0 / none, nothing "
       "pending) with keys = LoRaWAN 1.0.x derivation from (root key, JoinNonce, NetID, the DevNonce just sent), the assigned address, RxDelay applied, RX1 offset / RX2 data rate applied iff "
       "valid in the region else previous values kept; CFList: type 0 on dynamic plans defines channels J..J+4 (0 removes, out-of-band ignored, others untouched, no panic, plan length invariant), "
       "type 1 on fixed plans replaces the mask, every other combination ignored. Tied to the code by MAC histories over all 256 DLSettings x RxDelay 0..15 x CFList variants x regions after failed "
       "attempts, forged frames, re-joins, compared step by step with state snapshots; an independent python derivation judges keys/address/counters/settings/channel plan and the first uplinks; "
       "RX1 / RX2 / no arrival driven through async_device and nb_device. Through the front-end models: C11_async_join_needs_authentic_accept (whatever the radio delivers during "
       "join() -- timeouts, errors, any frames in RX1 / RX2 / Class C reception, a fault at any call -- without an authentic JoinAccept the device stays exactly in the joining state, is never "
       "joined and never reports JoinSuccess) and C11_nb_join_needs_authentic_accept (no sequence of radio events / timeouts / send requests without an authentic JoinAccept changes the MAC).",
  note=COMMON_NOTE + "Premise enc(dec b)=b only for C11_session_of_network_accept (a JoinAccept built by the spec network); JoinAccept replay across DevNonces is inherent to LoRaWAN 1.0.x and not judged.",
  tech="machine-checked proof in Coq (join model vs L2 spec: request, acceptance iff authentic, derived session, CFList semantics) + MAC-history correspondence + independent python key-derivation/settings oracle + front-end join runs", ref="6 C11"),
 "C12": dict(
  text="Coq theorems (Props/C12.v): the session model refines the abstract ADR/ACK machine of Spec/AdrSpec.v: every data uplink is the byte-exact spec frame of a description carrying the "
       "session address, the requested message type, the current counter and (ADR, ADRACKReq, ACK) = the spec's bits (ADRACKReq iff ADR on, >= 64 uplinks since an accepted downlink "
       "and a lower region-defined rate exists; ACK consumed by that uplink); concluding an uplink without downlink is exactly the spec's step (count +1, data rate to the next lower "
       "defined rate at 96, 128, ... and never otherwise, nothing else changes); next_lower is the greatest defined rate below (skips gaps); an accepted downlink zeroes the count and a "
       "confirmed one owes exactly one ACK. Tied to the code by histories of 140..600 uplinks per session in all regions compared step by step, plus an independent python reference machine.",
  note=COMMON_NOTE,
  tech="machine-checked refinement proof in Coq (session model vs abstract ADR/ACK spec) + long-history correspondence + independent reference machine", ref="6 C12"),
 "C13": dict(
  text="Theorems (Props/C13.v): for every legal parameter value the command bytes the SX126x model computes (SetModulationParams, SetRfFrequency, SetPacketParams, SetDioIrqParams per "
       "radio mode, SetSleep/SetStandby/SetTx/ClearIrqStatus/SetTxContinuousWave/SetBufferBaseAddress/WriteBuffer/CalibrateImage/SetPaConfig, the TxModulation and IQ-polarity erratum values) equal the "
       "datasheet command formats of Spec/PhySpec.v (opcodes, field order, parameter code tables written from the datasheet, compared with the constants REGENERATED from the driver source), and the SX1276 "
       "read-modify-write results put the commanded codes into the Bw / CodingRate / SF / LowDataRateOptimize fields and keep every other bit, for every prior register byte (sweep). ORDER of transactions (SX126x, C13_sx126x_seq_*, Proofs/PhySeq.v): for every "
       "parameter value and every byte the chip answers to the reads, the SPI transactions along the success path of set_modulation_params (command, then the TX-modulation workaround "
       "read/write of 0x0889), set_packet_params (command, IQ-polarity workaround on 0x0736), set_channel, set_tx_power_and_ramp_time (TX-clamp workaround on 0x08D8 for the high-power PA, "
       "SetPaConfig, SetTxParams), do_rx (StopTimerOnPreamble, SetLoRaSymbNumTimeout [+ 0x0706], RX gain register, SetRx / SetRxDutyCycle), do_cad, the cold-start sequence up to the retention "
       "list, tx / write_buffer / irq / standby / sleep equal the sequence of datasheet commands the reference driver issues. For the SX127x, whose reference driver legitimately "
       "accesses registers in another pattern (compared by register outcome), the order is stated where it is not a matter of pattern: the FIFO discipline of the datasheet "
       "(C13_sx127x_seq_set_payload / _set_buffer_base / _get_rx_payload: FifoAddrPtr is programmed BEFORE the FIFO burst, to the TX base for a write and to FifoRxCurrentAddr for a read of "
       "exactly RxNbBytes bytes; C13_sx127x_fifo_registers: the regenerated register addresses are the datasheet's), tied to the code at pin level and by an oracle on the emulated FIFO "
       "(from any prior pointer the payload lands at the TX base). Tied to the code THREE ways on the same emulated bus: the Coq models against the lora-phy "
       "drivers (pin-level traces, exact), and the drivers against Semtech's reference drivers (SWL2001 C sources through smtc-modem-cores): SX1261/SX1262 transaction by transaction in wire-canonical "
       "form, SX1276 by register outcome on randomised prior register contents, over every LoRaWAN channel frequency + a stride over 137-1020 MHz, every SF x BW x CR, packet parameter grids, sync "
       "words, symbol timeouts, IRQ masks, RX/TX/CAD start, PA/TX parameters, image calibration, status decoding.",
  note=COMMON_NOTE + "The reference driver is external C code compiled by the smtc-modem-cores-sys crate from the offline cargo registry (cmake + bindgen); documented errata placement differs (the "
       "reference applies IQ inversion and errata 2.3 at SetRx/SetTx time): those registers are compared against the datasheet values through the model, not against the reference. "
       "Repaired while building: SX127x Frf was truncated instead of rounded (one step below the reference for about half of all frequencies).",
  tech="machine-checked proof in Coq (command / register encodings = datasheet formats for all parameters) + translator-regenerated PHY tables + three-way pin-level correspondence (model, driver, Semtech reference driver)", ref="6 C13"),
 "C14": dict(
  text="Coq theorems: C14_wrong_mode_refused_without_commanding (tx / start_rx / rx_switch_channel / complete_rx / rx / get_rx_result / cad in the wrong "
       "mode: InvalidRadioMode, chip and driver fields unchanged, nothing on the pins -- any radio kind, any chip state); C14_sx126x_every_history / "
       "C14_sx127x_every_history: along EVERY history of the 13 LoRa-layer operations run by the interpreter on the emulated chip with any register/read "
       "contents, any interrupt script, a fault at any SPI/BUSY/IRQ position, any wait that never completes, the environment changing the chip freely "
       "between operations, the chip-side monitor (Spec/ChipMon.v) never sees a command reach an un-woken sleeping chip nor a TX/RX/CAD start with "
       "something un-programmed since the configuration was lost, and the driver's fields agree with the chip's mode (invariant proved through a "
       "weakest-precondition calculus with soundness for `run`, generic in the radio kind; both drivers proved to satisfy the primitive specs); "
       "C14_*_failed_operation: non-pin failures end in standby on both sides (prepared state kept only for errors before the start / after the end; "
       "continuous RX goes on). The model is tied to the code on every run: 21 contexts x all operations x interrupt outcomes, a fault at every pin "
       "position and a pending wait at every await_irq, all pairs (thorough: triples), random histories, LoRaWAN adapter; the Coq monitor is compared "
       "with an independent python monitor on the real traces, and the rules are judged on the real driver's traces as well.",
  note=COMMON_NOTE + "The SX127x theorem includes the selection of the LoRa modem (RegOpMode.LongRangeMode, writable in sleep mode only) among what every start depends on: proved after "
       "the /repo fix b20c40c (ensure_ready re-asserts sleep | LoRa before a sleeping chip is woken; the former known finding sx127x-failed-reset-leaves-fsk-mode, whose history is now the "
       "Example C14_sx127x_failed_reset_history). PARTIAL in one respect: the chip's own behaviour (mode changes on commands and "
       "interrupt flags, what sleep / reset lose, when RxDutyCycle sleeps) is the datasheet reading written in Spec/ChipMon.v -- trusted, not derived from silicon. "
       "Faults are on SPI / BUSY / IRQ as the property says (reset and RF-switch outputs do not fail). enter_standby / get_rssi / continuous_wave are outside the property's operation list.",
  tech="machine-checked proof in Coq (invariant over all API histories, faults and cancellations via a sound weakest-precondition calculus) + model/implementation correspondence on histories + chip-side monitor oracle", ref="6 C14"),
 "C15": dict(
  text="Coq theorems: every driver's LDRO decision and the bit programmed into the chip equal the airtime calculator's, and that "
       "decision is 'on' exactly when 2^SF*10^6 >= 16384*BW (exact arithmetic) for all SF 5..12 x all 10 bandwidths. The models are "
       "tied to the code exhaustively: all 80 pairs x 6 chip variants (SX1261, SX1262, STM32WL, SX1276, SX1272, LR1110) x frequencies on both "
       "sides of the 400 MHz rule x prior register contents, through create_modulation_params + set_modulation_params on a recording SPI bus. "
       "Register level (SX127x, where the bit shares a register with other fields): C15_sx1272_modulation_writes_ldro / C15_sx1272_packet_params_keep_ldro / "
       "C15_sx1272_ldro_survives_prepare / C15_sx1276_modulation_writes_ldro -- the read-modify-write functions the modelled set_modulation_params / set_packet_params apply "
       "(Model/Sx127x.v mod_c1_1272, pkt_c1_1272, mod_c3_1276) put exactly the decision into RegModemConfig1 bit 0 / RegModemConfig3 bit 3 and no later packet-parameter write disturbs it, "
       "for every register content and flag combination; tied to the code by running set_modulation_params / set_packet_params sequences (both orders, every header / CRC / IQ "
       "combination, every supported SF x BW, all-zero / all-one / random prior registers) on both chips, model against driver at pin level and by register file, the bit read back "
       "from the emulated registers and compared with the 16.384 ms rule.",
  note=COMMON_NOTE + "The domain is finite and enumerated completely by the correspondence run on every tier.",
  tech="machine-checked proof in Coq + exhaustive model/implementation correspondence over the finite (chip,SF,BW) domain", ref="6 C15"),
 "C16": dict(
  text="Coq theorems C16_value / C16_never_overflows / C16_monotone: for every SF, BW, CR, header mode, preamble option and payload length "
       "0..255 the model of time_on_air_us equals the Semtech formula in exact integer arithmetic, no intermediate leaves its Rust integer type, "
       "and the value is monotone in the length (no enumeration of lengths: linear arithmetic + division lemmas). The model is tied to the code "
       "by running both on digests of all 256 lengths for every (sf,bw,cr,header) and 8 (quick) or all 257 (thorough, 42.1 M cases, exhaustive) preamble settings.",
  note=COMMON_NOTE + "Spec/Airtime.v states the SX127x datasheet formula with CRC on and the library's documented microsecond-truncated symbol time.",
  tech="machine-checked proof in Coq (model = spec for all inputs) + exhaustive model/implementation correspondence", ref="6 C16"),
 "C20": dict(
  text="Coq theorems (Props/C20.v) about a model of the serialised form at the level of JSON values as serde_json hands them to the visitors (derived Session / key / address visitors, the "
       "hand-written Uplink visitor): for EVERY representable session (pending answers within 15 bytes, 16-byte keys, 32-bit counters) restore(serialise s) = s in every field, hence every "
       "function of the restored session (next uplink, verdict on a replayed downlink) equals that of the original; every state a session can reach is representable (a new session is; uplink "
       "preparation, window end incl. ADR back-off, and acceptance of ANY received byte string keep it: pending answers stay whole bytes within 15 by cases over the command handler, counters stay "
       "32-bit); EVERY document the deserialiser accepts yields a representable session (on which, by C04, nothing panics) that is stable under store/restore. Tied to the code by persisting and "
       "restoring (and dumping the serialised text, compared character by character with the model's) at every step of random and boundary histories (pending answers filled to and beyond 15 bytes, "
       "counters at 0/0xFFFF/0x10000/2^32-2/2^32-1, 'no downlink yet', replays after the restore), twin runs with/without persistence on the implementation, and ~1000 (quick) structurally "
       "mutated documents (each field removed / duplicated / retyped with 31 hostile values, every pending_len, unknown fields, sequence forms, syntax damage, random byte edits) with operations afterwards.",
  note=COMMON_NOTE + "serde / serde_json themselves are external code: their visitor protocol (object or sequence for derived structs, unknown-field and duplicate-field rules, missing Option = None, "
       "integer range checks, exact array lengths) is MODELLED in Model/Persist.v and tied by the document correspondence; the JSON text reader/printer in ocaml/driver.ml is trusted glue. "
       "The device front-ends' new_with_session / set_session only move the Session value.",
  tech="machine-checked proof in Coq (serialise/restore round trip for all representable sessions; reachable sessions representable; accepted documents representable) + step-wise persistence correspondence incl. serialised text + twin runs + mutated-document correspondence", ref="6 C20"),
}
PENDING = "check under construction in this session (Coq model + correspondence planned in DESIGN.md section 6); not claimed until it runs"

def main():
    hooks = []
    try:
        out = subprocess.run(["git", "-C", "/repo", "log", "--format=%h %s"], stdout=subprocess.PIPE).stdout.decode()
        hooks = [l.split()[0] for l in out.splitlines() if l.split(" ", 1)[1].startswith("verif-hook:")]
    except Exception:
        pass
    m = {
     "version": 1,
     "setup_cmd": "cd /verif && ./check --setup",
     "hooks": {"guard": "--cfg lora_rs_verif",
               "enable": "RUSTFLAGS=\"--cfg lora_rs_verif\" (set by vlib/core.py whenever it builds /verif/harness, which depends on the /repo crates by path)",
               "baseline_off_cmd": "cd /repo && cargo test --workspace --no-fail-fast --offline",
               "source_commits": hooks, "add_only": True},
     "engines": [{"name": "coq-proof+correspondence", "path": "/verif/check", "serves_properties": sorted(CHECKS),
                  "kind_free_text": "Coq 8.16 theorems about hand-written executable Gallina models of the code; the models are extracted to OCaml "
                                    "and run against the Rust implementation on the same inputs / histories (correspondence check); an extracted "
                                    "independent spec judges the implementation when the correspondence breaks"}],
     "checks": [], "not_applicable": [],
     "notes": "See DESIGN.md. ./check <id> --tier quick|thorough ; ./check --replay <file>. Known findings: known_findings.txt.",
    }
    for pid in sorted(CHECKS):
        c = CHECKS[pid]
        m["checks"].append({
            "property_id": pid, "quick_cmd": "./check %s --tier quick" % pid, "thorough_cmd": "./check %s --tier thorough" % pid,
            "evidence_file": "/verif/evidence/%s.json" % pid, "replay_cmd_template": "./check --replay {path}",
            "engine": "coq-proof+correspondence",
            "level_claimed": {"category": "proof", "text": c["text"], "design_ref": c["ref"]},
            "level_note": c["note"], "technique": c["tech"]})
    for i in range(1, 21):
        pid = "C%02d" % i
        if pid not in CHECKS:
            m["not_applicable"].append({"property_id": pid, "reason": PENDING})
    json.dump(m, open(os.path.join(V, "MANIFEST.json"), "w"), indent=1)

main()
