#!/bin/sh
# usage: tools/coqmake.sh Proofs/X.vo ...   (regenerates _CoqProject/Makefile when the file list changed)
cd /verif && python3 -c "
import sys; sys.path.insert(0,'/verif')
from vlib import core
ok,log=core.coq_build(sys.argv[1:]); print(log[-3500:]); sys.exit(0 if ok else 1)" "$@"
